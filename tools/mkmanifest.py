#!/venv/bin/python
"""regenerates /verif/MANIFEST.json from the table below (run after adding a rule module)"""
import json, os, sys
HERE = os.path.dirname(os.path.dirname(os.path.abspath(__file__)))
props = [json.loads(l) for l in open(os.path.join(HERE, "properties.jsonl"))]

CLAIMS = {
 "C01": ("codec layout extraction + guard formulas at boundary points + loop path pattern",
         "writer layout term and reader binding table of SOMEIPHeader compared with the SOME/IP header table per wire position; accept/reject guards and payload/suffix split decided on the extracted path formulas at every guard boundary; datagram loop decided as a path pattern - universal over field values because nothing value-dependent remains except struct's own pack/unpack inverse law; every returning path of build() is the packed fields plus the payload (no remembered image)",
         "struct pack/unpack inverse on in-range values; bytes slicing; no monkey-patching", "4 C01"),
 "C02": ("codec layout tables, bit-field obligations, index assign/resolve duality, search-soundness certificate",
         "per-codec writer/reader tables vs the SOME/IP-SD layout, registry agreement, framing formulas at boundary points, exhaustive flag bytes, structural duality of option index assignment and resolution, linear-index certificate that a reported search position is an occurrence; completeness of the sharing search is not decided; entry typestate: runs are placed only for entries established as resolved",
         "struct range checks raise struct.error; list/tuple slicing; the search helper's completeness is outside the claim", "4 C02"),
 "C07": ("exhaustive decision table over an exact order/equality abstraction + path facts",
         "check_received's path formulas evaluated on every cell of (known, stored flag, flag, order of ids) with ids in 1..0xFFFF; state update on every path; key contains sender and channel; single evaluation and exactly-once fan-out in message_received/reboot_detected",
         "dict KeyError semantics; session ids in 1..0xFFFF", "4 C07"),
 "C08": ("transition table over interval cells + def-use flow + who-may-write/send call-graph rules",
         "assign_outgoing's complete transition function on the cells [1,0xFFFE],{0xFFFF} (sequence and flag follow by induction), id/flag flow into the headers and key=destination in send_sd and _notify_single, empty-send guard, single writer of the memory, no transmission bypassing send_sd",
         "defaultdict factory semantics; single-threaded use (the lock is not part of the property)", "4 C08"),
 "C18": ("sibling agreement of stream and datagram decoder + byte-source typestate",
         "read() and parse() take the same decision and build the same fields on every boundary cell of the header fields, read() draws bytes only via readexactly(header) then readexactly(length-8), incomplete reads propagate, a header the datagram decoder rejects is rejected by read() after exactly one readexactly (same message position); chunking independence then follows from the readexactly contract",
         "asyncio.StreamReader.readexactly contract", "4 C18"),
 "C19": ("exhaustive truth tables over an exact equality partition + conversion field tables",
         "after checking syntactically that ids/versions are only tested for (in)equality, all 3^4 x 3^4 abstract operand pairs of every matching predicate are compared with the oracle and the algebraic laws (any other operand field the decision consults is a free dimension the table must hold for); conversions are compared as field-mapping tables",
         "dataclass construction stores arguments unchanged", "4 C19"),
 "C20": ("reader->writer codec tables, range closure, exhaustive flag bytes",
         "every wire position is bound invertibly or constant, decoded value ranges fit the writer positions, raw information (unknown option, flag bits, protocol numbers, raw indexes, unreferenced options) is re-emitted raw, SOME/IP positions all retained with recomputed length, configuration strings split/join inverse on representative bodies; none of build()'s own refusals is reachable with decoded field values",
         "struct inverse law; ASCII codec preserves length", "4 C20"),
 "C05": ("ATOMIC(store, notification) typestate + who-may-notify + deferral-stamp ordering over the resolved call graph",
         "every mutation of found_services.store invokes its notification in the same synchronous step and nothing else invokes it (so listener history = presence history for every interleaving); (un)watch catch-up is synchronous and reports stored (service, address) pairs; the notifier slots reach the listeners of every matching filter and the watch-all listeners with the reported pair; no cached view of store or filters survives a change of them; reboot handling precedes the offers of the same message by stamp order (call_soon depth, program order) - decided structurally, not by sampling schedules; a StopOffer reaches the store on every path (not gated by who is watching)",
         "asyncio ready queue is FIFO; listeners do not re-enter the discovery; one listener under two overlapping filters is not decided", "4 C05"),
 "C06": ("ATOMIC typestate for the subscription store + reject-before-record path facts + who-may-remove call graph + deferral-stamp ordering",
         "store mutation and client_(un)subscribed are one synchronous step, a rejected subscription is never recorded, removals are reachable only from TTL expiry / StopSubscribe / reboot / service stop, reboot handling precedes the Subscribe entries of the same message, identity excludes TTL and options",
         "asyncio ready queue is FIFO; listeners reject only with NakSubscription", "4 C06"),
 "C09": ("TimedStore typestate: cancel-on-removal pairing, arming, exactly-once expiry, atomic report",
         "all paths of every store-mutating method: each removed/replaced value has its timer cancelled, call_later is armed with the unscaled TTL / expiry routine / same key and stored, never for 0xFFFFFF, expiry removes then reports once iff present, report is synchronous with the removal; elapsed time is not decided",
         "call_later fires once, not early, unless cancelled (asyncio contract)", "4 C09"),
 "C10": ("coroutine path enumeration with cancellation at every await + typestate + guarded-call rules",
         "offer-task phase sequence and delays (evaluated with distinct primes per timing constant) on every path with CancelledError injected at each await, StopOffer count per path and configuration, running/may-answer typestate, deferred offers re-check the running state, every ServiceInstance.stop call is guarded, helper argument class agreement (one known finding, pinned by the test-suite); generation state (_task, may-answer flag) is neither assigned nor consulted by the ending offer task beyond what start() and stop() leave",
         "Task.cancel raises CancelledError at the current await; sleep/uniform honour their arguments; real delays not decided", "4 C10"),
 "C11": ("path-effect summaries of both handle_subscribe functions + echo field-table composition",
         "per path: return value and multiset of queued answers (Ack after recording, Nack on listener rejection, none for StopSubscribe / no match), exactly one announcer Nack iff nobody took the entry, Ack/Nack echo ids/eventgroup/counter (evaluated on boundary values), multicast Subscribes never dispatched",
         "listeners reject only by NakSubscription; at most one instance matches an entry", "4 C11"),
 "C12": ("path enumeration of the find handler: matched instances vs scheduled answers, channel to delay mapping",
         "gate on the may-answer flag then exactly Service.matches_find, one scheduling edge per matching instance to the requester's address, call_later(uniform(window)) for multicast and call_soon for unicast requests, the answer is the own offer with ANNOUNCE_TTL and re-checks the running state; the may-answer flag survives an offer task that ends on its own",
         "uniform() stays in its window and timers fire on time (not decided)", "4 C12"),
 "C13": ("coroutine freshness rule (list built after the last await) + round/delay sequence",
         "every transmitted list is computed after the most recent await as the unfound watched services mapped through create_find_entry(FIND_TTL), initial delay window, 2**i*base repetition delays, rounds bounded by REPETITIONS_MAX, an empty round ends the task, multicast destination; the find task is begun by the owner's start() only (no self-restart), its handle is not touched by ending runs",
         "no other callback runs between two awaits; sleep honours its argument", "4 C13"),
 "C14": ("uniform deferral depth of transmissions + requested-set who-may-write + entry field tables",
         "subscribe / stop-subscribe / stop defer their transmissions by the same number of loop iterations (so wire order = call order), StopSubscribe only after a successful removal, no Subscribe while not alive, refresh rounds use the current set without an await in between (no cached grouping survives a change of the requested set) and sleep the refresh interval, Subscribe entries carry ids/TTL/one endpoint option and go to the stored server; alive / task are owned by start()/stop() (no assignment from the cancelled refresh task or a done-callback)",
         "asyncio ready queue is FIFO; getnameinfo returns the numeric host/port", "4 C14"),
 "C15": ("SendCollector typestate (open/done) + key agreement + who-may-call",
         "append only while open and only from queue_send, done set before the flush of the same list, one timer per collector armed at construction with the collection timeout, collector keyed and bound to the same remote, nobody cancels, zero timeout bypass sends one entry immediately, no announcer/instance transmission bypasses queue_send; every method of the collector that hands the list over marks it done first, the timer handle is cancelled nowhere",
         "call_later fires once after the timeout; list.append keeps order", "4 C15"),
 "C16": ("exhaustive decision table over 384 input classes on the extracted path formulas + reply field tables",
         "each class of (service, interface version, method known, message type, return code, handler outcome, channel) selects one path; number, destination and fields of the reply (a field replacement over the request, so ids echo for all values) are compared with the specification table",
         "dataclasses.replace copies unnamed fields; handlers reject only by MalformedMessageError", "4 C16"),
 "C17": ("constructor field table of the notification + subscriber-set discipline + refusal paths",
         "notification header fields (method id evaluated on boundary event ids), one datagram per destination with all events, per-destination session id, set/has_clients invariant in subscribe/unsubscribe, one initial notification for the new endpoint, rounds read the set when they start, every failure in client_subscribed refuses; membership during a suspended round is not decided",
         "asyncio.Event / create_task semantics", "4 C17"),
 "C03": ("interprocedural may-raise analysis with a linear length-fact domain + strict-consumption loop rule + guard-dominates-effects on all header combinations",
         "escape sets of every decoder and of both receive paths (and their call_soon/call_later continuations), library raisers discharged only when the path's length facts exclude the failure; every while loop of a decoder strictly shortens its buffer; the SD filter decided on all 32x2 combinations of header fields / payload decodability; unicast-flag and multicast gates",
         "frozen table of library raisers; user listener/handler exceptions, format_address and the encoder side are outside (not byte-dependent)", "4 C03"),
 "C04": ("call-graph must-reach obligations through stored callbacks and scheduling edges + key agreement + deferral-stamp ordering (structural clauses only)",
         "necessary conditions of convergence only: every link of the offer/subscribe/ack chain, of the periodic re-transmissions and of every withdrawal path exists; the auto-subscriber adds and removes under the same key; reboot handling precedes the entries of the same message; TTL/period constants are wired to the right places. The convergence-time bound itself is NOT decided (liveness over time and fault schedules); generation state of the start/stop objects is not touched by code of an ending run",
         "asyncio FIFO ready queue; delivered datagrams reach datagram_received; timing and loss/duplication/reordering windows are outside", "4 C04"),
}
ENGINES = [{"name": "vstatic", "path": "vstatic/", "serves_properties": sorted(CLAIMS),
            "kind_free_text": "stdlib-ast static analyser: program facts, light type inference and call resolution, bounded path enumeration with inlining (terms, no solver), layout/codec tables, abstract evaluation of extracted formulas at representative points"}]

def main():
    na = json.load(open(os.path.join(HERE, "tools", "not_applicable.json"))) if os.path.exists(os.path.join(HERE, "tools", "not_applicable.json")) else {}
    checks = []
    for p in props:
        pid = p["id"]
        if pid not in CLAIMS:
            continue
        tech, text, note, ref = CLAIMS[pid]
        checks.append({
            "property_id": pid,
            "quick_cmd": f"./check {pid} --tier quick",
            "thorough_cmd": f"./check {pid} --tier thorough",
            "evidence_file": f"/verif/evidence/{pid}.json",
            "replay_cmd_template": "./check --replay {path}",
            "engine": "vstatic",
            "level_claimed": {"category": "other", "text": "static analysis: " + text, "design_ref": "DESIGN.md section " + ref},
            "level_note": note + "; subclass overrides / monkey-patching outside src/someip are outside the analysed program",
            "technique": "static analysis (stdlib ast): " + tech,
        })
    m = {
        "version": 1,
        "setup_cmd": "/venv/bin/python -B -c \"import ast,sys; sys.path.insert(0,'/verif'); import vstatic.main\"",
        "hooks": {"guard": "AFFLUX_PYSOMEIP_VERIF",
                  "enable": "no hooks: the checks only parse /repo/src/someip/*.py (static analysis); nothing is built, imported or instrumented",
                  "baseline_off_cmd": "cd /repo && /venv/bin/python -m pytest -ra -q -p no:cacheprovider --timeout=900 --continue-on-collection-errors",
                  "source_commits": [], "add_only": True},
        "engines": ENGINES,
        "checks": checks,
        "notes": "All checks are static (no code of /repo is imported or executed). Exit 0 = held, 1 = VIOLATION lines, 2 = ANALYSIS-ERROR (could not decide). VERIF_REPO overrides the analysed tree (used by the self-test).",
        "not_applicable": [{"property_id": p["id"], "reason": na.get(p["id"], "check under construction in this round; not claimed yet")} for p in props if p["id"] not in CLAIMS],
    }
    json.dump(m, open(os.path.join(HERE, "MANIFEST.json"), "w"), indent=1)
    print("claimed", len(checks), "not applicable", len(m["not_applicable"]))

if __name__ == "__main__":
    main()
