#!/venv/bin/python
"""regenerates /verif/MANIFEST.json from the table below (run after adding a rule module)"""
import json, os, sys
HERE = os.path.dirname(os.path.dirname(os.path.abspath(__file__)))
props = [json.loads(l) for l in open(os.path.join(HERE, "properties.jsonl"))]

CLAIMS = {
 "C01": ("codec layout extraction + guard formulas at boundary points + loop path pattern",
         "writer layout term and reader binding table of SOMEIPHeader compared with the SOME/IP header table per wire position; accept/reject guards and payload/suffix split decided on the extracted path formulas at every guard boundary; datagram loop decided as a path pattern - universal over field values because nothing value-dependent remains except struct's own pack/unpack inverse law",
         "struct pack/unpack inverse on in-range values; bytes slicing; no monkey-patching", "4 C01"),
 "C02": ("codec layout tables, bit-field obligations, index assign/resolve duality, search-soundness certificate",
         "per-codec writer/reader tables vs the SOME/IP-SD layout, registry agreement, framing formulas at boundary points, exhaustive flag bytes, structural duality of option index assignment and resolution, linear-index certificate that a reported search position is an occurrence; completeness of the sharing search is not decided",
         "struct range checks raise struct.error; list/tuple slicing; the search helper's completeness is outside the claim", "4 C02"),
 "C07": ("exhaustive decision table over an exact order/equality abstraction + path facts",
         "check_received's path formulas evaluated on every cell of (known, stored flag, flag, order of ids) with ids in 1..0xFFFF; state update on every path; key contains sender and channel; single evaluation and exactly-once fan-out in message_received/reboot_detected",
         "dict KeyError semantics; session ids in 1..0xFFFF", "4 C07"),
 "C08": ("transition table over interval cells + def-use flow + who-may-write/send call-graph rules",
         "assign_outgoing's complete transition function on the cells [1,0xFFFE],{0xFFFF} (sequence and flag follow by induction), id/flag flow into the headers and key=destination in send_sd and _notify_single, empty-send guard, single writer of the memory, no transmission bypassing send_sd",
         "defaultdict factory semantics; single-threaded use (the lock is not part of the property)", "4 C08"),
 "C18": ("sibling agreement of stream and datagram decoder + byte-source typestate",
         "read() and parse() take the same decision and build the same fields on every boundary cell of the header fields, read() draws bytes only via readexactly(header) then readexactly(length-8), incomplete reads propagate; chunking independence then follows from the readexactly contract",
         "asyncio.StreamReader.readexactly contract", "4 C18"),
 "C19": ("exhaustive truth tables over an exact equality partition + conversion field tables",
         "after checking syntactically that ids/versions are only tested for (in)equality, all 3^4 x 3^4 abstract operand pairs of every matching predicate are compared with the oracle and the algebraic laws; conversions are compared as field-mapping tables",
         "dataclass construction stores arguments unchanged", "4 C19"),
 "C20": ("reader->writer codec tables, range closure, exhaustive flag bytes",
         "every wire position is bound invertibly or constant, decoded value ranges fit the writer positions, raw information (unknown option, flag bits, protocol numbers, raw indexes, unreferenced options) is re-emitted raw, SOME/IP positions all retained with recomputed length, configuration strings split/join inverse on representative bodies",
         "struct inverse law; ASCII codec preserves length", "4 C20"),
}
ENGINES = [{"name": "vstatic", "path": "vstatic/", "serves_properties": sorted(CLAIMS),
            "kind_free_text": "stdlib-ast static analyser: program facts, light type inference and call resolution, bounded path enumeration with inlining (terms, no solver), layout/codec tables, abstract evaluation of extracted formulas at representative points"}]

def main():
    na = json.load(open(os.path.join(HERE, "tools", "not_applicable.json"))) if os.path.exists(os.path.join(HERE, "tools", "not_applicable.json")) else {}
    checks = []
    for p in props:
        pid = p["id"]
        if pid not in CLAIMS:
            continue
        tech, text, note, ref = CLAIMS[pid]
        checks.append({
            "property_id": pid,
            "quick_cmd": f"./check {pid} --tier quick",
            "thorough_cmd": f"./check {pid} --tier thorough",
            "evidence_file": f"/verif/evidence/{pid}.json",
            "replay_cmd_template": "./check --replay {path}",
            "engine": "vstatic",
            "level_claimed": {"category": "other", "text": "static analysis: " + text, "design_ref": "DESIGN.md section " + ref},
            "level_note": note + "; subclass overrides / monkey-patching outside src/someip are outside the analysed program",
            "technique": "static analysis (stdlib ast): " + tech,
        })
    m = {
        "version": 1,
        "setup_cmd": "/venv/bin/python -B -c \"import ast,sys; sys.path.insert(0,'/verif'); import vstatic.main\"",
        "hooks": {"guard": "AFFLUX_PYSOMEIP_VERIF",
                  "enable": "no hooks: the checks only parse /repo/src/someip/*.py (static analysis); nothing is built, imported or instrumented",
                  "baseline_off_cmd": "cd /repo && /venv/bin/python -m pytest -ra -q -p no:cacheprovider --timeout=900 --continue-on-collection-errors",
                  "source_commits": [], "add_only": True},
        "engines": ENGINES,
        "checks": checks,
        "notes": "All checks are static (no code of /repo is imported or executed). Exit 0 = held, 1 = VIOLATION lines, 2 = ANALYSIS-ERROR (could not decide). VERIF_REPO overrides the analysed tree (used by the self-test).",
        "not_applicable": [{"property_id": p["id"], "reason": na.get(p["id"], "check under construction in this round; not claimed yet")} for p in props if p["id"] not in CLAIMS],
    }
    json.dump(m, open(os.path.join(HERE, "MANIFEST.json"), "w"), indent=1)
    print("claimed", len(checks), "not applicable", len(m["not_applicable"]))

if __name__ == "__main__":
    main()
