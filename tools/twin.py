#!/venv/bin/python
"""dev helper: apply one or more textual edits to a scratch copy and run ALL checks on it (benign twins must stay silent)
usage: twin.py NAME FILE OLD NEW [FILE OLD NEW ...]"""
import os, shutil, subprocess, sys, tempfile, ast
name = sys.argv[1]
edits = sys.argv[2:]
d = tempfile.mkdtemp(prefix="twin-")
HERE = os.path.dirname(os.path.dirname(os.path.abspath(__file__)))
try:
    shutil.copytree("/repo/src", os.path.join(d, "src"))
    for i in range(0, len(edits), 3):
        fname, old, new = edits[i:i+3]
        p = os.path.join(d, "src", "someip", fname)
        s = open(p).read()
        if s.count(old) != 1:
            print(f"{name}: OLD occurs {s.count(old)} times in {fname}"); sys.exit(3)
        s = s.replace(old, new); ast.parse(s); open(p, "w").write(s)
    env = dict(os.environ, VERIF_REPO=d)
    bad = []
    for i in range(1, 21):
        pid = f"C{i:02d}"
        r = subprocess.run([os.path.join(HERE, "check"), pid, "--no-evidence"], env=env, capture_output=True, text=True)
        if r.returncode != 0:
            bad.append((pid, r.returncode, [l.strip()[:230] for l in r.stdout.splitlines() if l.strip().startswith("rule=") or "ANALYSIS-ERROR" in l][:2]))
    print(f"{name}: " + ("all 20 silent" if not bad else f"{len(bad)} NOISY"))
    for b in bad: print("   ", b)
finally:
    shutil.rmtree(d)
