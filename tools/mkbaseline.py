#!/venv/bin/python
"""regenerate vstatic/baseline_functions.txt: the functions of the tree the rules were written against.  A function
that is NOT in this list is an unknown helper: the path enumerator analyses its body in place at every call site
(transparent inlining), so extracting code into a new helper does not hide it from any rule."""
import os, sys
sys.path.insert(0, os.path.dirname(os.path.dirname(os.path.abspath(__file__))))
from vstatic.facts import Program, repo_root
prog = Program(repo_root())
out = os.path.join(os.path.dirname(os.path.dirname(os.path.abspath(__file__))), "vstatic", "baseline_functions.txt")
with open(out, "w") as fh:
    for q in sorted(prog.functions):
        fh.write(q + "\n")
print(len(prog.functions), "functions ->", out)
out2 = os.path.join(os.path.dirname(out), "baseline_classes.txt")
with open(out2, "w") as fh:
    for q in sorted(prog.classes):
        fh.write(q + "\n")
print(len(prog.classes), "classes ->", out2)

import json
from vstatic.renames import members_of_trees, BASELINE_MEMBERS
if prog.renames:
    sys.exit("the tree is not the baseline: renames were detected: %s" % prog.renames)
with open(BASELINE_MEMBERS, "w") as fh:
    json.dump(members_of_trees({short: mi.tree for short, mi in prog.modules.items()}), fh, indent=0, sort_keys=True)
print("members ->", BASELINE_MEMBERS)
