#!/venv/bin/python
"""run every check against every seeded change (scratch copies; /repo is never touched) and print the matrix
usage: seeded_run.py [ID-prefix ...]   writes seeded/RESULTS.json"""
import json, os, shutil, subprocess, sys, tempfile
from concurrent.futures import ThreadPoolExecutor
HERE = os.path.dirname(os.path.dirname(os.path.abspath(__file__)))
SEEDED = os.path.join(HERE, "seeded")

def one(sid):
    d = os.path.join(SEEDED, sid)
    tmp = tempfile.mkdtemp(prefix="seeded-")
    try:
        shutil.copytree("/repo/src", os.path.join(tmp, "src"))
        try:
            meta = json.load(open(os.path.join(d, "meta.json")))
            base = meta.get("base")
            if meta.get("superseded"):
                return sid, {"error": "superseded: " + meta["superseded"]["by"]}
        except Exception:
            base = None
        if base:
            r = subprocess.run(["patch", "-p1", "-s", "--no-backup-if-mismatch", "-i", os.path.join(HERE, base)], cwd=tmp, capture_output=True, text=True)
            if r.returncode != 0:
                return sid, {"error": "base refactoring does not apply"}
        r = subprocess.run(["patch", "-p1", "--no-backup-if-mismatch", "-i", os.path.join(d, "patch.diff")], cwd=tmp, capture_output=True, text=True)
        if r.returncode != 0:
            return sid, {"error": "patch does not apply: " + r.stdout[-200:]}
        env = dict(os.environ, VERIF_REPO=tmp)
        fired, errs, why = [], [], {}
        for i in range(1, 21):
            pid = f"C{i:02d}"
            r = subprocess.run([os.path.join(HERE, "check"), pid, "--no-evidence"], env=env, capture_output=True, text=True)
            if r.returncode == 1:
                fired.append(pid)
                why[pid] = [l.strip().split(" at src/")[0][:160] for l in r.stdout.splitlines() if l.strip().startswith("rule=")][:2]
            elif r.returncode == 2:
                errs.append(pid)
        return sid, {"target": __import__("re").search(r"C\d\d", sid).group(0), "reported_by": fired, "analysis_error": errs, "rules": why}
    finally:
        shutil.rmtree(tmp, ignore_errors=True)

def main():
    ids = sorted(x for x in os.listdir(SEEDED) if os.path.isdir(os.path.join(SEEDED, x)))
    if sys.argv[1:]:
        ids = [x for x in ids if any(x.startswith(a) for a in sys.argv[1:])]
    with ThreadPoolExecutor(max_workers=8) as ex:
        res = dict(ex.map(one, ids))
    for sid in ids:
        r = res[sid]
        if "error" in r:
            print(sid, r["error"]); continue
        hit = r["target"] in r["reported_by"]
        print(f"{sid:48s} target {'HIT ' if hit else 'MISS'} reported_by={','.join(r['reported_by']) or '-'} errors={','.join(r['analysis_error']) or '-'}")
    out = os.path.join(SEEDED, "RESULTS.json")
    if sys.argv[1:] and os.path.exists(out):  # a partial run updates its own rows only
        allres = json.load(open(out))
        allres.update({k: v for k, v in res.items() if "error" not in v})
        res = dict(sorted(allres.items()))
    json.dump(res, open(out, "w"), indent=1)

if __name__ == "__main__":
    main()
