#!/venv/bin/python
"""re-run all 20 checks on the test-surviving mutants recorded by mutsweep.py (no test suite run); updates fired/errors.
usage: mutrecheck.py [results.jsonl]"""
import json, os, shutil, subprocess, sys, tempfile
from concurrent.futures import ThreadPoolExecutor
HERE = os.path.dirname(os.path.dirname(os.path.abspath(__file__)))
path = sys.argv[1] if len(sys.argv) > 1 else os.path.join(HERE, "mutsweep", "results.jsonl")
rows = [json.loads(l) for l in open(path)]

def one(m):
    if m["status"] != "survived":
        return m
    tmp = tempfile.mkdtemp(prefix="mutre-")
    try:
        shutil.copytree("/repo/src", os.path.join(tmp, "src"), ignore=shutil.ignore_patterns("__pycache__", "*.egg-info"))
        p = os.path.join(tmp, "src", "someip", m["file"])
        src = open(p).read()
        s, e = m["span"]
        if src[s:e] != m["old"]:
            # the tree has changed since the sweep (a fix: commit): find the occurrence of the old text nearest to the recorded line
            cands = []
            k = src.find(m["old"])
            while k >= 0:
                cands.append(k)
                k = src.find(m["old"], k + 1)
            if not cands:
                return dict(m, status="gone")
            s = min(cands, key=lambda k: abs(src.count("\n", 0, k) + 1 - m["line"]))
            e = s + len(m["old"])
        open(p, "w").write(src[:s] + m["text"] + src[e:])
        fired, errors = [], []
        for i in range(1, 21):
            pid = f"C{i:02d}"
            c = subprocess.run([os.path.join(HERE, "check"), pid, "--no-evidence"], cwd=HERE, env=dict(os.environ, VERIF_REPO=tmp), capture_output=True, text=True)
            if c.returncode == 1:
                fired.append(pid)
            elif c.returncode == 2:
                errors.append(pid)
        return dict(m, fired=fired, errors=errors)
    finally:
        shutil.rmtree(tmp, ignore_errors=True)

with ThreadPoolExecutor(max_workers=14) as ex:
    out = list(ex.map(one, rows))
with open(path, "w") as fh:
    for r in out:
        fh.write(json.dumps(r) + "\n")
sv = [r for r in out if r["status"] == "survived"]
print(len(out), "mutants;", len(sv), "survive the test suite;", sum(1 for r in sv if r["fired"]), "of those reported by a check;",
      sum(1 for r in sv if not r["fired"] and r["errors"]), "undecided (analysis error only);", sum(1 for r in sv if not r["fired"] and not r["errors"]), "silent")
