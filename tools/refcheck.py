#!/venv/bin/python
"""Run all 20 checks on a scratch copy of /repo with one diff applied (behaviour-preserving refactorings must
leave every check silent; anything else is a false alarm or an analysis error to repair in the rules).

usage: refcheck.py DIFF [--suite] [--full]
  --suite  also run the pinned test suite on the patched copy
  --full   print every rule= line, not the first three
The scratch copy lives under $TMPDIR and is removed afterwards."""
import concurrent.futures as cf
import json
import os
import shutil
import subprocess
import sys
import tempfile

HERE = os.path.dirname(os.path.dirname(os.path.abspath(__file__)))
PY = "/venv/bin/python"


def one(pid, wt, full):
    env = dict(os.environ, VERIF_REPO=wt)
    r = subprocess.run([os.path.join(HERE, "check"), pid, "--no-evidence"], cwd=HERE, env=env,
                       capture_output=True, text=True, timeout=1500)
    lines = [l.strip()[:400] for l in r.stdout.splitlines() + r.stderr.splitlines()
             if l.strip().startswith("rule=") or "ANALYSIS-ERROR" in l]
    return pid, r.returncode, lines if full else lines[:3]


def main():
    diff = os.path.abspath(sys.argv[1])
    suite = "--suite" in sys.argv
    full = "--full" in sys.argv
    tmp = tempfile.mkdtemp(prefix="refcheck-")
    out = {"diff": diff}
    try:
        wt = os.path.join(tmp, "repo")
        os.makedirs(wt)
        for sub in ("src", "tests", "setup.cfg", "pyproject.toml", "tox.ini"):
            s = os.path.join("/repo", sub)
            if os.path.isdir(s):
                shutil.copytree(s, os.path.join(wt, sub), ignore=shutil.ignore_patterns("__pycache__", "*.egg-info"))
            elif os.path.exists(s):
                shutil.copy(s, os.path.join(wt, sub))
        r = subprocess.run(["patch", "-p1", "--no-backup-if-mismatch", "-i", diff], cwd=wt, capture_output=True, text=True)
        out["patch_applies"] = r.returncode == 0
        if r.returncode != 0:
            out["patch_output"] = (r.stdout + r.stderr)[-600:]
            print(json.dumps(out, indent=1))
            return 1
        if suite:
            env = dict(os.environ, PYTHONPATH=os.path.join(wt, "src"), PYTHONDONTWRITEBYTECODE="1")
            r = subprocess.run([PY, "-m", "pytest", "-q", "-p", "no:cacheprovider", "--timeout=900", "tests"],
                               cwd=wt, env=env, capture_output=True, text=True)
            out["suite"] = "pass" if r.returncode == 0 else "FAIL"
            out["suite_tail"] = (r.stdout + r.stderr).strip().splitlines()[-1:]
        noisy = {}
        with cf.ThreadPoolExecutor(10) as ex:
            for pid, rc, lines in ex.map(lambda p: one(p, wt, full), [f"C{i:02d}" for i in range(1, 21)]):
                if rc != 0:
                    noisy[pid] = {"exit": rc, "lines": lines}
        out["noisy"] = noisy
        out["verdict"] = "all 20 silent" if not noisy else f"{len(noisy)} NOISY"
        print(json.dumps(out, indent=1))
        return 0
    finally:
        shutil.rmtree(tmp, ignore_errors=True)


if __name__ == "__main__":
    sys.exit(main())
