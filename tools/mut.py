#!/venv/bin/python
"""dev helper: run a check against a scratch copy of /repo/src with one textual edit
usage: mut.py PROP[,PROP..] FILE OLD NEW     (FILE relative to src/someip; OLD must occur once)"""
import os, shutil, subprocess, sys, tempfile
props, fname, old, new = sys.argv[1:5]
root = os.environ.get("VERIF_REPO", "/repo")
d = tempfile.mkdtemp(prefix="mut-")
try:
    shutil.copytree(os.path.join(root, "src"), os.path.join(d, "src"))
    p = os.path.join(d, "src", "someip", fname)
    s = open(p).read()
    n = s.count(old)
    if n != 1:
        print(f"OLD occurs {n} times"); sys.exit(3)
    s2 = s.replace(old, new)
    compile(s2, p, "exec")
    open(p, "w").write(s2)
    env = dict(os.environ, VERIF_REPO=d)
    for prop in props.split(","):
        r = subprocess.run([os.path.join(os.path.dirname(os.path.dirname(os.path.abspath(__file__))), "check"), prop, "--no-evidence"], env=env, capture_output=True, text=True)
        print(f"--- {prop} rc={r.returncode}")
        print("\n".join(l for l in r.stdout.splitlines() if not l.startswith("VIOLATION") ) [:1500])
        if r.stderr: print(r.stderr[-800:])
finally:
    shutil.rmtree(d)
