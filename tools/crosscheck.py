#!/venv/bin/python
"""detection under refactoring: apply each seeded change ON TOP of each benign refactoring (where the patch still
applies) and run the seeded change's target check; the refactored form must not hide the defect.
usage: crosscheck.py [Rxx ...]"""
import json, os, shutil, subprocess, sys, tempfile
from concurrent.futures import ThreadPoolExecutor
HERE = os.path.dirname(os.path.dirname(os.path.abspath(__file__)))

def one(job):
    r, sid = job
    tmp = tempfile.mkdtemp(prefix="cross-")
    try:
        shutil.copytree("/repo/src", os.path.join(tmp, "src"))
        try:
            rbase = json.load(open(os.path.join(HERE, "benign", r, "refactor.json"))).get("base")
        except Exception:
            rbase = None
        if rbase:
            a0 = subprocess.run(["patch", "-p1", "-s", "--no-backup-if-mismatch", "-i", os.path.join(HERE, rbase)], cwd=tmp, capture_output=True, text=True)
            if a0.returncode != 0:
                return r, sid, "refactoring base does not apply"
        a = subprocess.run(["patch", "-p1", "-s", "--no-backup-if-mismatch", "-i", os.path.join(HERE, "benign", r, "refactor.diff")], cwd=tmp, capture_output=True, text=True)
        if a.returncode != 0:
            return r, sid, "refactoring does not apply"
        b = subprocess.run(["patch", "-p1", "-s", "-F0", "--no-backup-if-mismatch", "-i", os.path.join(HERE, "seeded", sid, "patch.diff")], cwd=tmp, capture_output=True, text=True)
        if b.returncode != 0:
            return r, sid, None
        target = __import__("re").search(r"C\d\d", sid).group(0)
        c = subprocess.run([os.path.join(HERE, "check"), target, "--no-evidence"], env=dict(os.environ, VERIF_REPO=tmp), capture_output=True, text=True)
        return r, sid, {0: "MISSED", 1: "hit", 2: "ANALYSIS-ERROR"}.get(c.returncode, str(c.returncode))
    finally:
        shutil.rmtree(tmp, ignore_errors=True)

def main():
    rs = sys.argv[1:] or sorted(os.listdir(os.path.join(HERE, "benign")))
    sids = sorted(x for x in os.listdir(os.path.join(HERE, "seeded")) if os.path.isdir(os.path.join(HERE, "seeded", x)))
    # changes written against a refactored baseline are tied to that baseline (seeded_run applies it)
    metas = {x: json.load(open(os.path.join(HERE, "seeded", x, "meta.json"))) for x in sids}
    sids = [x for x in sids if not metas[x].get("base") and not metas[x].get("superseded")]
    jobs = [(r, s) for r in rs for s in sids]
    with ThreadPoolExecutor(max_workers=14) as ex:
        res = list(ex.map(one, jobs))
    n = {"hit": 0, "MISSED": 0, "ANALYSIS-ERROR": 0}
    for r, sid, v in res:
        if v is None:
            continue
        n[v] = n.get(v, 0) + 1
        if v != "hit":
            print(r, sid, v)
    print(n)

if __name__ == "__main__":
    main()
