#!/venv/bin/python
"""Systematic gap search: small syntactic mutants of the library, kept only if the pinned test suite still passes,
then run against all 20 checks.  A surviving mutant that no check reports is a candidate gap (or an equivalent /
out-of-scope mutant): to be triaged by hand, never used as a verdict.

usage: mutsweep.py [--jobs N] [--limit K] [--files header.py,sd.py,...] [--out FILE] [--resume]
Everything runs on scratch copies under $TMPDIR (removed afterwards); /repo is never touched.
"""
import ast
import json
import os
import random
import shutil
import subprocess
import sys
import tempfile
from concurrent.futures import ThreadPoolExecutor

HERE = os.path.dirname(os.path.dirname(os.path.abspath(__file__)))
PY = "/venv/bin/python"
SRC = "/repo/src/someip"

CMP = {ast.Lt: "<=", ast.LtE: "<", ast.Gt: ">=", ast.GtE: ">", ast.Eq: "!=", ast.NotEq: "==", ast.Is: "is not", ast.IsNot: "is",
       ast.In: "not in", ast.NotIn: "in"}


def seg(src, node):
    return ast.get_source_segment(src, node)


def offsets(src, node):
    lines = src.splitlines(keepends=True)
    start = sum(len(l) for l in lines[:node.lineno - 1]) + len(lines[node.lineno - 1].encode()[:node.col_offset].decode())
    end = sum(len(l) for l in lines[:node.end_lineno - 1]) + len(lines[node.end_lineno - 1].encode()[:node.end_col_offset].decode())
    return start, end


def mutants_of(fname, src):
    tree = ast.parse(src)
    out = []
    parents = {}
    for p in ast.walk(tree):
        for c in ast.iter_child_nodes(p):
            parents[c] = p

    def func_of(n):
        names = []
        while n in parents:
            n = parents[n]
            if isinstance(n, (ast.FunctionDef, ast.AsyncFunctionDef, ast.ClassDef)):
                names.append(n.name)
        return ".".join(reversed(names))

    def add(node, new, op):
        s, e = offsets(src, node)
        old = src[s:e]
        if old == new:
            return
        out.append({"file": fname, "line": node.lineno, "func": func_of(node), "op": op, "old": old[:120], "new": new[:120], "span": [s, e], "text": new})

    for n in ast.walk(tree):
        fn = func_of(n)
        if not fn or "__str__" in fn or "__repr__" in fn:
            continue
        if isinstance(n, ast.Compare) and len(n.ops) == 1 and type(n.ops[0]) in CMP:
            l, r = seg(src, n.left), seg(src, n.comparators[0])
            if l and r:
                add(n, f"{l} {CMP[type(n.ops[0])]} {r}", "cmp")
        elif isinstance(n, ast.If) or isinstance(n, ast.While):
            t = seg(src, n.test)
            if t and not (isinstance(n, ast.While) and t == "True"):
                add(n.test, f"not ({t})", "negate-cond")
        elif isinstance(n, ast.BoolOp):
            parts = [seg(src, v) for v in n.values]
            if all(parts):
                j = " or " if isinstance(n.op, ast.And) else " and "
                add(n, "(" + j.join(f"({p})" for p in parts) + ")", "and-or")
        elif isinstance(n, ast.UnaryOp) and isinstance(n.op, ast.Not):
            o = seg(src, n.operand)
            if o:
                add(n, f"({o})", "drop-not")
        elif isinstance(n, ast.Constant) and isinstance(n.value, bool):
            add(n, str(not n.value), "bool")
        elif isinstance(n, ast.Constant) and isinstance(n.value, int) and not isinstance(n.value, bool):
            par = parents.get(n)
            if isinstance(par, (ast.Subscript, ast.Slice, ast.Compare, ast.BinOp, ast.Call, ast.keyword, ast.Return, ast.Assign)):
                txt = seg(src, n)
                if txt:
                    add(n, f"({txt} + 1)", "const+1")
                    if n.value > 0:
                        add(n, f"({txt} - 1)", "const-1")
        elif isinstance(n, ast.Expr) and isinstance(n.value, (ast.Call, ast.Await)) and not isinstance(parents.get(n), ast.Module):
            txt = seg(src, n)
            if txt and "log" not in txt.split("(")[0].lower() and "warn" not in txt.split("(")[0].lower():
                add(n, "pass", "del-call")
        elif isinstance(n, (ast.Assign, ast.AugAssign)) and func_of(n) and not isinstance(parents.get(n), (ast.Module, ast.ClassDef)):
            if isinstance(n, ast.AugAssign) or (len(n.targets) == 1 and isinstance(n.targets[0], (ast.Attribute, ast.Subscript))):
                add(n, "pass", "del-store")
        elif isinstance(n, ast.Call) and len(n.args) >= 2 and not n.keywords and not any(isinstance(a, ast.Starred) for a in n.args):
            a0, a1 = seg(src, n.args[0]), seg(src, n.args[1])
            f = seg(src, n.func)
            rest = [seg(src, a) for a in n.args[2:]]
            if a0 and a1 and f and all(rest) and a0 != a1 and "log" not in f.lower() and "isinstance" != f:
                add(n, f"{f}({', '.join([a1, a0] + rest)})", "swap-args")
        elif isinstance(n, ast.Return) and n.value is not None and isinstance(n.value, ast.Constant) and isinstance(n.value.value, bool):
            pass
        elif isinstance(n, (ast.Break, ast.Continue)):
            add(n, "pass", "del-jump")
        elif isinstance(n, ast.BinOp) and isinstance(n.op, (ast.Add, ast.Sub)):
            l, r = seg(src, n.left), seg(src, n.right)
            if l and r and not isinstance(n.left, ast.Constant) or (l and r and not isinstance(n.right, ast.Constant)):
                add(n, f"({l} {'-' if isinstance(n.op, ast.Add) else '+'} {r})", "plus-minus")
    if os.environ.get("MUTSWEEP_OPS", "first") == "second":
        out = []
        SIB = [("_1", "_2"), ("_MIN", "_MAX"), ("offered", "stopped"), ("subscribed", "unsubscribed"), ("1", "2")]

        def sibling(name):
            for a, b in SIB:
                for x, y in ((a, b), (b, a)):
                    if name.endswith(x) and len(name) > len(x):
                        return name[: -len(x)] + y
            table = {"add": "remove", "remove": "add", "start": "stop", "stop": "start", "append": "insert_never", "min": "max", "max": "min",
                     "call_soon": "call_soon_threadsafe", "options_1": "options_2", "oi1": "oi2", "no1": "no2", "oi2": "oi1", "no2": "no1",
                     "entries": "options", "flag_reboot": "flag_unicast", "flag_unicast": "flag_reboot", "client_id": "session_id",
                     "session_id": "client_id", "service_id": "method_id", "instance_id": "service_id", "major_version": "minor_version",
                     "callback_new": "callback_expired", "callback_expired": "callback_new", "addr": "remote", "multicast": "not multicast"}
            return table.get(name)
        for n in ast.walk(tree):
            fn = func_of(n)
            if not fn or "__str__" in fn:
                continue
            if isinstance(n, ast.Attribute) and isinstance(n.ctx, ast.Load):
                sb = sibling(n.attr)
                if sb and sb not in ("insert_never", "call_soon_threadsafe"):
                    base = seg(src, n.value)
                    if base:
                        add(n, f"{base}.{sb}", "sibling-attr")
            elif isinstance(n, ast.Name) and isinstance(n.ctx, ast.Load):
                sb = sibling(n.id)
                if sb and sb.isidentifier():
                    add(n, sb, "sibling-name")
            elif isinstance(n, ast.keyword) and n.arg:
                pass
        # swap two adjacent simple statements
        for n in ast.walk(tree):
            for field in ("body", "orelse", "finalbody"):
                body = getattr(n, field, None)
                if not isinstance(body, list) or not func_of(body[0] if body else n):
                    continue
                for a, b in zip(body, body[1:]):
                    if isinstance(a, (ast.Expr, ast.Assign, ast.AugAssign)) and isinstance(b, (ast.Expr, ast.Assign, ast.AugAssign)) \
                            and not (isinstance(a, ast.Expr) and isinstance(a.value, ast.Constant)) and a.col_offset == b.col_offset:
                        ta, tb = seg(src, a), seg(src, b)
                        if ta and tb and "log" not in ta.split("(")[0].lower() and "log" not in tb.split("(")[0].lower():
                            sa, ea = offsets(src, a)
                            sb_, eb = offsets(src, b)
                            mid = src[ea:sb_]
                            out.append({"file": fname, "line": a.lineno, "func": func_of(a), "op": "swap-stmts", "old": (ta + " ; " + tb)[:120],
                                        "new": (tb + " ; " + ta)[:120], "span": [sa, eb], "text": tb + mid + ta})
    return out


def run_one(m, idx):
    tmp = tempfile.mkdtemp(prefix="mutsweep-")
    try:
        wt = os.path.join(tmp, "repo")
        os.makedirs(wt)
        shutil.copytree("/repo/src", os.path.join(wt, "src"), ignore=shutil.ignore_patterns("__pycache__", "*.egg-info"))
        shutil.copytree("/repo/tests", os.path.join(wt, "tests"), ignore=shutil.ignore_patterns("__pycache__"))
        for f in ("setup.cfg", "pyproject.toml", "tox.ini"):
            if os.path.exists(os.path.join("/repo", f)):
                shutil.copy(os.path.join("/repo", f), wt)
        p = os.path.join(wt, "src", "someip", m["file"])
        src = open(p).read()
        s, e = m["span"]
        new = src[:s] + m["text"] + src[e:]
        try:
            ast.parse(new)
        except SyntaxError:
            return dict(m, status="syntax")
        open(p, "w").write(new)
        env = dict(os.environ, PYTHONPATH=os.path.join(wt, "src"), PYTHONDONTWRITEBYTECODE="1")
        try:
            r = subprocess.run([PY, "-m", "pytest", "-q", "-x", "-p", "no:cacheprovider", "--timeout=120", "tests"], cwd=wt, env=env,
                               capture_output=True, text=True, timeout=400)
        except subprocess.TimeoutExpired:
            return dict(m, status="killed", why="timeout")
        if r.returncode != 0:
            return dict(m, status="killed")
        fired, errors = [], []
        env2 = dict(os.environ, VERIF_REPO=wt)
        for i in range(1, 21):
            pid = f"C{i:02d}"
            c = subprocess.run([os.path.join(HERE, "check"), pid, "--no-evidence"], cwd=HERE, env=env2, capture_output=True, text=True, timeout=600)
            if c.returncode == 1:
                fired.append(pid)
            elif c.returncode == 2:
                errors.append(pid)
        return dict(m, status="survived", fired=fired, errors=errors)
    finally:
        shutil.rmtree(tmp, ignore_errors=True)


def main():
    a = sys.argv[1:]
    jobs = int(a[a.index("--jobs") + 1]) if "--jobs" in a else 6
    limit = int(a[a.index("--limit") + 1]) if "--limit" in a else None
    files = a[a.index("--files") + 1].split(",") if "--files" in a else ["header.py", "sd.py", "config.py", "service.py"]
    outp = a[a.index("--out") + 1] if "--out" in a else os.path.join(HERE, "mutsweep", "results.jsonl")
    os.makedirs(os.path.dirname(outp), exist_ok=True)
    muts = []
    for f in files:
        muts += mutants_of(f, open(os.path.join(SRC, f)).read())
    for m in muts:
        m.pop("span_text", None)
    random.Random(7).shuffle(muts)
    done = set()
    if "--resume" in a and os.path.exists(outp):
        for l in open(outp):
            d = json.loads(l)
            done.add((d["file"], tuple(d["span"]), d["text"]))
    muts = [m for m in muts if (m["file"], tuple(m["span"]), m["text"]) not in done]
    if limit:
        muts = muts[:limit]
    print(f"{len(muts)} mutants to run, {jobs} jobs", flush=True)
    n = {"killed": 0, "survived": 0, "syntax": 0}
    with open(outp, "a") as fh, ThreadPoolExecutor(max_workers=jobs) as ex:
        for i, r in enumerate(ex.map(lambda im: run_one(im[1], im[0]), enumerate(muts))):
            n[r["status"]] = n.get(r["status"], 0) + 1
            fh.write(json.dumps({k: v for k, v in r.items()}) + "\n")
            fh.flush()
            if r["status"] == "survived":
                print(f"[{i}] SURVIVED {r['file']}:{r['line']} {r['func']} {r['op']}: {r['old'][:50]!r} -> {r['new'][:50]!r} fired={r['fired']} errors={r['errors']}", flush=True)
    print(n)


if __name__ == "__main__":
    main()
