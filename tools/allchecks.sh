#!/bin/sh
# run every registered command (quick and thorough) on /repo's current tree; print each non-zero exit.
# usage: tools/allchecks.sh [quick|thorough|both]
cd "$(dirname "$0")/.."
T=${1:-both}
D=$(mktemp -d)
for i in 01 02 03 04 05 06 07 08 09 10 11 12 13 14 15 16 17 18 19 20; do
  for tier in quick thorough; do
    [ "$T" = both ] || [ "$T" = $tier ] || continue
    ( ./check C$i --tier $tier --no-evidence > $D/C$i.$tier.out 2>&1; echo $? > $D/C$i.$tier.rc ) &
  done
  [ "$T" = quick ] || wait
done
wait
bad=0
for f in $D/*.rc; do
  rc=$(cat $f); b=$(basename $f .rc)
  if [ "$rc" != 0 ]; then bad=1; echo "$b exit $rc"; grep -E "VIOLATION|rule=|ANALYSIS-ERROR" $D/$b.out | cut -c1-260 | head -4; fi
  grep -hE "SELFTEST-(MISS|NOISY)" $D/$b.out
done
rm -rf $D
[ $bad = 0 ] && echo "all registered commands exit 0"
exit $bad
