#!/venv/bin/python
"""Confirm a seeded change and run the checks against it.

usage: seedcheck.py DIR [--no-suite] [--base REFACTOR.diff]       DIR holds patch.diff and test_demo.py (a seeded/<id>/ directory or an agent's demo/)

1. scratch copy of /repo's working tree (under $TMPDIR, removed afterwards), demo must PASS there
2. patch applied to the copy: demo must FAIL, the pinned suite must still PASS (unless --no-suite)
3. every property's quick check is run on the patched copy (VERIF_REPO): which ones report a violation
Prints a JSON summary on stdout."""
import json
import os
import shutil
import subprocess
import sys
import tempfile

HERE = os.path.dirname(os.path.dirname(os.path.abspath(__file__)))
PY = "/venv/bin/python"


def run(cmd, cwd=None, env=None, timeout=1500):
    r = subprocess.run(cmd, cwd=cwd, env=env, capture_output=True, text=True, timeout=timeout)
    return r.returncode, r.stdout + r.stderr


def main():
    d = os.path.abspath(sys.argv[1])
    suite = "--no-suite" not in sys.argv
    patch = os.path.join(d, "patch.diff")
    demo = os.path.join(d, "test_demo.py")
    tmp = tempfile.mkdtemp(prefix="seedcheck-")
    out = {"dir": d}
    try:
        wt = os.path.join(tmp, "repo")
        os.makedirs(wt)
        for sub in ("src", "tests", "setup.cfg", "pyproject.toml", "tox.ini"):
            s = os.path.join("/repo", sub)
            if os.path.isdir(s):
                shutil.copytree(s, os.path.join(wt, sub), ignore=shutil.ignore_patterns("__pycache__", "*.egg-info"))
            elif os.path.exists(s):
                shutil.copy(s, os.path.join(wt, sub))
        base = None
        if "--base" in sys.argv:
            base = os.path.abspath(sys.argv[sys.argv.index("--base") + 1])
        elif os.path.exists(os.path.join(d, "meta.json")):
            try:
                b = json.load(open(os.path.join(d, "meta.json"))).get("base")
                base = os.path.join(HERE, b) if b else None
            except Exception:
                base = None
        if base:
            # the change was written against a refactored baseline: that refactoring is applied first
            rc, o = run(["patch", "-p1", "-s", "--no-backup-if-mismatch", "-i", base], cwd=wt)
            out["base"] = base
            out["base_applies"] = rc == 0
        os.makedirs(os.path.join(wt, "demo"))
        shutil.copy(demo, os.path.join(wt, "demo", "test_demo.py"))
        env = dict(os.environ, PYTHONPATH=os.path.join(wt, "src"), PYTHONDONTWRITEBYTECODE="1")
        demo_cmd = [PY, "-m", "pytest", "-q", "-p", "no:cacheprovider", "-x", "demo/test_demo.py"]
        rc, o = run(demo_cmd, cwd=wt, env=env)
        out["demo_without_change"] = "pass" if rc == 0 else "FAIL"
        out["demo_without_tail"] = o.strip().splitlines()[-1:] if o.strip() else []
        rc, o = run(["patch", "-p1", "--no-backup-if-mismatch", "-i", patch], cwd=wt)
        out["patch_applies"] = rc == 0
        if rc != 0:
            out["patch_output"] = o[-500:]
            print(json.dumps(out, indent=1))
            return 1
        rc, o = run(demo_cmd, cwd=wt, env=env)
        out["demo_with_change"] = "fail" if rc != 0 else "PASSES"
        out["demo_with_tail"] = o.strip().splitlines()[-1:] if o.strip() else []
        if suite:
            rc, o = run([PY, "-m", "pytest", "-q", "-p", "no:cacheprovider", "--timeout=900", "tests"], cwd=wt, env=env)
            out["suite_with_change"] = "pass" if rc == 0 else "FAIL"
            out["suite_tail"] = o.strip().splitlines()[-1:]
        env2 = dict(os.environ, VERIF_REPO=wt)
        fired, errors, details = [], [], {}
        for i in range(1, 21):
            pid = f"C{i:02d}"
            rc, o = run([os.path.join(HERE, "check"), pid, "--no-evidence"], cwd=HERE, env=env2)
            if rc == 1:
                fired.append(pid)
                details[pid] = [l.strip()[:260] for l in o.splitlines() if l.strip().startswith("rule=")][:3]
            elif rc == 2:
                errors.append(pid)
                details[pid] = [l.strip()[:260] for l in o.splitlines() if "ANALYSIS-ERROR" in l][:2]
        out["checks_reporting_violation"] = fired
        out["checks_analysis_error"] = errors
        out["details"] = details
        print(json.dumps(out, indent=1))
        return 0
    finally:
        shutil.rmtree(tmp, ignore_errors=True)


if __name__ == "__main__":
    sys.exit(main())
