"""D10 (C05): a StopOffer that arrives while nobody is watching is dropped although the offer it withdraws is still in the
store; a listener that registers afterwards is told 'offered' for an offer its source has withdrawn.
Run:  PYTHONPATH=<tree>/src /venv/bin/python findings/D10_stopoffer_gated_by_watchers.py   (exit 1 = defect present)"""
import asyncio, sys
from unittest.mock import MagicMock
import someip.header as hdr
import someip.config as cfg
from someip.sd import ServiceDiscover, TTL_FOREVER

SRC = ("192.0.2.7", 30490)


class L:
    def __init__(self): self.h = []
    def service_offered(self, s, a): self.h.append(("offered", s, a))
    def service_stopped(self, s, a): self.h.append(("stopped", s, a))


async def main():
    sd = MagicMock()
    sd.log = MagicMock()
    d = ServiceDiscover(sd)
    svc = cfg.Service(0x1234, 1, 1, 0)
    first, second = L(), L()
    d.watch_all_services(first)
    d.handle_offer(svc.create_offer_entry(TTL_FOREVER), SRC)          # Offer X
    d.stop_watch_all_services(first)                                   # the only listener leaves
    d.handle_offer(svc.create_offer_entry(0), SRC)                     # StopOffer X
    await asyncio.sleep(0)
    d.watch_all_services(second)                                       # a new listener
    await asyncio.sleep(0)
    print("first :", [x[0] for x in first.h])
    print("second:", [x[0] for x in second.h])
    return 1 if second.h and second.h[-1][0] == "offered" else 0

sys.exit(asyncio.run(main()))
