"""N6  private renames are undone against the baseline tree.

The rules name the parts of the library they were written against: public names by necessity (they are the
interface the properties talk about) and a number of private ones (`_group_entries`, `_can_answer_offers`, ...).
Renaming a private function or attribute is behaviour-preserving, so it must not change any verdict.  Before any
rule runs, the private names of the baseline tree (vstatic/baseline_members.json, written by tools/mkbaseline.py)
are compared with those of the tree under analysis, per scope (a class or a module):

    vanished = private names of the baseline scope that the scope no longer defines
    fresh    = private names the scope defines now that the baseline scope does not

A vanished function is matched with the fresh function of the same scope whose body is most similar (sequence
similarity over node types, attribute names, callee names and constants; the function's own name and the names
of locals do not count), a vanished attribute with the fresh attribute used most similarly (which methods load,
store, call it).  A match is accepted only if it is good enough and unambiguous (clear margin to the runner-up,
and the fresh name is defined in this one scope only); it is then *undone in the syntax tree*: the definition
and every reference get the baseline name back.  All rules, the helper baseline and the reports therefore see
the baseline name; the report of a run lists the renames that were undone.

What is not matched stays as it is: a vanished name a rule needs ends the run as ANALYSIS-ERROR ("cannot
decide"), a fresh function is an unknown helper that is analysed in place.  A wrong match cannot hide anything:
the rules analyse the body that is there, under the role of the name it was given."""
from __future__ import annotations

import ast
import difflib
import json
import os
import typing as t

_HERE = os.path.dirname(os.path.abspath(__file__))
BASELINE_MEMBERS = os.path.join(_HERE, "baseline_members.json")

FUNC_MIN, FUNC_MARGIN = 0.45, 0.10
ATTR_MIN, ATTR_MARGIN = 0.30, 0.10


def _private(name: str) -> bool:
    return name.startswith("_") and not (name.startswith("__") and name.endswith("__"))


def _body_tokens(fn) -> t.List[str]:
    """what a function does, without what things are called locally"""
    out = []
    body = list(fn.body)
    if body and isinstance(body[0], ast.Expr) and isinstance(body[0].value, ast.Constant) and isinstance(body[0].value.value, str):
        body = body[1:]
    out.append("async" if isinstance(fn, ast.AsyncFunctionDef) else "def")
    out.append(f"params:{len(fn.args.posonlyargs) + len(fn.args.args) + len(fn.args.kwonlyargs)}")
    for d in fn.decorator_list:
        out.append("@" + ast.unparse(d).split("(")[0])

    def walk(n):
        if isinstance(n, ast.Attribute):
            out.append("." + n.attr)
        elif isinstance(n, ast.Constant):
            if not isinstance(n.value, str) or len(n.value) < 24:
                out.append(repr(n.value))
        elif isinstance(n, ast.Name):
            if n.id in ("self", "cls"):
                out.append(n.id)
        elif isinstance(n, (ast.FunctionDef, ast.AsyncFunctionDef, ast.Lambda)):
            out.append("fn")
        elif isinstance(n, (ast.expr_context, ast.Load, ast.Store)):
            return
        else:
            out.append(type(n).__name__)
        for c in ast.iter_child_nodes(n):
            if isinstance(c, ast.expr_context):
                continue
            walk(c)
    for st in body:
        walk(st)
    return out


def _scope_members(tree: ast.Module, short: str):
    """-> {scope: {"functions": {name: tokens}, "attrs": {name: [usage, ...]}, "all": [every name defined in the scope]}}"""
    scopes = {}

    def funcs_of(body):
        return [st for st in body if isinstance(st, (ast.FunctionDef, ast.AsyncFunctionDef))]

    mod = {"functions": {}, "attrs": {}, "all": []}
    for fn in funcs_of(tree.body):
        mod["all"].append(fn.name)
        if _private(fn.name):
            mod["functions"][fn.name] = _body_tokens(fn)
    scopes[short] = mod
    for cls in [st for st in tree.body if isinstance(st, ast.ClassDef)]:
        sc = {"functions": {}, "attrs": {}, "all": []}
        for fn in funcs_of(cls.body):
            sc["all"].append(fn.name)
            if _private(fn.name):
                sc["functions"][fn.name] = _body_tokens(fn)
        for st in cls.body:
            if isinstance(st, ast.AnnAssign) and isinstance(st.target, ast.Name):
                sc["all"].append(st.target.id)
                if _private(st.target.id):
                    sc["attrs"].setdefault(st.target.id, []).append("<class>:field")
            elif isinstance(st, ast.Assign):
                for tg in st.targets:
                    if isinstance(tg, ast.Name):
                        sc["all"].append(tg.id)
                        if _private(tg.id):
                            sc["attrs"].setdefault(tg.id, []).append("<class>:const")
        methods = {fn.name for fn in funcs_of(cls.body)}
        for fn in funcs_of(cls.body):
            parents = {}
            for n in ast.walk(fn):
                for c in ast.iter_child_nodes(n):
                    parents[c] = n
            for n in ast.walk(fn):
                if isinstance(n, ast.Attribute) and isinstance(n.value, ast.Name) and n.value.id in ("self", "cls") \
                        and n.attr not in methods:
                    sc["all"].append(n.attr)
                    if not _private(n.attr):
                        continue
                    par = parents.get(n)
                    if isinstance(n.ctx, ast.Store):
                        val = par.value if isinstance(par, (ast.Assign, ast.AnnAssign)) and par.value is not None else None
                        kind = "store:" + (repr(val.value) if isinstance(val, ast.Constant) else type(val).__name__ if val is not None else "?")
                    elif isinstance(n.ctx, ast.Del):
                        kind = "del"
                    elif isinstance(par, ast.Attribute):
                        kind = "load." + par.attr
                    elif isinstance(par, ast.Call) and par.func is n:
                        kind = "call"
                    else:
                        kind = "load"
                    sc["attrs"].setdefault(n.attr, []).append(f"{fn.name}:{kind}")
        sc["all"] = sorted(set(sc["all"]))
        scopes[f"{short}.{cls.name}"] = sc
    mod["all"] = sorted(set(mod["all"]))
    return scopes


def members_of_trees(trees: t.Dict[str, ast.Module]):
    out = {}
    for short, tree in sorted(trees.items()):
        out.update(_scope_members(tree, short))
    return out


def _ratio(a, b) -> float:
    return difflib.SequenceMatcher(None, a, b, autojunk=False).ratio()


def _usage_ratio(a: t.List[str], b: t.List[str], fn_map: t.Dict[str, str]) -> float:
    """multiset similarity of usages; the method part is mapped through the function renames found; the kind of use
    alone (which survives code moving into an extracted helper) counts half"""
    def norm(us):
        return sorted(f"{fn_map.get(u.split(':', 1)[0], u.split(':', 1)[0])}:{u.split(':', 1)[1]}" for u in us)
    full = _ratio(norm(a), norm(b))
    kinds = _ratio(sorted(u.split(":", 1)[1] for u in a), sorted(u.split(":", 1)[1] for u in b))
    return (full + kinds) / 2


def _best(cands: t.Dict[str, float], lo: float, margin: float) -> t.Optional[str]:
    if not cands:
        return None
    ranked = sorted(cands.items(), key=lambda kv: -kv[1])
    if ranked[0][1] < lo:
        return None
    if len(ranked) > 1 and ranked[0][1] - ranked[1][1] < margin:
        return None
    return ranked[0][0]


def find_renames(baseline: dict, current: dict) -> t.Dict[str, t.Dict[str, t.Tuple[str, str, float]]]:
    """-> {scope: {fresh_name: (baseline_name, 'function'|'attr', score)}}"""
    # how many scopes define a name now (a fresh name that also lives elsewhere cannot be rewritten by name)
    defined_in: t.Dict[str, int] = {}
    for sc, mem in current.items():
        for n in set(mem["all"]):
            defined_in[n] = defined_in.get(n, 0) + 1
    out = {}
    for sc, base in baseline.items():
        cur = current.get(sc)
        if cur is None:
            continue
        res = {}
        fn_map = {}
        base_all, cur_all = set(base["all"]), set(cur["all"])
        vanished = [n for n in base["functions"] if n not in cur_all]
        fresh = [n for n in cur["functions"] if n not in base_all and defined_in.get(n, 0) == 1]
        taken = set()
        # best-first over all (vanished, fresh) pairs
        scores = {v: {f: _ratio(base["functions"][v], cur["functions"][f]) for f in fresh} for v in vanished}
        for v in sorted(vanished, key=lambda v_: -max(scores[v_].values(), default=0)):
            cands = {f: sc_ for f, sc_ in scores[v].items() if f not in taken}
            b = _best(cands, FUNC_MIN, FUNC_MARGIN)
            if b is not None:
                # ... and the fresh function must not be a better match for another vanished one
                rivals = [scores[v2][b] for v2 in vanished if v2 != v]
                if rivals and max(rivals) > cands[b] - FUNC_MARGIN:
                    continue
                taken.add(b)
                res[b] = (v, "function", round(cands[b], 3))
                fn_map[b] = v
        vanished_a = [n for n in base["attrs"] if n not in cur_all]
        fresh_a = [n for n in cur["attrs"] if n not in base_all and defined_in.get(n, 0) == 1]
        scores_a = {v: {f: _usage_ratio(base["attrs"][v], cur["attrs"][f], fn_map) for f in fresh_a} for v in vanished_a}
        taken_a = set()
        for v in sorted(vanished_a, key=lambda v_: -max(scores_a[v_].values(), default=0)):
            cands = {f: sc_ for f, sc_ in scores_a[v].items() if f not in taken_a}
            b = _best(cands, ATTR_MIN, ATTR_MARGIN)
            if b is not None:
                rivals = [scores_a[v2][b] for v2 in vanished_a if v2 != v]
                if rivals and max(rivals) > cands[b] - ATTR_MARGIN:
                    continue
                taken_a.add(b)
                res[b] = (v, "attr", round(cands[b], 3))
        if res:
            out[sc] = res
    return out


class _Undo(ast.NodeTransformer):
    def __init__(self, attr_map: t.Dict[str, str], modfunc_map: t.Dict[str, t.Dict[str, str]], short: str):
        self.attr_map = attr_map            # package wide: fresh attribute / method name -> baseline name
        self.modfunc = modfunc_map          # module -> {fresh module level function: baseline name}
        self.short = short
        self.count = 0

    def visit_Attribute(self, node):
        self.generic_visit(node)
        if node.attr in self.attr_map:
            node.attr = self.attr_map[node.attr]
            self.count += 1
        else:
            for m, mp in self.modfunc.items():
                if node.attr in mp and m != self.short and ast.unparse(node.value).split(".")[-1] == m:
                    node.attr = mp[node.attr]
                    self.count += 1
        return node

    def visit_Name(self, node):
        mp = self.modfunc.get(self.short, {})
        if node.id in mp:
            node.id = mp[node.id]
            self.count += 1
        return node

    def _def(self, node):
        self.generic_visit(node)
        if node.name in self.attr_map and getattr(node, "_scope_is_class", False):
            node.name = self.attr_map[node.name]
            self.count += 1
        elif node.name in self.modfunc.get(self.short, {}) and getattr(node, "_scope_is_module", False):
            node.name = self.modfunc[self.short][node.name]
            self.count += 1
        return node

    visit_FunctionDef = _def
    visit_AsyncFunctionDef = _def

    def visit_ClassDef(self, node):
        for st in node.body:
            if isinstance(st, (ast.FunctionDef, ast.AsyncFunctionDef)):
                st._scope_is_class = True
            elif isinstance(st, ast.AnnAssign) and isinstance(st.target, ast.Name) and st.target.id in self.attr_map:
                st.target.id = self.attr_map[st.target.id]
                self.count += 1
            elif isinstance(st, ast.Assign):
                for tg in st.targets:
                    if isinstance(tg, ast.Name) and tg.id in self.attr_map:
                        tg.id = self.attr_map[tg.id]
                        self.count += 1
        self.generic_visit(node)
        return node

    def visit_keyword(self, node):
        self.generic_visit(node)
        return node


_BASELINE = None


def baseline_members() -> dict:
    global _BASELINE
    if _BASELINE is None:
        with open(BASELINE_MEMBERS) as fh:
            _BASELINE = json.load(fh)
    return _BASELINE


def undo_private_renames(trees: t.Dict[str, ast.Module]) -> t.List[str]:
    """rewrite the trees in place; -> human readable list of the renames that were undone"""
    try:
        base = baseline_members()
    except (OSError, ValueError):
        return []
    cur = members_of_trees(trees)
    found = find_renames(base, cur)
    attr_map, modfunc = {}, {}
    notes = []
    for sc, res in sorted(found.items()):
        for fresh, (old, kind, score) in sorted(res.items()):
            if sc in trees:  # module scope
                modfunc.setdefault(sc, {})[fresh] = old
            else:
                if fresh in attr_map:
                    continue
                attr_map[fresh] = old
            notes.append(f"{sc}.{fresh} is {sc}.{old} renamed ({kind}, similarity {score})")
    if not notes:
        return []
    for short, tree in trees.items():
        for st in tree.body:
            if isinstance(st, (ast.FunctionDef, ast.AsyncFunctionDef)):
                st._scope_is_module = True
        _Undo(attr_map, modfunc, short).visit(tree)
    return notes
