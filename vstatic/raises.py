"""Interprocedural exception-escape analysis.

esc(f) = exception types that can leave function f.  Sources: explicit `raise`, a frozen table of
library operations (struct unpack, bytes indexing, enum conversion, .decode, int(), next(), dict
lookups, list.remove ...), and the escape sets of package callees (summaries, memoised, entered
with the caller's actual argument terms and path facts).  `except` clauses filter by the class
hierarchy.  A library operation whose failure condition is excluded by the length facts of the
path (linear lower-bound domain over `len(buffer)`) does not raise.
"""
from __future__ import annotations

import typing as t

from . import layout
from .facts import AnalysisError, FuncInfo, Program
from .sym import Engine, Event, Path, Policy, enum_members
from .terms import const, contains, is_const, show, strip_sites, subterms
from .util import InlineOnly

LEN = ("ext", "len")


# ------------------------------------------------------------------------------- length facts
class LenFacts:
    """lower bounds / exact values of len(X) for buffer terms X, from the branch decisions of a path"""

    def __init__(self, eng: Engine, conds):
        self.eng = eng
        self.ge: t.Dict[tuple, t.List[tuple]] = {}
        self.eq: t.Dict[tuple, tuple] = {}
        for c, v, _, _ in conds:
            self._learn(c, v)

    def _norm(self, tm):
        """replace <struct>.size by its constant"""
        if not isinstance(tm, tuple) or not tm or not isinstance(tm[0], str):
            return tm
        if tm[0] == "attr" and tm[2] == "size":
            fm = layout.struct_fmt(self.eng, tm[1])
            if fm is not None:
                return const(fm.size)
        if tm[0] in ("binop", "unop"):
            return tuple(self._norm(x) if isinstance(x, tuple) else x for x in tm)
        return tm

    def _learn(self, c, v):
        if c[0] == "unop" and c[1] == "not":
            return self._learn(c[2], not v)
        if c[0] == "bool":
            if (c[1] == "and" and v) or (c[1] == "or" and not v):
                for x in c[2]:
                    self._learn(x, v)
            return
        if c[0] != "cmp":
            return
        op, a, b = c[1], c[2], c[3]
        # B[lo:hi] == <bytes constant of hi - lo bytes>  (true)  =>  len(B) >= hi
        if (op == "==" and v) or (op == "!=" and not v):
            for x, y in ((a, b), (b, a)):
                if x[0] == "slice" and x[3] is not None and is_const(y) and isinstance(y[1], (bytes, bytearray)):
                    lo_l = layout.linear(strip_sites(self._norm(x[2]))) if x[2] is not None else ({}, 0)
                    hi_l = layout.linear(strip_sites(self._norm(x[3])))
                    if lo_l is not None and hi_l is not None and not lo_l[0] and not hi_l[0] and lo_l[1] >= 0 \
                            and hi_l[1] - lo_l[1] == len(y[1]) and len(y[1]) > 0:
                        self.ge.setdefault(strip_sites(x[1]), []).append(hi_l)
        flip = {"<": ">", ">": "<", "<=": ">=", ">=": "<=", "==": "==", "!=": "!="}
        if not (a[0] == "call" and a[1] == LEN and len(a[2]) == 1):
            if b[0] == "call" and b[1] == LEN and len(b[2]) == 1 and op in flip:
                a, b, op = b, a, flip[op]
            else:
                return
        if op not in flip:
            return
        if not v:
            op = {"<": ">=", ">": "<=", "<=": ">", ">=": "<", "==": "!=", "!=": "=="}[op]
        X = strip_sites(a[2][0])
        E = layout.linear(strip_sites(self._norm(b)))
        if E is None:
            return
        if op == ">=":
            self.ge.setdefault(X, []).append(E)
        elif op == ">":
            self.ge.setdefault(X, []).append((E[0], E[1] + 1))
        elif op == "==":
            self.eq[X] = E
            self.ge.setdefault(X, []).append(E)

    # ---- queries --------------------------------------------------------------
    @staticmethod
    def _nonneg_atom(a) -> bool:
        if a[0] == "item":
            return True  # unpacked unsigned integers and byte values
        if a[0] == "call" and a[1] == LEN:
            return True
        return False

    def _ge0(self, lin) -> bool:
        if lin is None:
            return False
        return lin[1] >= 0 and all(c >= 0 and self._nonneg_atom(a) for a, c in lin[0].items())

    @staticmethod
    def _sub(a, b):
        out = dict(a[0])
        for k, v in b[0].items():
            out[k] = out.get(k, 0) - v
        return ({k: v for k, v in out.items() if v}, a[1] - b[1])

    def lower(self, X) -> t.List[tuple]:
        """linear lower bounds of len(X)"""
        X = strip_sites(X)
        out = list(self.ge.get(X, []))
        ex = self.exact(X)
        if ex is not None:
            out.append(ex)
        if X[0] == "slice":
            base, lo, hi = X[1], X[2], X[3]
            lo_l = layout.linear(strip_sites(self._norm(lo))) if lo is not None else ({}, 0)
            if hi is None and lo_l is not None and self._ge0(lo_l):
                for lb in self.lower(base):
                    out.append(self._sub(lb, lo_l))
        out.append(({}, 0))
        return out

    def exact(self, X) -> t.Optional[tuple]:
        X = strip_sites(X)
        if X in self.eq:
            return self.eq[X]
        if X[0] == "await" and X[1][0] == "call" and X[1][1][0] == "attr" and X[1][1][2] == "readexactly" and len(X[1][2]) == 1:
            return layout.linear(strip_sites(self._norm(X[1][2][0])))  # StreamReader.readexactly(n) yields exactly n bytes
        if X[0] == "slice":
            base, lo, hi = X[1], X[2], X[3]
            lo_l = layout.linear(strip_sites(self._norm(lo))) if lo is not None else ({}, 0)
            hi_l = layout.linear(strip_sites(self._norm(hi))) if hi is not None else None
            if lo_l is None or not self._ge0(lo_l):
                return None
            if hi is not None and hi_l is not None:
                # base[lo:hi] has exactly hi-lo bytes when len(base) >= hi >= lo
                if any(self._ge0(self._sub(lb, hi_l)) for lb in self.lower(base)) and self._ge0(self._sub(hi_l, lo_l)):
                    return self._sub(hi_l, lo_l)
                return None
            if hi is None:
                eb = self.exact(base)
                if eb is not None and self._ge0(self._sub(eb, lo_l)):
                    return self._sub(eb, lo_l)
        return None

    def at_least(self, X, n: int) -> bool:
        return any(self._ge0(self._sub(lb, ({}, n))) for lb in self.lower(X))

    def exactly(self, X, n: int) -> bool:
        ex = self.exact(X)
        return ex is not None and ex == ({}, n)


def _drawn_from(x, container, conds=None) -> bool:
    """x is an element term drawn from `container` (directly, through a snapshot list(..)/tuple(..), or through
    .keys() / .items()[0]) - then container.remove(x) / container.pop(x) / container.index(x) finds it"""
    from .util import unwrap_iter
    c = strip_sites(container)
    cur = x
    if cur[0] == "tuple" and cur[1] and conds is not None:
        # the element rebuilt from its parts: (e[0], t) with `e[1] == t` established on the path, e drawn from the container
        elems = {p_[1] for p_ in cur[1] if p_[0] == "item" and p_[1][0] == "elem" and is_const(p_[2])}
        if len(elems) == 1:
            el = next(iter(elems))
            if _drawn_from(el, container):
                eqs = set()
                for cnd, v in conds:
                    if cnd[0] == "cmp" and len(cnd) == 4 and ((cnd[1] == "==" and v) or (cnd[1] == "!=" and not v)):
                        eqs.add((strip_sites(cnd[2]), strip_sites(cnd[3])))
                        eqs.add((strip_sites(cnd[3]), strip_sites(cnd[2])))
                ok = True
                for j, p_ in enumerate(cur[1]):
                    want = strip_sites(("item", el, const(j)))
                    if strip_sites(p_) != want and (want, strip_sites(p_)) not in eqs:
                        ok = False
                if ok:
                    return True
    if cur[0] == "item" and cur[2] == const(0):
        cur = cur[1]
    if cur[0] != "elem":
        return False
    it = strip_sites(unwrap_iter(cur[1]))
    if it == c:
        return True
    if it[0] == "call" and it[1][0] == "attr" and it[1][2] in ("keys", "items", "copy") and it[1][1] == c:
        return True
    return False


def _is_generator(fi) -> bool:
    from .sym import _has_yield
    return _has_yield(fi)


def _membership_known(s, base, idx, upto=None) -> bool:
    from .util import implied_atoms
    b, i = strip_sites(base), strip_sites(idx)
    ok = False
    for c, v in implied_atoms(s.conds):
        if c[0] == "cmp" and len(c) == 4 and strip_sites(c[2]) == i and strip_sites(c[3]) == b \
                and ((c[1] == "in" and v) or (c[1] == "not in" and not v)):
            ok = True
    if not ok:
        return False
    for e in s.events:
        if e is upto:
            break  # (the operation asked about)
        if e.kind == "call" and e.recv is not None and strip_sites(e.recv) == b \
                and e.attrname in ("pop", "popitem", "clear", "remove", "discard", "__delitem__"):
            return False
        if e.kind == "store" and e.target is not None and e.target[0] == "item" and strip_sites(e.target[1]) == b \
                and e.value == ("deleted",):
            return False
        if e.kind == "store" and e.target is not None and strip_sites(e.target) == b:
            return False  # the container itself was replaced
        if e.kind == "call" and e.targets and not e.inlined:
            return False  # a package callee ran in between: it may have removed the key
    return True


# ------------------------------------------------------------------------------- policy
class EscapePolicy(InlineOnly):
    """forks every raise point whose failure is not excluded; callee escape sets come from `oracle`"""

    def __init__(self, oracle: "Escapes", names=(), pred=None):
        super().__init__(names=names, pred=pred, max_depth=4, unroll=1, props=True)
        self.oracle = oracle
        self.fork_uncaught = True
        self.snapshot_facts = True
        self.load_raises = ()
        self.report_pitfalls = False  # (which exceptions can escape is not a question about what a traversal yields)

    def may_raise(self, ev: Event, eng: Engine) -> t.List[str]:
        s = eng.cur_state
        o = self.oracle
        if ev.kind == "await":
            return []
        if getattr(s, "truncated", False):
            # beyond the unrolling bound the values a cut loop produced are unknown; the code that follows was analysed
            # with known values on the paths inside the bound (what can fail there is found there)
            return []
        if ev.kind == "store":
            # `del base[idx]`: fails like the lookup does (also on a defaultdict), unless the path established membership
            if ev.value != ("deleted",) or ev.target is None or ev.target[0] != "item":
                return []
            if _membership_known(s, ev.target[1], ev.target[2], upto=ev):
                return []
            o.note_site("KeyError", ev)
            return ["KeyError"]
        if ev.kind == "load":
            base, idx = ev.target[1], ev.target[2]
            kind = o.container_kind(base, eng)
            if kind == "bytes":
                lf = LenFacts(eng, s.conds)
                if is_const(idx) and isinstance(idx[1], int) and idx[1] >= 0 and lf.at_least(base, idx[1] + 1):
                    return []
                # symbolic index i (a byte / unpacked unsigned value): in range when 0 <= i and len(base) >= i + 1 is a path fact
                il = layout.linear(strip_sites(lf._norm(idx))) if not is_const(idx) else None
                if il is not None and lf._ge0(il) and any(lf._ge0(lf._sub(lb, (il[0], il[1] + 1))) for lb in lf.lower(base)):
                    return []
                o.note_site("IndexError", ev)
                return ["IndexError"]
            if kind == "defaultdict":
                return []
            if kind == "tuple":
                return []
            if is_const(idx) and isinstance(idx[1], int) and base[0] == "call" and base[1][0] == "attr" and base[1][2] in ("pop", "get"):
                # a small constant index into a value that was looked up in a mapping (the stored pair), guarded or not by a
                # None test: element access of a stored tuple, not a dictionary lookup
                return []
            if is_const(idx) and idx[1] in (0, -1) and base[0] == "call" and base[1][0] == "attr" and base[1][2] in ("split", "rsplit", "partition", "rpartition") \
                    and base[2]:
                return []  # str.split(sep, ..) / partition(sep) always yield at least one part
            if _membership_known(s, base, idx):
                return []  # `idx in base` was established on this path and nothing was removed from base since
            return ["KeyError"]
        if ev.kind == "unpack":
            # `a, b = <value>`: fails with ValueError when the value does not have exactly n elements
            n = int(ev.attrname)
            v = ev.value
            if v[0] == "call":
                uc = layout.unpack_call(eng, v)
                if uc is not None:
                    return [] if len(uc[0].items) == n else ["ValueError"]
                if v[1][0] == "attr" and v[1][2] in ("split", "rsplit", "splitlines"):
                    o.note_site("ValueError", ev)
                    return ["ValueError"]  # number of parts depends on the data
                if v[1][0] == "attr" and v[1][2] in ("partition", "rpartition"):
                    return [] if n == 3 else ["ValueError"]
            return []
        if ev.kind != "call":
            return []
        f = ev.fterm
        # struct unpacking -------------------------------------------------------
        uc = None
        if f is not None:
            probe = ("call", f, ev.args, ev.kwargs, None)
            uc = layout.unpack_call(eng, probe)
        if uc is not None:
            fm, buf = uc
            lf = LenFacts(eng, s.conds)
            if (ev.ext or "").endswith("unpack_from"):
                ok = lf.at_least(buf, fm.size)
            else:
                ok = lf.exactly(buf, fm.size)  # (Struct.unpack_from arrives here as unpack of the slice it reads)
            if ok:
                return []
            o.note_site("struct.error", ev)
            return ["struct.error"]
        if ev.attrname == "iter_unpack" or (ev.ext or "").endswith("iter_unpack"):
            # struct.error unless the buffer is a whole number of records; no length fact in reach proves that
            o.note_site("struct.error", ev)
            return ["struct.error"]
        if ev.ext:
            if ev.ext.startswith("enumconv:"):
                return ["ValueError"]
            if ev.ext in ("int", "float"):
                return ["ValueError"]
            if ev.ext == "next" and len(ev.args) == 1:
                a0 = ev.args[0]
                if a0[0] == "call" and a0[1] == ("ext", "iter") and len(a0[2]) == 1 and _nonempty_known(s, a0[2][0]):
                    return []  # first element of a container the path has found non-empty
                return ["StopIteration"]
            if ev.ext in ("ipaddress.ip_address", "ipaddress.IPv4Address", "ipaddress.IPv6Address"):
                return ["ValueError"]
            return []
        if ev.attrname == "decode" and not ev.targets:
            return ["UnicodeDecodeError"]
        if ev.attrname == "encode" and not ev.targets:
            return ["UnicodeEncodeError"]
        if ev.attrname in ("pop", "remove", "index") and not ev.targets and ev.recv is not None:
            if ev.attrname == "pop" and len(ev.args) >= 2:
                return []
            if ev.args and _drawn_from(ev.args[0], ev.recv, [(c_, v_) for c_, v_, _n, _k in s.conds]):
                return []  # the element / key was obtained by iterating this very container
            if ev.args and _membership_known(s, ev.recv, ev.args[0], upto=ev):
                return []  # `x in container` was established on this path and nothing was removed since (look before you leap)
            return {"pop": ["KeyError"], "remove": ["ValueError"], "index": ["ValueError"]}[ev.attrname]
        if f is not None and f[0] == "classconst" and len(ev.args) == 1:
            # cls._address_type(addr_b): address class of the option family applied to an 's' field
            return []
        if ev.ext in ("tuple", "list", "set", "frozenset", "sorted", "sum", "min", "max", "any", "all", "next", "dict") and ev.args:
            # an eager consumer drives a generator object: the generator body's exceptions surface here
            out = set()
            for a in ev.args:
                if a[0] == "call" and a[1][0] in ("bound", "func"):
                    g = self.oracle.prog.functions.get(a[1][-1])
                    if g is not None and _is_generator(g):
                        out |= set(o.callee_escapes(g, a[1][1] if a[1][0] == "bound" else None, ev, eng))
            if ev.ext == "next" and len(ev.args) == 1:
                out.add("StopIteration")
            if out:
                return sorted(out)
        if ev.targets:
            callee = ev.targets[0]
            if eng.is_listener_iface(callee.qual):
                return []  # user supplied listener code: attributed to the user
            if ev.coro:
                return []
            if _is_generator(callee):
                return []  # calling a generator function runs none of its body: that happens where it is iterated
            recv_t = ev.recv if (f is not None and f[0] == "bound") else None
            if f is not None and f[0] == "cls":
                recv_t = ev.result
            return sorted(o.callee_escapes(callee, recv_t, ev, eng))
        if ev.attrname == "parse_option" and f is not None and f[0] == "attr":
            return sorted(o.registered_parse_option_escapes())
        return []


def _nonempty_known(s, cont) -> bool:
    """the path established  len(cont) > k (k >= 0) / len(cont) >= k (k >= 1) / cont  /  not (len(cont) == 0)"""
    c0 = strip_sites(cont)
    ln = lambda tm: tm[0] == "call" and tm[1] == ("ext", "len") and len(tm[2]) == 1 and strip_sites(tm[2][0]) == c0
    for c, v, _, _ in s.conds:
        c = strip_sites(c) if False else c
        if v and strip_sites(c) == c0:
            return True
        if v and ln(c):
            return True
        if c[0] == "unop" and c[1] == "not" and not v and (strip_sites(c[2]) == c0 or ln(c[2])):
            return True
        if c[0] == "cmp" and ln(c[2]) and is_const(c[3]) and isinstance(c[3][1], int):
            k = c[3][1]
            if (c[1] == ">" and v and k >= 0) or (c[1] == ">=" and v and k >= 1) or (c[1] == "==" and not v and k == 0) \
                    or (c[1] == "!=" and v and k == 0) or (c[1] == "<=" and not v and k >= 0) or (c[1] == "<" and not v and k >= 1) \
                    or (c[1] == "==" and v and k >= 1):
                return True
    return False


# ------------------------------------------------------------------------------- oracle
class Escapes:
    def __init__(self, prog: Program, inline_names=(), inline_pred=None, exclude=()):
        self.prog = prog
        self.inline_names = set(inline_names)
        self.inline_pred = inline_pred
        self.exclude = set(exclude)  # callee quals treated as non-raising (documented assumptions)
        self.memo: t.Dict = {}
        self.active: t.List = []
        self.sites: t.Dict[str, t.List[str]] = {}
        self.paths_enumerated = 0
        self.functions: t.Set[str] = set()
        self.discharged: t.List[t.Tuple[str, str, str]] = []
        self.origin: t.Dict[t.Tuple[str, str], str] = {}
        self.guarded_raise = None  # callable(path, exc) -> reason string when a raise is discharged by a supporting fact

    def note_site(self, exc: str, ev: Event):
        self.sites.setdefault(exc, []).append(ev.loc)

    def container_kind(self, base, eng: Engine) -> str:
        b = base
        while b[0] in ("slice",):
            b = b[1]
        if b[0] == "param":
            fi = self.prog.functions.get(b[1])
            if fi is not None:
                for a in fi.node.args.args:
                    if a.arg == b[2] and a.annotation is not None:
                        import ast as _ast
                        txt = _ast.unparse(a.annotation)
                        if txt in ("bytes", "bytearray", "memoryview"):
                            return "bytes"
        if b[0] == "slice" or base[0] == "slice":
            return "bytes"
        if b[0] == "attr":
            ty = eng.typer.type_of(b[1])
            if ty and ty[0] == "cls":
                fld = self.prog.lookup_field(ty[1], b[2])
                if fld is not None:
                    import ast as _ast
                    if _ast.unparse(fld.annotation) in ("bytes", "bytearray"):
                        return "bytes"
            if ty and ty[0] == "cls":
                ci = self.prog.classes.get(ty[1])
                for c in (ci.mro if ci else []):
                    for fi0, val in self.prog.classes[c].attr_init.get(b[2], []):
                        import ast as _ast
                        if isinstance(val, _ast.Call) and _ast.unparse(val.func).split(".")[-1] in ("defaultdict", "Counter"):
                            return "defaultdict"  # a missing key yields a default, not KeyError
            if ty and ty[0] == "cls":
                # a (cached) property that builds / is declared as a defaultdict
                import ast as _ast
                m = self.prog.lookup_method(ty[1], b[2])
                if m is not None and m.kind == "property":
                    ann = _ast.unparse(m.node.returns) if m.node.returns is not None else ""
                    rets = [n.value for n in _ast.walk(m.node) if isinstance(n, _ast.Return) and n.value is not None]
                    if ann.split("[")[0].split(".")[-1] in ("DefaultDict", "defaultdict", "Counter") or (rets and all(
                            isinstance(r, _ast.Call) and _ast.unparse(r.func).split(".")[-1] in ("defaultdict", "Counter") for r in rets)):
                        return "defaultdict"
        if b[0] == "call" and b[1][0] == "ext" and b[1][1].split(".")[-1] in ("defaultdict", "Counter"):
            return "defaultdict"
        if b[0] == "item" and self.container_kind(b[1], eng) == "defaultdict":
            return "dict"
        if b[0] == "call" and layout.unpack_call(eng, b) is not None:
            return "tuple"
        return "dict"

    def registered_parse_option_escapes(self) -> t.Set[str]:
        out: t.Set[str] = set()
        for q, ci in self.prog.classes.items():
            if any(d.split(".")[-1] == "register" for d in ci.decorators):
                po = self.prog.lookup_method(q, "parse_option")
                if po is not None:
                    out |= set(self.escapes(po, recv=q))
        return out

    def callee_escapes(self, callee: FuncInfo, recv_term, ev: Event, eng: Engine) -> t.Set[str]:
        if callee.qual in self.exclude:
            return set()
        rc = None
        if recv_term is not None:
            if recv_term[0] == "cls":
                rc = recv_term[1]
            else:
                ty = eng.typer.type_of(recv_term)
                rc = ty[1] if ty and ty[0] == "cls" else None
        if rc is None and callee.cls is not None:
            rc = callee.cls.qual
        known = {k: v for k, v in (ev.known or {}).items() if isinstance(k, tuple) and k and k[0] == "$eq"}
        return set(self.escapes(callee, recv=rc, args=tuple(ev.args), kwargs=tuple(ev.kwargs), recv_term=recv_term, known=known))

    def escapes(self, fi: FuncInfo, recv=None, args=None, kwargs=None, recv_term=None, known=None) -> t.Dict[str, str]:
        """{exception type: where it comes from} for function fi in the given calling context"""
        key = (fi.qual, recv, strip_sites(args) if args is not None else None, strip_sites(kwargs) if kwargs else None,
               tuple(sorted((repr(strip_sites(k)), repr(v)) for k, v in (known or {}).items() if k and k[0] == "$eq")))
        if key in self.memo:
            return self.memo[key]
        if fi.qual in [a for a in self.active]:
            return {}
        self.active.append(fi.qual)
        self.functions.add(fi.qual)
        try:
            pol = EscapePolicy(self, names=self.inline_names, pred=self.inline_pred)
            eng = Engine(self.prog, pol)
            paths = eng.paths(fi, recv=recv, args=args, kwargs=kwargs, recv_term=recv_term, depth=1 if args is not None else 0,
                              known0={k: v for k, v in (known or {}).items() if k and k[0] == "$eq"} or None)
            self.paths_enumerated += len(paths)
            out: t.Dict[str, str] = {}
            for p in paths:
                if p.outcome[0] != "raise":
                    continue
                exc = p.outcome[1]
                if fi.log_exceptions and eng.exc.is_sub(exc, "Exception"):
                    continue
                node = p.outcome[2] if len(p.outcome) > 2 else None
                where = f"{fi.module.relpath}:{getattr(node, 'lineno', fi.node.lineno)} ({fi.qual})"
                src = [e for e in p.events if e.kind == "call" and e.raised == exc and e.targets]
                if src and (src[-1].targets[0].qual, exc) in self.origin:
                    where = self.origin[(src[-1].targets[0].qual, exc)] + f" <- {fi.qual.split('.')[-1]}"
                elif src is not None and any(e.kind == "call" and e.raised == exc and e.attrname == "parse_option" for e in p.events):
                    where = self.origin.get(("*parse_option", exc), where) + f" <- {fi.qual.split('.')[-1]}"
                self.origin.setdefault((fi.qual, exc), where)
                if fi.name == "parse_option":
                    self.origin.setdefault(("*parse_option", exc), where)
                if self.guarded_raise is not None:
                    why = self.guarded_raise(fi, p, exc)
                    if why:
                        self.discharged.append((fi.qual, exc, why))
                        continue
                out.setdefault(exc, where)
            self.memo[key] = out
            return out
        finally:
            self.active.pop()
