"""Codec layout analysis: struct formats, writer segment lists, reader bindings, transform
descriptors and a small linear normaliser.  All of it works on terms produced by the path
enumerator; no codec of the analysed program is executed."""
from __future__ import annotations

import re
import ast
import typing as t

from .facts import AnalysisError
from .sym import Engine
from .terms import const, is_const, show, subterms

WIDTH = {"B": 1, "b": 1, "H": 2, "h": 2, "I": 4, "i": 4, "L": 4, "l": 4, "Q": 8, "q": 8, "x": 1, "s": 1, "c": 1, "?": 1}
UNSIGNED = set("BHILQ")


class Fmt:
    def __init__(self, text: str):
        self.text = text
        self.order = "@"
        body = text
        if text and text[0] in "@=<>!":
            self.order, body = text[0], text[1:]
        self.items: t.List[t.Tuple[str, int]] = []  # (code, byte width) per produced value
        self.size = 0
        for cnt, code in re.findall(r"(\d*)([a-zA-Z?])", body):
            n = int(cnt) if cnt else 1
            if code not in WIDTH:
                raise AnalysisError(f"struct code {code!r} in {text!r} not modelled")
            if code == "s":
                self.items.append(("s", n))
                self.size += n
            elif code == "x":
                self.size += n
            else:
                for _ in range(n):
                    self.items.append((code, WIDTH[code]))
                    self.size += WIDTH[code]

    @property
    def big_endian(self) -> bool:
        return self.order in ("!", ">")

    def signature(self):
        return [(("u" if c in UNSIGNED else c), w) for c, w in self.items]

    def offsets(self):
        out, off = [], 0
        for c, w in self.items:
            out.append(off)
            off += w
        return out


def struct_fmt(eng: Engine, tm) -> t.Optional[Fmt]:
    """term denoting a struct.Struct object -> its format"""
    if tm[0] == "classconst":
        tm = eng.classconst_value(tm)
    if tm[0] == "attr" and tm[1][0] == "mod" and tm[1][1] in eng.prog.modules:
        # module level constant  _X = struct.Struct("...")  that is assigned once
        mi = eng.prog.modules[tm[1][1]]
        g = eng.prog.resolve_global(mi, tm[2])
        if g and g[0] == "const" and g[2] not in mi.rebound and isinstance(g[3], ast.Call):
            tm = eng._eval_in_module(g[3], eng.prog.modules[g[1]])
    if tm[0] == "call" and tm[1] == ("ext", "struct.Struct") and tm[2] and is_const(tm[2][0]) and isinstance(tm[2][0][1], str):
        return Fmt(tm[2][0][1])
    return None


def pack_call(eng: Engine, tm) -> t.Optional[t.Tuple[Fmt, tuple]]:
    if tm[0] != "call":
        return None
    f = tm[1]
    if f[0] == "attr" and f[2] == "pack":
        fm = struct_fmt(eng, f[1])
        if fm is not None:
            return fm, tm[2]
    if f == ("ext", "struct.pack") and tm[2] and is_const(tm[2][0]) and isinstance(tm[2][0][1], str):
        return Fmt(tm[2][0][1]), tm[2][1:]
    return None


def unpack_call(eng: Engine, tm) -> t.Optional[t.Tuple[Fmt, tuple]]:
    """-> (format, buffer term)"""
    if tm[0] != "call":
        return None
    f = tm[1]
    if f[0] == "attr" and f[2] in ("unpack", "unpack_from") and tm[2]:
        fm = struct_fmt(eng, f[1])
        if fm is not None:
            if f[2] == "unpack_from":
                # S.unpack_from(buf, off) reads exactly what S.unpack(buf[off : off + S.size]) reads (and fails when that
                # slice is short): every consumer sees the slice form
                off = tm[2][1] if len(tm[2]) > 1 else dict(tm[3] or ()).get("offset")
                if off is None or off == const(0):
                    return fm, ("slice", tm[2][0], None, const(fm.size))
                from .terms import fold_binop
                return fm, ("slice", tm[2][0], off, fold_binop("+", off, const(fm.size)))
            return fm, tm[2][0]
    if f in (("ext", "struct.unpack"), ("ext", "struct.unpack_from")) and len(tm[2]) >= 2 and is_const(tm[2][0]) and isinstance(tm[2][0][1], str):
        return Fmt(tm[2][0][1]), tm[2][1]
    return None


def segments(eng: Engine, tm) -> t.List[tuple]:
    """flatten a bytes expression into ('pack', Fmt, args) / ('bytes', term) / ('lit', bytes) segments"""
    if tm[0] == "binop" and tm[1] == "+":
        return segments(eng, tm[2]) + segments(eng, tm[3])
    if tm[0] == "const" and isinstance(tm[1], (bytes, bytearray)):
        return [("lit", bytes(tm[1]))] if tm[1] else []
    pc = pack_call(eng, tm)
    if pc is not None:
        return [("pack", pc[0], pc[1])]
    if tm[0] == "call" and tm[1][0] == "attr" and tm[1][2] == "join" and tm[1][1] == ("const", b"") and len(tm[2]) == 1 \
            and tm[2][0][0] in ("list", "tuple"):
        out = []
        for x in tm[2][0][1]:
            out += segments(eng, x)
        return out
    if tm[0] == "call" and tm[1] in (("ext", "bytes"), ("ext", "bytearray")):
        if not tm[2]:
            return []
        a = tm[2][0]
        if a[0] in ("list", "tuple"):
            return [("u8s", a[1])]
        return segments(eng, a)
    return [("bytes", tm)]


# --------------------------------------------------------------------------- linear normal form

def linear(tm) -> t.Optional[t.Tuple[t.Dict[tuple, int], int]]:
    """integer term -> ({atom: coeff}, const) for +, -, * by constant, len(); None if not linear"""
    if is_const(tm) and isinstance(tm[1], int) and not isinstance(tm[1], bool):
        return {}, int(tm[1])
    if tm[0] == "binop" and tm[1] in ("+", "-"):
        a, b = linear(tm[2]), linear(tm[3])
        if a is None or b is None:
            return None
        sign = 1 if tm[1] == "+" else -1
        out = dict(a[0])
        for k, v in b[0].items():
            out[k] = out.get(k, 0) + sign * v
        return {k: v for k, v in out.items() if v}, a[1] + sign * b[1]
    if tm[0] == "binop" and tm[1] == "*":
        a, b = linear(tm[2]), linear(tm[3])
        if a is None or b is None:
            return None
        if not a[0]:
            return {k: v * a[1] for k, v in b[0].items() if v * a[1]}, a[1] * b[1]
        if not b[0]:
            return {k: v * b[1] for k, v in a[0].items() if v * b[1]}, a[1] * b[1]
        return None
    if tm[0] == "unop" and tm[1] == "-":
        a = linear(tm[2])
        if a is None:
            return None
        return {k: -v for k, v in a[0].items()}, -a[1]
    if tm[0] in ("binop", "unop"):
        return None
    return {tm: 1}, 0


def lin_eq(a, b) -> bool:
    la, lb = linear(a), linear(b)
    return la is not None and lb is not None and la == lb


# --------------------------------------------------------------------------- descriptors

def w_descr(tm, selfterm) -> tuple:
    """writer argument -> transform descriptor over fields of `selfterm`"""
    if is_const(tm):
        return ("const", tm[1])
    if tm[0] == "attr" and tm[1] == selfterm:
        return ("field", tm[2])
    if tm[0] == "attr" and tm[2] == "value" and tm[1][0] == "attr" and tm[1][1] == selfterm:
        return ("enum", tm[1][2])
    if tm[0] == "attr" and tm[2] == "packed" and tm[1][0] == "attr" and tm[1][1] == selfterm:
        return ("packed", tm[1][2])
    if tm[0] == "binop" and tm[1] == "|":
        parts = []
        for side in (tm[2], tm[3]):
            if side[0] == "binop" and side[1] == "<<" and is_const(side[3]):
                parts.append((w_descr(side[2], selfterm), side[3][1]))
            else:
                parts.append((w_descr(side, selfterm), 0))
        return ("bits", tuple(sorted(parts, key=lambda p: -p[1])))
    if tm[0] == "binop" and tm[1] == ">>" and is_const(tm[3]):
        return ("shr", w_descr(tm[2], selfterm), tm[3][1])
    if tm[0] == "binop" and tm[1] == "&" and is_const(tm[3]):
        return ("mask", w_descr(tm[2], selfterm), tm[3][1])
    if tm[0] == "binop" and tm[1] == "&" and is_const(tm[2]):
        return ("mask", w_descr(tm[3], selfterm), tm[2][1])
    if tm[0] == "call" and tm[1] == ("ext", "int") and len(tm[2]) == 1:
        return w_descr(tm[2][0], selfterm)
    ln = linear(tm)
    if ln is not None and ln[0]:
        atoms = []
        for a, c in sorted(ln[0].items(), key=lambda kv: show(kv[0])):
            if a[0] == "call" and a[1] == ("ext", "len") and len(a[2]) == 1:
                atoms.append((("len", w_descr(a[2][0], selfterm)), c))
            else:
                atoms.append((("atom", show(a)), c))
        return ("linear", tuple(atoms), ln[1])
    return ("other", show(tm))


def r_descr(tm, is_item: t.Callable[[tuple], t.Optional[int]]) -> tuple:
    """reader binding -> descriptor over wire positions; is_item(term) -> position or None"""
    i = is_item(tm)
    if i is not None:
        return ("pos", i)
    if is_const(tm):
        return ("const", tm[1])
    if tm[0] == "call" and tm[1][0] == "cls" and len(tm[2]) == 1:
        return ("enumconv", tm[1][1], r_descr(tm[2][0], is_item))
    if tm[0] == "call" and len(tm[2]) == 1 and tm[1][0] in ("classconst", "ext") and is_item(tm[2][0]) is not None:
        return ("conv", show(tm[1]), r_descr(tm[2][0], is_item))
    if tm[0] == "binop" and tm[1] == "|":
        parts = []
        for side in (tm[2], tm[3]):
            if side[0] == "binop" and side[1] == "<<" and is_const(side[3]):
                parts.append((r_descr(side[2], is_item), side[3][1]))
            else:
                parts.append((r_descr(side, is_item), 0))
        return ("bits", tuple(sorted(parts, key=lambda p: -p[1])))
    if tm[0] == "binop" and tm[1] == ">>" and is_const(tm[3]):
        return ("shr", r_descr(tm[2], is_item), tm[3][1])
    if tm[0] == "binop" and tm[1] == "&" and is_const(tm[3]):
        return ("mask", r_descr(tm[2], is_item), tm[3][1])
    if tm[0] == "binop" and tm[1] == "&" and is_const(tm[2]):
        return ("mask", r_descr(tm[3], is_item), tm[2][1])
    if tm[0] == "call" and tm[1] == ("ext", "bool") and len(tm[2]) == 1:
        return ("bool", r_descr(tm[2][0], is_item))
    return ("other", show(tm))


def item_pos(unpack_term):
    """is_item for ('item', <unpack call>, const i)"""
    def f(tm):
        if tm[0] == "item" and tm[1] == unpack_term and is_const(tm[2]) and isinstance(tm[2][1], int):
            return tm[2][1]
        return None
    return f


def find_unpacks(eng: Engine, tm) -> t.List[tuple]:
    out = []
    for s in subterms(tm):
        if s[0] == "call" and unpack_call(eng, s) is not None and s not in out:
            out.append(s)
    return out
