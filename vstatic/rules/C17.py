"""C17 - event notifications reach exactly the current subscribers, correctly addressed.

V1  notification header table: service id, method id 0x8000|event id, client 0, per-destination session id,
    NOTIFICATION, interface version = service major, payload = the event's current value; one datagram per
    destination holding all requested events in order
V2  subscriber-set discipline: added only in subscribe, removed only in unsubscribe; has_clients is set /
    cleared in the same synchronous step; a round addresses the set as it is when the round starts; no round
    is scheduled while there are no clients
V3  a new subscriber gets exactly one initial notification task, for itself, over all current events
V4  refusal: every failure inside client_subscribed (not exactly one endpoint, unknown eventgroup) becomes
    NakSubscription; nothing is subscribed on those paths
Not decided: which endpoints a round addresses when the set changes while the round is suspended in await.
"""
from __future__ import annotations

import ast
import itertools

from ..absint import eval_term
from ..facts import AnalysisError
from ..sym import enum_members
from ..terms import const, contains, show, strip_sites, subterms
from ..util import InlineOnly, NoInline, P, Scan, buffer_tests_feasible, calls_to, engine, loc, param_at, unwrap_iter
from .derived import cache_coherence

EG = "service.SimpleEventgroup"
SVC = "service.SimpleService"


def check(run, prog, tier):
    from . import model as _model
    _model.audit(run, prog, 'C17')
    # "the endpoints subscribed at that time" / "the current value": no stale copies
    cache_coherence(run, prog, "V5", ['service.SimpleEventgroup'])
    run.explanation = (
        "Notification contents are a constructor field table inside _notify_single (evaluated on boundary event "
        "ids for the method id); membership of a round is decided by where the subscriber set is read relative to "
        "the awaits of the coroutine; the set / has_clients invariant and the refusal paths are path facts of "
        "subscribe, unsubscribe and client_subscribed."
    )
    run.trusted += ["asyncio.create_task runs the coroutine once", "asyncio.Event semantics"]
    run.not_decided += ["membership of a round suspended in `await endpoint.addrinfo()` while subscribers change; the cyclic period itself"]
    ns = prog.lookup_method(EG, "_notify_single")
    na = prog.lookup_method(EG, "_notify_all")
    no = prog.lookup_method(EG, "notify_once")
    sub = prog.lookup_method(EG, "subscribe")
    uns = prog.lookup_method(EG, "unsubscribe")
    cs = prog.lookup_method(SVC, "client_subscribed")
    cu = prog.lookup_method(SVC, "client_unsubscribed")
    cyc = prog.lookup_method(EG, "cyclic_notify")
    if not all((ns, na, no, sub, uns, cs, cu, cyc)):
        raise AnalysisError("SimpleEventgroup / SimpleService methods vanished")
    run.analysed(ns, na, no, sub, uns, cs, cu, cyc)
    me = ("self", EG)
    eng = engine(prog, InlineOnly(names=(), props=False, max_depth=0, unroll=3 if tier == "thorough" else 2))
    mt = enum_members(prog, "header.SOMEIPMessageType")
    assign = "sd._SessionStorage.assign_outgoing"
    send = prog.lookup_method(SVC, "send")
    build_q = prog.lookup_method("header.SOMEIPHeader", "build").qual

    # ------------------------------------------------------------------ V1
    endpoint = P(ns, param_at(ns, 0, "endpoint"))
    events = P(ns, param_at(ns, 1, "events"))
    paths = eng.paths(ns, recv=EG)
    run.paths += len(paths)
    checked = 0
    probs = {}
    def feasible(p):
        return buffer_tests_feasible(p, build_q)

    for p in paths:
        if p.outcome[0] == "raise" or not feasible(p):
            continue
        sends = calls_to(p, send.qual)
        builds = [e for e in p.events if e.kind == "call" and any(f.qual == build_q for f in e.targets)]

        class _H:  # a notification message = the header object whose build() result is transmitted
            def __init__(self, term):
                self.result = term
        news = [_H(b.recv) for b in builds if b.recv is not None and b.recv[0] == "new" and b.recv[1] == "header.SOMEIPHeader"]

        # every requested event gets its message: an event the loop drew from `events` but built no notification for was
        # skipped on some condition (a value that is empty / falsy / missing is still the event's current value)
        drawn = {s_[3] for t_ in [c for c, _, _, _ in p.conds] + [x for e in p.events for x in ((e.args or ()) + ((e.recv,) if e.recv else ()))
                                                               if isinstance(x, tuple)]
                 for s_ in subterms(t_) if s_[0] == "elem" and unwrap_iter(s_[1]) == events}
        built = {s_[3] for n_ in news for s_ in subterms(dict(n_.result[2]).get("method_id", const(0)))
                 if s_[0] == "elem" and unwrap_iter(s_[1]) == events}
        if p.returns() or p.outcome[0] == "fall":
            for i_ in sorted(drawn - built):
                why_ = " and ".join(("" if v else "not ") + show(c)[:70] for c, v, _, _ in p.conds if contains(c, lambda s_: s_[0] == "elem" and s_[3] == i_))
                probs.setdefault("V1:every-requested-event-notified", f"a requested event gets no notification when {why_ or '?'}: the round does not carry "
                                 "the current value of every requested event")
        if not news:
            if sends and not p.truncated:
                probs.setdefault("V1:nothing-to-send", "a datagram is sent although no event was requested")
            continue
        checked += 1
        addr_terms = {e.result for e in p.events if e.kind == "call" and e.attrname == "addrinfo" and e.recv == endpoint}
        for n in news:
            d = dict(n.result[2])
            ev_elem = None
            for s_ in subterms(d.get("method_id", const(0))):
                if s_[0] == "elem" and unwrap_iter(s_[1]) == events:
                    ev_elem = s_
            if ev_elem is None:
                probs.setdefault("V1:method-id", f"method id {show(d.get('method_id'))[:60]} does not depend on the event id")
            else:
                for eid in (0, 1, 0x1234, 0x7FFF):
                    try:
                        got = eval_term(d["method_id"], lambda tm, eid=eid, ev_elem=ev_elem: eid if tm == ev_elem else (_ for _ in ()).throw(AnalysisError("x")))
                    except AnalysisError:
                        got = None
                    if got != (0x8000 | eid):
                        probs.setdefault("V1:method-id", f"event {eid:#x} is notified with method id {got!r}; expected {0x8000 | eid:#x}")
                want = {"service_id": ("attr", ("attr", me, "service"), "service_id"), "client_id": const(0),
                        "message_type": const(mt["NOTIFICATION"]), "interface_version": ("attr", ("attr", me, "service"), "version_major"),
                        "payload": ("item", ("attr", me, "values"), ev_elem)}
                for k, w in want.items():
                    if d.get(k) != w:
                        probs.setdefault(f"V1:{k}", f"notification {k} = {show(d.get(k)) if d.get(k) else '<default>'}; expected {show(w)}")
                sid = d.get("session_id")
                if not (sid is not None and sid[0] == "item" and sid[2] == const(1) and sid[1][0] == "call" and sid[1][1][0] == "bound" and sid[1][1][2] == assign):
                    probs.setdefault("V1:session_id", f"session id = {show(sid)[:60] if sid else '?'}; expected the id handed out by assign_outgoing")
                elif len({dict(h.result[2]).get("session_id") for h in news}) != len(news):
                    probs.setdefault("V1:session_id", f"{len(news)} notification messages of one datagram share a session id: ids must count up per message")
                elif sends and sid[1][2][:1] != (sends[0].arg(1, "remote"),):
                    probs.setdefault("V1:session_id", f"session id counted for {show(sid[1][2][0])[:40] if sid[1][2] else '?'} but the datagram goes to {show(sends[0].arg(1, 'remote'))[:40]}: not a per-destination counter")
                if set(d) - set(want) - {"method_id", "session_id"}:
                    probs.setdefault("V1:extra-fields", f"unexpected header fields {sorted(set(d) - set(want) - {'method_id', 'session_id'})}")
        if not p.truncated:
            # "once each": every notification built for the round is in exactly one datagram, every datagram goes to the
            # endpoint's resolved address and carries at least one notification (how many datagrams a round is split into
            # is not part of the statement)
            if not sends:
                probs.setdefault("V1:all-events-in-the-datagram", f"{len(news)} notification(s) built, nothing sent")
            for s_ in sends:
                dest = s_.arg(1, "remote")
                if not (dest is not None and any(dest == ("await", a) or dest == a for a in addr_terms)):
                    probs.setdefault("V1:destination", f"datagram sent to {show(dest)[:60]}; expected the endpoint's resolved address")
                if not (s_.args and any(contains(s_.args[0], lambda t_, n=n: t_ == n.result) for n in news)):
                    probs.setdefault("V1:nothing-to-send", f"a datagram without any notification is sent ({show(s_.args[0])[:40] if s_.args else '?'})")
            if len(builds) != len(news):
                probs.setdefault("V1:all-events-in-the-datagram", f"{len(news)} headers but {len(builds)} encoded")
            for n in news:
                k = sum(1 for s_ in sends if s_.args and contains(s_.args[0], lambda t_, n=n: t_ == n.result))
                if sends and k != 1:
                    probs.setdefault("V1:all-events-in-the-datagram", f"a built notification is part of {k} transmitted buffer(s); every notification is sent exactly once")
    run.floor("V1-paths", checked, 2)
    for key in ("V1:method-id", "V1:service_id", "V1:client_id", "V1:message_type", "V1:interface_version", "V1:payload", "V1:session_id",
                "V1:extra-fields", "V1:every-requested-event-notified", "V1:destination", "V1:all-events-in-the-datagram", "V1:nothing-to-send"):
        run.ob("V1", f"{ns.qual}:{key[3:]}", key not in probs, loc(ns), probs.get(key, "holds on every enumerated path (0, 1 and 2 events)"))
    it_ok = any(s_[0] == "elem" and unwrap_iter(s_[1]) == events for p in paths for e in p.events if e.kind == "call" and e.result is not None
                for s_ in subterms(e.result))
    run.ob("V1", f"{ns.qual}:iterates-requested-events", it_ok, loc(ns), "one notification per requested event")

    # per-destination session counter: transition table and single-writer rule of C08 (a counter that is reset or
    # released for a destination restarts at 1 in the middle of that destination's stream)
    from .. import report
    from . import C08
    sub8 = report.subrun(C08, "C08", prog, tier, run.seed)
    n8 = 0
    scan8 = Scan(prog)
    for o in sub8.obs:
        if o.rule == "Q2" and not o.ok:
            # an additional writer of the counter matters to notifications only if the service side can reach it
            writer = o.construct.split(":")[0]
            reach = {fi.module.short for fi, r, e in scan8.callers_of(writer)}
            if "service" not in reach:
                continue
        if o.rule in ("Q1", "Q2") or (o.rule == "Q3" and "_notify_single" in o.construct):
            n8 += 1
            run.ob("V1", o.construct, o.ok, o.loc, o.msg, o.detail, o.nontrivial)
    run.floor("V1-session-counter", n8, 4)
    run.abstract_cases += sub8.abstract_cases

    # ------------------------------------------------------------------ V2
    scan = Scan(prog)
    # a round hands ONE `events` object to every subscriber's _notify_single: it is iterated once per subscriber, so it must
    # be re-iterable.  A generator expression / iterator would be drained by the first subscriber, the others get nothing.
    one_shot = []
    n_sites = 0
    for fn_ in (na, ns):
        pidx = [p_ for p_ in fn_.params()[1:]].index("events") if "events" in fn_.params() else None
        for fi, r, e in scan.callers_of(fn_.qual):
            a = None
            if e.sched and e.cb is not None:
                a = dict(e.cbkwargs).get("events") or (e.cbargs[pidx] if pidx is not None and len(e.cbargs) > pidx else None)
            else:
                a = dict(e.kwargs).get("events") or (e.args[pidx] if pidx is not None and len(e.args) > pidx else None)
            if a is None:
                continue
            n_sites += 1
            gen = (a[0] == "comp" and a[1] == "gen") or \
                (a[0] == "call" and a[1][0] == "ext" and a[1][1] in ("iter", "map", "filter", "zip", "reversed", "enumerate", "itertools.chain")) or \
                (a[0] == "call" and a[1][0] in ("bound", "func") and prog.functions.get(a[1][-1]) is not None and
                 any(isinstance(n_, (__import__("ast").Yield, __import__("ast").YieldFrom)) for n_ in __import__("ast").walk(prog.functions[a[1][-1]].node)))
            if gen and fn_ is na:
                one_shot.append((fi, e, a))
    run.ob("V2", f"{na.qual}:events-object-is-reiterable", not one_shot, loc(one_shot[0][0], one_shot[0][1].node) if one_shot else loc(na),
           f"{n_sites} call site(s) pass a re-iterable collection of event ids" if not one_shot else
           f"{one_shot[0][0].qual} hands the one-shot iterator {show(one_shot[0][2])[:70]} to a round: the first subscriber's _notify_single drains it, "
           "every other subscriber builds an empty batch and is skipped")
    writers = {}
    for fi, r, e in scan.all():
        if e.kind == "call" and e.attrname in ("add", "remove", "discard", "clear", "pop", "update") and e.recv == ("attr", me, "subscribed_endpoints"):
            writers.setdefault(fi.qual, set()).add(e.attrname)
        if e.kind == "store" and e.target == ("attr", me, "subscribed_endpoints") and fi.name != "__init__":
            writers.setdefault(fi.qual, set()).add("assign")
    run.ob("V2", f"{EG}:who-changes-the-subscriber-set", writers == {sub.qual: {"add"}, uns.qual: {"remove"}}, loc(sub), f"subscriber set changed by {({k: sorted(v) for k, v in writers.items()})}")
    e0 = engine(prog, NoInline())
    ep = P(sub, param_at(sub, 0, "endpoint"))
    for p in e0.paths(sub, recv=EG):
        run.paths += 1
        add = [e for e in p.events if e.kind == "call" and e.attrname == "add" and e.recv == ("attr", me, "subscribed_endpoints")]
        sets = [e for e in p.events if e.kind == "call" and e.attrname == "set" and e.recv == ("attr", me, "has_clients")]
        tasks = [e for e in p.events if e.kind == "call" and e.sched == "task"]
        run.ob("V2", f"{sub.qual}:adds-and-sets-has_clients", len(add) == 1 and add[0].args == (ep,) and len(sets) == 1 and p.returns(), loc(sub),
               f"subscribe adds the endpoint ({len(add)}x) and sets has_clients ({len(sets)}x) in the same step")
        ok3 = len(tasks) == 1 and tasks[0].cb == ("bound", me, ns.qual) and tasks[0].cbargs[:1] == (ep,)
        if ok3:
            evs = dict(tasks[0].cbkwargs).get("events") or (tasks[0].cbargs[1] if len(tasks[0].cbargs) > 1 else None)
            ok3 = evs is not None and evs[0] == "call" and evs[1] == ("attr", ("attr", me, "values"), "keys")
        run.ob("V3", f"{sub.qual}:one-initial-notification-for-the-new-endpoint", ok3, loc(sub),
               f"{len(tasks)} initial notification task(s): {show(tasks[0].cb)}({', '.join(show(a)[:40] for a in tasks[0].cbargs)}, {dict((k, show(v)[:40]) for k, v in tasks[0].cbkwargs)})" if tasks else "no initial notification scheduled")
    ep = P(uns, param_at(uns, 0, "endpoint"))
    seen = set()
    for p in e0.paths(uns, recv=EG):
        run.paths += 1
        rem = [e for e in p.events if e.kind == "call" and e.attrname == "remove" and e.recv == ("attr", me, "subscribed_endpoints")]
        clr = [e for e in p.events if e.kind == "call" and e.attrname == "clear" and e.recv == ("attr", me, "has_clients")]
        empty = [v for c, v, _, _ in p.conds if c == ("unop", "not", ("attr", me, "subscribed_endpoints")) or c == ("attr", me, "subscribed_endpoints")]
        if p.outcome[0] == "raise":
            continue
        is_empty = bool(empty) and ((empty[0] and True) if any(c == ("unop", "not", ("attr", me, "subscribed_endpoints")) for c, v, _, _ in p.conds) else not empty[0])
        seen.add(is_empty)
        ok = len(rem) == 1 and rem[0].args == (ep,) and (len(clr) == 1) == is_empty and bool(empty) and (not clr or rem[0].seq < clr[0].seq)
        run.ob("V2", f"{uns.qual}:{'last' if is_empty else 'other'}-subscriber", ok, loc(uns),
               f"unsubscribe removes the endpoint ({len(rem)}x); set {'empty' if is_empty else 'non-empty'} afterwards: has_clients cleared {len(clr)}x")
    run.ob("V2", f"{uns.qual}:cases", seen == {True, False}, loc(uns), "both 'last subscriber' and 'others remain' are handled")
    # notify_once: nothing scheduled without clients
    for p in e0.paths(no, recv=EG):
        run.paths += 1
        tasks = [e for e in p.events if e.kind == "call" and e.sched == "task"]
        hc = [v for c, v, _, _ in p.conds if contains(c, lambda s: s[0] == "call" and s[1] == ("attr", ("attr", me, "has_clients"), "is_set"))]
        has = None
        for c, v, _, _ in p.conds:
            if c[0] == "unop" and c[1] == "not" and contains(c, lambda s: s[0] == "attr" and s[2] == "has_clients"):
                has = not v
            elif contains(c, lambda s: s[0] == "attr" and s[2] == "has_clients"):
                has = v
        if has is False:
            run.ob("V2", f"{no.qual}:no-clients-nothing-scheduled", not tasks, loc(no), "without clients no notification round is scheduled")
        else:
            ok = len(tasks) == 1 and tasks[0].cb == ("bound", me, na.qual) and has is True
            run.ob("V2", f"{no.qual}:one-round", ok, loc(no), f"with clients one round is scheduled ({len(tasks)})")
    # _notify_all: the set is read inside the coroutine, one _notify_single per member, for the requested events
    apaths = e0.paths(na, recv=EG)
    run.paths += len(apaths)
    okall = False
    for p in apaths:
        for e in p.events:
            if e.kind == "call" and any(f.qual == ns.qual for f in e.targets) and e.in_comp:
                ev = dict(e.kwargs).get("events") or (e.args[1] if len(e.args) > 1 else None)
                okall = e.args[:1] and e.args[0][0] == "elem" and e.args[0][1] == ("attr", me, "subscribed_endpoints") and ev == P(na, param_at(na, 0, "events"))
    run.ob("V2", f"{na.qual}:once-per-current-subscriber", bool(okall), loc(na), "a round runs _notify_single once for every endpoint in the subscriber set read when the round starts")
    # cyclic rounds: wait for clients, sleep the interval, notify all current events
    cp = eng.paths(cyc, recv=EG)
    run.paths += len(cp)
    okc = False
    for p in cp:
        seq = []
        for e in p.events:
            if e.kind == "await":
                v = e.value
                if v is not None and v[0] == "call" and v[1] == ("attr", ("attr", me, "has_clients"), "wait"):
                    seq.append("wait")
                elif v is not None and v[0] == "call" and v[1] == ("ext", "asyncio.sleep") and v[2] == (P(cyc, param_at(cyc, 0, "interval")),):
                    seq.append("sleep")
                elif v is not None and v[0] in ("coro", "call") and contains(v, lambda s: s[0] == "bound" and s[-1] == na.qual):
                    seq.append("notify")
                else:
                    seq.append("?")
            elif e.kind == "call" and any(f.qual == na.qual for f in e.targets):
                if not seq or seq[-1] != "notify":
                    seq.append("notify")
        if seq[:3] == ["wait", "sleep", "notify"]:
            okc = True
    run.ob("V2", f"{cyc.qual}:wait-sleep-notify", okc, loc(cyc), "a cyclic round waits for clients, sleeps one interval, then notifies all current subscribers")

    # ------------------------------------------------------------------ V4 refusal
    pol = InlineOnly(names=(), props=False, max_depth=0)
    e4 = engine(prog, pol)
    subp = P(cs, param_at(cs, 0, "subscription"))
    sme = ("self", SVC)
    cpaths = e4.paths(cs, recv=SVC)
    run.paths += len(cpaths)
    # the endpoints of a subscription are options of either transport: "other than exactly one endpoint" is decided for
    # every mix of them (a rule that looks at what kind of endpoints they are must still refuse two of them)
    from ..absint import Record
    l4 = enum_members(prog, "header.L4Protocols")
    protos = [l4[k] for k in sorted(l4)]
    combos = [(n, pr, True) for n in (0, 1, 2, 3) for pr in itertools.product(protos, repeat=n)] + [(1, (protos[0],), False)]
    for n_ep, pr_, known in combos:
        eps = frozenset(Record(f"endpoint{i}", l4proto=pv) for i, pv in enumerate(pr_))
        mix = "/".join(getattr(pv, "name", str(pv)) for pv in pr_)

        def leaf(tm):
            if tm[0] == "call" and tm[1] == ("ext", "len") and tm[2] == (("attr", subp, "endpoints"),):
                return n_ep
            if tm == ("attr", subp, "endpoints"):
                return eps
            if tm[0] == "call" and tm[1] == ("attr", ("attr", sme, "eventgroups"), "get"):
                return object() if known else None
            raise AnalysisError(f"{cs.qual}: decision depends on {show(tm)}")
        hits = []
        for p in cpaths:
            if any(e.raised == "AnyException" for e in p.events) or (p.outcome[0] == "raise" and any(e.kind == "caught" and e.value == "Exception" for e in p.events)
                                                                    and not any(isinstance(getattr(e.node, "test", None), ast.AST) for e in p.events if False)):
                pass
            try:
                if all(bool(eval_term(c, leaf)) == v for c, v, _, _ in p.conds):
                    hits.append(p)
            except AnalysisError:
                raise
        # among the consistent paths ignore those where a callee raised an unknown exception
        hits = [p for p in hits if not any(e.kind == "call" and e.raised in ("AnyException", "StopIteration") for e in p.events)]
        if len(hits) != 1:
            raise AnalysisError(f"{cs.qual}: {len(hits)} paths for endpoints={n_ep} eventgroup-known={known}")
        p = hits[0]
        subs = [e for e in p.events if e.kind == "call" and e.attrname == "subscribe"]
        if n_ep == 1 and known:
            ok = p.returns() and len(subs) == 1 and subs[0].recv is not None and contains(subs[0].recv, lambda s: s[0] == "attr" and s[2] == "eventgroups") \
                and contains(subs[0].args[0], lambda s: s == ("attr", subp, "endpoints"))
            run.ob("V4", f"{cs.qual}:accepts-single-endpoint[{mix}]", ok, loc(cs), "exactly one endpoint of a known eventgroup: that endpoint is subscribed to that eventgroup")
        else:
            ok = p.outcome[0] == "raise" and p.outcome[1] == "sd.NakSubscription" and not subs
            why = (f"{n_ep} endpoints" + (f" {mix}" if mix else "")) if known else "unknown eventgroup"
            run.ob("V4", f"{cs.qual}:refuses[{why}]", ok, loc(cs),
                   f"{why}: " + ("refused with NakSubscription, nothing subscribed" if ok else f"ends with {p.outcome[0]} {p.outcome[1] if len(p.outcome) > 1 else ''} and {len(subs)} subscribe call(s)"))
    # independent of assert statements (python -O): the whole body is guarded by `except Exception -> NakSubscription`
    body = [st for st in cs.node.body if not (isinstance(st, ast.Expr) and isinstance(st.value, ast.Constant))]
    guarded = len(body) == 1 and isinstance(body[0], ast.Try) and any(
        (h.type is None or (isinstance(h.type, ast.Name) and h.type.id in ("Exception", "BaseException")))
        and any(isinstance(x, ast.Raise) and x.exc is not None and "NakSubscription" in ast.dump(x.exc) for x in ast.walk(h)) for h in body[0].handlers)
    run.ob("V4", f"{cs.qual}:every-failure-refuses", guarded, loc(cs), "the whole body runs under `except Exception: raise NakSubscription` (holds with and without assert statements)")
    # unsubscribe mirrors the lookup
    up = P(cu, param_at(cu, 0, "subscription"))
    oku = False
    for p in e4.paths(cu, recv=SVC):
        run.paths += 1
        us = [e for e in p.events if e.kind == "call" and e.attrname == "unsubscribe"]
        if us and p.returns():
            oku = contains(us[0].recv, lambda s: s[0] == "attr" and s[2] == "eventgroups") and contains(us[0].recv, lambda s: s == ("attr", up, "id")) \
                and contains(us[0].args[0], lambda s: s == ("attr", up, "endpoints"))
    run.ob("V4", f"{cu.qual}:mirrors-subscribe", oku, loc(cu), "client_unsubscribed removes the subscription's endpoint from the eventgroup named by the subscription")
