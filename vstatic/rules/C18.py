"""C18 - stream and datagram framing agree under arbitrary segmentation.

S1  sibling agreement: SOMEIPHeader.read and SOMEIPHeader.parse unpack the same format and, on every
    cell of (length field, version, type, return code), take the same accept/reject decision, build the
    same message fields and use the same payload length
S2  read obtains bytes only through readexactly: first the header size, then the payload length, nothing
    else; an incomplete read propagates (never a truncated message)
S3  SOMEIPReader.read delegates unchanged
"""
from __future__ import annotations

import itertools

from .. import layout
from ..absint import eval_term
from ..facts import AnalysisError
from ..sym import Policy, enum_members
from ..terms import const, contains, is_const, show, subterms
from ..util import InlineOnly, P, calls_to, engine, loc, param_at

HDR = "header.SOMEIPHeader"
ENUMS = ("header.SOMEIPMessageType", "header.SOMEIPReturnCode")


class _Pol(InlineOnly):
    def may_raise(self, ev, eng):
        if ev.kind == "call" and ev.attrname in ("readexactly",):
            return ["asyncio.IncompleteReadError"]
        return super().may_raise(ev, eng)


def check(run, prog, tier):
    from . import model as _model
    _model.audit(run, prog, 'C18')
    run.explanation = (
        "Both decoders are reduced to path formulas over the unpacked header tuple; they are compared as "
        "siblings: same format constant, same accept/reject decision and same constructed fields on every "
        "boundary cell of (length field, version, type, return code), same payload length expression.  Because "
        "read() draws bytes only through StreamReader.readexactly(n) - once with the header size, once with "
        "length-8 - chunking independence and 'EOF inside a message raises IncompleteReadError' follow from the "
        "readexactly contract for every segmentation."
    )
    run.trusted += ["asyncio.StreamReader.readexactly(n) returns exactly n bytes or raises asyncio.IncompleteReadError",
                    "struct unpack of equal bytes gives equal tuples"]
    pol = _Pol(pred=lambda f: f.module.short == "header", max_depth=5)
    pol.fork_uncaught = True
    eng = engine(prog, pol)
    parse = prog.lookup_method(HDR, "parse")
    read = prog.lookup_method(HDR, "read")
    if parse is None or read is None:
        raise AnalysisError(f"{HDR}.parse / read vanished")
    run.analysed(parse, read)
    buf = P(parse, param_at(parse, 0, "buf"))
    rdr = P(read, param_at(read, 0, "reader"))
    ppaths = eng.paths(parse, recv=HDR)
    rpaths = eng.paths(read, recv=HDR)
    run.paths += len(ppaths) + len(rpaths)

    def the_unpack(paths, what):
        found = []
        for p in paths:
            for e in p.events:
                if e.kind == "call" and e.result is not None and layout.unpack_call(eng, e.result) is not None:
                    if e.result not in found:
                        found.append(e.result)
                    break  # the first header unpack of the path (a reader that loops is judged by the rule below)
        if len(found) != 1:
            raise AnalysisError(f"{what}: {len(found)} distinct unpack calls (expected one header unpack)")
        return found[0]

    # one call of read() hands out one message: a path that draws more than header + payload from the stream has consumed
    # a message without returning it (the datagram decoder would have delivered it)
    greedy = [p for p in rpaths if len([e for e in p.events if e.kind == "call" and e.attrname == "readexactly" and e.recv == rdr]) > 2]
    run.ob("S2", f"{read.qual}:one-message-per-call", not greedy, loc(read),
           "every path of read() draws at most one header and one payload from the stream" if not greedy else
           f"a path of read() calls readexactly {len([e for e in greedy[0].events if e.kind == 'call' and e.attrname == 'readexactly'])} times "
           f"[{greedy[0].describe()[:90]}]: a message is read from the stream and dropped, the sequence differs from what datagram decoding yields")
    rpaths = [p for p in rpaths if p not in greedy]
    pu = the_unpack(ppaths, parse.qual)
    ru = the_unpack(rpaths, read.qual)
    pf, _ = layout.unpack_call(eng, pu)
    rf, rsrc = layout.unpack_call(eng, ru)
    run.ob("S1", f"{read.qual}:same-format-as-parse", pf.text == rf.text, loc(read),
           f"stream decoder unpacks {rf.text!r}, datagram decoder unpacks {pf.text!r}")
    H = pf.size

    # ------------------------------------------------------------------ S2 byte source
    reader_calls = {}
    for p in rpaths:
        for e in p.events:
            if e.kind == "call" and e.recv == rdr:
                reader_calls.setdefault(e.attrname, e)
    only = set(reader_calls) <= {"readexactly"}
    run.ob("S2", f"{read.qual}:only-readexactly", only and "readexactly" in reader_calls, loc(read),
           "bytes are drawn only through reader.readexactly" if only else
           f"stream is also read through {sorted(set(reader_calls) - {'readexactly'})} (may return short data)")

    mt = {int(v): v for v in enum_members(prog, ENUMS[0]).values()}
    rc = {int(v): v for v in enum_members(prog, ENUMS[1]).values()}
    bad_mt = next(x for x in range(256) if x not in mt)
    bad_rc = next(x for x in range(256) if x not in rc)

    def mkleaf(unp, U, extra):
        def leaf(tm):
            if tm == unp:
                return U
            if tm in extra:
                return extra[tm]
            if tm[0] == "attr" and tm[2] == "size" and layout.struct_fmt(eng, tm[1]) is not None:
                return layout.struct_fmt(eng, tm[1]).size
            if tm[0] == "call" and tm[1][0] == "cls" and tm[1][1] in ENUMS and len(tm[2]) == 1:
                v = eval_term(tm[2][0], leaf)
                return (mt if tm[1][1] == ENUMS[0] else rc)[v]
            if tm[0] == "await" and tm[1][0] == "call" and tm[1][1] == ("attr", rdr, "readexactly"):
                n = eval_term(tm[1][2][0], leaf)
                return bytes(max(0, n))
            raise AnalysisError(f"decision depends on {show(tm)}; not modelled")
        return leaf

    free_state = set()

    def consistent(p, leaf):
        for e in p.events:
            if e.kind == "call" and e.ext and e.ext.startswith("enumconv:") and e.args and not is_const(e.args[0]):
                v = eval_term(e.args[0], leaf)
                member = v in (mt if e.ext.endswith("SOMEIPMessageType") else rc)
                if member != (e.raised is None):
                    return False
            if e.kind == "call" and e.attrname == "readexactly" and e.raised is not None:
                return False  # cases below assume the stream holds enough bytes
        for c, val, _, _ in p.conds:
            try:
                if bool(eval_term(c, leaf)) != val:
                    return False
            except AnalysisError:
                # a decision about remembered state of the module / class (a cache, a counter): a free dimension - the
                # reader has to agree with the datagram decoder for either outcome
                if contains(c, lambda s_: s_[0] == "attr" and s_[1][0] in ("mod", "cls") and not (s_[1][0] == "mod" and s_[2].isupper())):
                    free_state.add(show(c)[:80])
                    continue
                raise
        return True

    cases = 0
    problems = {}
    undecided = []
    for size, pv, mtv, rcv in itertools.product((0, 7, 8, 9, 24, 0x10007), (0, 1, 2),
                                                (min(mt), max(mt), bad_mt), (min(rc), max(rc), bad_rc)):
        cases += 1
        U = (0x1234, 0x5678, size, 0x9ABC, 0xDEF0, pv, 0x42, mtv, rcv)
        data = bytes((i * 5 + 1) % 251 for i in range(H + max(size - 8, 0) + 3))
        pl = mkleaf(pu, U, {buf: data})
        rl = mkleaf(ru, U, {})
        ph = [p for p in ppaths if _safe(consistent, p, pl)]
        rh = [p for p in rpaths if _safe(consistent, p, rl)]
        if len(ph) != 1 or not rh or (len(rh) != 1 and not free_state):
            raise AnalysisError(f"sibling comparison: {len(ph)} parse paths / {len(rh)} read paths for one case")
        pp = ph[0]
        tail_valid = pv == 1 and mtv in mt and rcv in rc
        if len(rh) > 1 and not tail_valid:
            # remembered state is consulted and this header's constant part is one the validator rejects.  The branch that
            # "remembers" it is feasible only if such a header can get into the memory: that is the case iff some path
            # that is feasible for this header writes the memory.  Otherwise only the branch that agrees with the datagram
            # decoder can be taken.
            def writes_memory(q_):
                return any(e.kind == "store" and e.target is not None and
                           contains(e.target, lambda s_: s_[0] == "attr" and s_[1][0] in ("mod", "cls")) for e in q_.events) or \
                    any(e.kind == "call" and e.attrname in ("add", "setdefault", "update", "append") and e.recv is not None and
                        contains(e.recv, lambda s_: s_[0] == "attr" and s_[1][0] in ("mod", "cls")) for e in q_.events)
            if not any(writes_memory(q_) for q_ in rh):
                agree = [q_ for q_ in rh if q_.returns() == pp.returns()]
                if agree:
                    rh = agree[:1]
        for rp in rh:
          try:
                p_acc = pp.returns()
                r_acc = rp.returns()
                why = "valid" if (pv == 1 and mtv in mt and rcv in rc and size >= 8) else (
                    "bad-version" if pv != 1 else "bad-type" if mtv not in mt else "bad-return-code" if rcv not in rc else "length<8")
                if p_acc != r_acc:
                    problems.setdefault(f"{read.qual}:decision[{why}]",
                                        f"length field {size}, version {pv}, type {mtv:#x}, return code {rcv:#x}: datagram decoder "
                                        f"{'accepts' if p_acc else 'rejects'}, stream decoder {'accepts' if r_acc else 'raises ' + str(rp.outcome[1])}")
                    continue
                if not p_acc:
                    if not (rp.outcome[0] == "raise" and eng.exc.is_sub(rp.outcome[1], "header.ParseError")):
                        problems.setdefault(f"{read.qual}:reject-error-type[{why}]",
                                            f"stream decoder rejects a bad header with {rp.outcome[1] if len(rp.outcome) > 1 else rp.outcome[0]}, not with the library's ParseError")
                    # ... and at the same position: on seeing the header, before any payload byte is awaited (a reader that
                    # first waits for the payload blocks on a stream whose payload never comes, or reports EOF instead)
                    nrx = [e for e in rp.events if e.kind == "call" and e.attrname == "readexactly" and e.recv == rdr]
                    if len(nrx) != 1:
                        problems.setdefault(f"{read.qual}:reject-position[{why}]",
                                            f"length field {size}, version {pv}, type {mtv:#x}, return code {rcv:#x}: the stream decoder rejects this header only "
                                            f"after {len(nrx)} readexactly call(s) - it must be rejected once the {H} header bytes are read, as the datagram decoder does")
                    continue
                pm = pp.retval()[1][0]
                rm = rp.retval()
                if rm[0] != "new" or rm[1] != HDR:
                    raise AnalysisError(f"{read.qual}: does not return a constructed SOMEIPHeader")
                pfld, rfld = dict(pm[2]), dict(rm[2])
                for f in sorted(set(pfld) | set(rfld)):
                    if f == "payload":
                        continue
                    a = eval_term(pfld[f], pl) if f in pfld else "<default>"
                    b = eval_term(rfld[f], rl) if f in rfld else "<default>"
                    if a != b or type(a) is not type(b):
                        problems.setdefault(f"{read.qual}:field[{f}]", f"field {f}: datagram decoder gives {a!r}, stream decoder gives {b!r}")
                # payload length and read order
                rx = [e for e in rp.events if e.kind == "call" and e.attrname == "readexactly" and e.recv == rdr]
                lens = [eval_term(e.args[0], rl) for e in rx]
                if lens != [H, size - 8]:
                    problems.setdefault(f"{read.qual}:read-sizes", f"length field {size}: stream decoder reads {lens} bytes; expected [{H}, {size - 8}] (header, then payload)")
                if "payload" not in rfld or rfld["payload"][0] != "await" or not rx or rfld["payload"][1] != rx[-1].result:
                    problems.setdefault(f"{read.qual}:payload-source", "payload of the stream message is not exactly the bytes of the second readexactly")
                plen = len(eval_term(pfld["payload"], pl))
                if plen != size - 8:
                    problems.setdefault(f"{parse.qual}:payload-length", f"datagram decoder payload is {plen} bytes for length field {size}")
          except AnalysisError as exc:
            if not free_state:
                raise
            undecided.append(str(exc))
    run.abstract_cases += cases
    if free_state:
        run.extra["free_state_dimensions"] = sorted(free_state)
    if undecided and not problems:
        raise AnalysisError(f"sibling comparison: values taken from remembered state ({sorted(free_state)[:2]}): {undecided[0]}")
    for k, m in problems.items():
        run.ob("S1" if ":decision" in k or ":field" in k or "reject-" in k else "S2", k, False, loc(read), m)
    if not problems:
        run.ob("S1", f"{read.qual}:agrees-with-parse", True, loc(read),
               f"{cases} cells of (length, version, type, return code): same decision, same fields, same error class")
        run.ob("S2", f"{read.qual}:header-then-payload", True, loc(read), f"readexactly({H}) then readexactly(length-8), nothing in between")

    # incomplete reads propagate
    inc = [p for p in rpaths if any(e.kind == "call" and e.attrname == "readexactly" and e.raised for e in p.events)]
    run.floor("S2-incomplete-paths", len(inc), 2)
    for i, p in enumerate(inc):
        ok = p.outcome[0] == "raise" and p.outcome[1] == "asyncio.IncompleteReadError"
        n = sum(1 for e in p.events if e.kind == "call" and e.attrname == "readexactly")
        run.ob("S2", f"{read.qual}:eof-in-{'header' if n == 1 else 'payload'}", ok, loc(read),
               "a stream ending inside the message raises IncompleteReadError" if ok else
               f"a stream ending inside the message ends with {p.outcome[0]} {p.outcome[1] if len(p.outcome) > 1 else ''} instead of IncompleteReadError")

    # ------------------------------------------------------------------ S3 wrapper
    wr = prog.lookup_method("header.SOMEIPReader", "read")
    if wr is None:
        raise AnalysisError("header.SOMEIPReader.read has vanished")
    run.analysed(wr)
    e2 = engine(prog, InlineOnly(names=(), props=False, max_depth=1))
    wps = e2.paths(wr, recv="header.SOMEIPReader")
    run.paths += len(wps)
    for p in wps:
        cs = calls_to(p, read.qual)
        ok = p.returns() and len(cs) == 1 and cs[0].args[:1] == (("attr", ("self", "header.SOMEIPReader"), "reader"),) \
            and p.retval() == ("await", cs[0].result)
        # ... and what the delegate raises (ParseError, IncompleteReadError) reaches the caller: no handler around the call,
        # no exception-swallowing wrapper around the method
        guarded = bool(cs) and any(level for level in (cs[0].handlers or ()))
        swallowed = wr.log_exceptions
        run.ob("S3", f"{wr.qual}:delegates", ok and not guarded and not swallowed, loc(wr),
               "returns await SOMEIPHeader.read(self.reader) unchanged, its exceptions pass through" if ok and not guarded and not swallowed else
               (f"{wr.qual} is wrapped by @log_exceptions: a rejected header / a stream that ends inside a message is logged and answered with None "
                "instead of the error the datagram decoder raises" if swallowed else
                "the call is inside a try that handles what the delegate raises" if guarded else
                f"returns {show(p.retval()) if p.returns() else p.outcome}"))


def _safe(fn, p, leaf):
    try:
        return fn(p, leaf)
    except (KeyError, IndexError, TypeError, ValueError):
        return False
