"""C07 - peer reboot is detected exactly, per sender and per channel.

P1  decision table of _SessionStorage.check_received == known & flag & (~old_flag | old_id >= id)
    on every cell of the (known, old_flag, flag, order(old_id,id)) space, ids in 1..0xFFFF
P2  every path through check_received (normal, KeyError, early return) leaves (flag, id) stored
P3  the memory key contains sender *and* channel; all reads/writes use that key
P4  message_received evaluates check_received exactly once per accepted SD message, with
    (addr, multicast, decoded reboot flag, session id); its truth guards exactly one
    reboot_detected call, which reaches each of the three components exactly once on every path
"""
from __future__ import annotations

from ..absint import (comparison_only, constants_compared, eval_term, order_points, path_matches)
from ..facts import AnalysisError
from ..terms import contains, is_const, show, strip_sites, subterms
from ..util import NoInline, P, calls_named, calls_to, engine, loc, mentions_param, param_at, stores

STORAGE = "sd._SessionStorage"
CHECK = "sd._SessionStorage.check_received"
PROTO = "sd.ServiceDiscoveryProtocol"


def check(run, prog, tier):
    from . import model as _model
    _model.audit(run, prog, 'C07')
    run.explanation = (
        "check_received is a loop-free function: its complete path set is enumerated, every branch condition "
        "is kept as a formula over {record known?, stored flag, stored id, flag, id}; ids occur only in "
        "order comparisons, so evaluating the formulas on representative points of every order cell "
        "(domain 1..0xFFFF split at the constants the code compares with) is exact.  The table is compared "
        "with the statement's oracle; key, state update and the single evaluation / fan-out in "
        "message_received are path facts of the resolved program."
    )
    run.trusted += ["dict lookup raises KeyError exactly for absent keys",
                    "session ids on the wire are in 1..0xFFFF (0 is not a legal SD session id)"]
    fi = prog.func(CHECK)
    run.analysed(fi)
    sender = param_at(fi, 0, "sender")
    channel = param_at(fi, 1, "multicast")
    flag = param_at(fi, 2, "flag")
    sid = param_at(fi, 3, "session_id")
    eng = engine(prog, NoInline())
    paths = eng.paths(fi)
    run.paths += len(paths)

    def is_mem(tm):  # a term reading the incoming-memory of the receiver
        return contains(tm, lambda s: s[0] == "attr" and s[1][0] == "self" and s[2] == mem_attr)

    # the memory attribute: the dict attribute of the storage that is subscripted with a key
    # containing the sender parameter
    mem_attr = None
    for p in paths:
        for e in p.events:
            if e.kind in ("store", "load") and e.target and e.target[0] == "item":
                base, key = e.target[1], e.target[2]
                if base[0] == "attr" and base[1][0] == "self" and mentions_param(key, fi, sender):
                    mem_attr = base[2]
    if mem_attr is None:
        for p in paths:
            for e in p.events:
                if e.kind == "call" and e.attrname in ("get", "__getitem__", "pop", "setdefault") and e.recv is not None \
                        and e.recv[0] == "attr" and e.recv[1][0] == "self" and e.args and mentions_param(e.args[0], fi, sender):
                    mem_attr = e.recv[2]
    if mem_attr is None:
        raise AnalysisError(f"{CHECK}: no per-sender memory (a mapping keyed by the sender) found")

    # ---------------------------------------------------------------- P3 key
    keys = []
    for p in paths:
        for e in p.events:
            if e.kind in ("store", "load") and e.target and e.target[0] == "item" and e.target[1] == ("attr", ("self", STORAGE), mem_attr):
                keys.append((e, e.target[2]))
            if e.kind == "call" and e.recv == ("attr", ("self", STORAGE), mem_attr) and e.args:
                keys.append((e, e.args[0]))
    seen = set()
    n_keys = 0
    for e, k in keys:
        if id(e.node) in seen:
            continue
        seen.add(id(e.node))
        n_keys += 1
        ok = mentions_param(k, fi, sender) and mentions_param(k, fi, channel)
        run.ob("P3", f"{CHECK}:key@{'write' if e.kind == 'store' else 'read'}#{n_keys}", ok, loc(fi, e.node),
               f"memory key {show(k)} must contain sender and channel" if not ok else f"key {show(k)} = (sender, channel)")
    run.floor("P3", n_keys, 2)
    # the memory is touched only under the key of the message being checked: records of other senders /
    # of the same sender's other channel must neither be created, changed nor dropped
    own_keys = {strip_sites(k) for e, k in keys if e.kind == "load" or (e.kind == "call" and e.attrname in ("get", "__getitem__"))} or \
        {strip_sites(k) for e, k in keys}
    canonical = None
    for k in own_keys:
        if k[0] == "tuple" and set(k[1]) == {P(fi, sender), P(fi, channel)}:
            canonical = k
    foreign = []
    whole = []
    for p in paths:
        for e in p.events:
            if e.kind == "call" and e.recv == ("attr", ("self", STORAGE), mem_attr) and e.attrname in ("pop", "clear", "popitem", "update", "setdefault", "__delitem__"):
                if e.attrname in ("clear", "popitem", "update"):
                    whole.append(e)
                elif e.args and canonical is not None and strip_sites(e.args[0]) != canonical:
                    foreign.append((e, e.args[0]))
            if e.kind == "store" and e.target[0] == "item" and e.target[1] == ("attr", ("self", STORAGE), mem_attr):
                if canonical is not None and strip_sites(e.target[2]) != canonical:
                    foreign.append((e, e.target[2]))
    run.ob("P3", f"{CHECK}:only-own-record-touched", canonical is not None and not foreign and not whole, loc(fi, (foreign or whole or [(None,)])[0][0].node if (foreign or whole) and (foreign or whole)[0][0] is not None else None) if False else loc(fi),
           "only the record under (sender, channel) of the current message is read, written or removed" if (canonical is not None and not foreign and not whole) else
           (f"the record under {show(foreign[0][1])} is modified while checking a message of (sender, channel): another channel's / sender's history is lost, "
            "its next reboot indication is masked" if foreign else "the whole memory is modified" if whole else "no canonical (sender, channel) key found"))

    # nobody else touches the memory: a record dropped or rewritten elsewhere (e.g. "forget the sender after a reboot") makes
    # the next message of that sender / channel a 'first message', which masks the detection it should have triggered
    from ..util import Scan
    scan_ = Scan(prog)
    others = []
    for f2, r2, e2 in scan_.all():
        if f2.qual == fi.qual or (f2.cls is not None and f2.cls.qual == STORAGE and f2.name == "__init__"):
            continue
        tgt = None
        if e2.kind == "store" and e2.target is not None:
            tgt = e2.target
        elif e2.kind == "call" and e2.attrname in ("pop", "clear", "update", "setdefault", "popitem", "__delitem__", "__setitem__") and e2.recv is not None:
            tgt = e2.recv
        if tgt is None:
            continue
        for s_ in subterms(tgt):
            if s_[0] == "attr" and s_[2] == mem_attr:
                ty = eng.typer.type_of(s_[1])
                if ty == ("cls", STORAGE) or s_[1] == ("self", STORAGE):
                    others.append((f2, e2))
    run.ob("P3", f"{STORAGE}:only-{fi.name}-writes-{mem_attr}", not others, loc(others[0][0], others[0][1].node) if others else loc(fi),
           f"the per-sender memory is written only by {fi.name}" if not others else
           f"{others[0][0].qual} also changes the per-sender memory: the next message of the affected sender / channel is compared with nothing "
           "(treated as a first message) and a reboot it reveals goes unnoticed")

    # ---------------------------------------------------------------- P2 state update
    for i, p in enumerate(paths):
        sts = [e for e in stores(p) if e.target[0] == "item" and e.target[1] == ("attr", ("self", STORAGE), mem_attr)]
        ok = False
        msg = "no write of the memory on this path"
        if sts:
            v = sts[-1].value
            k = sts[-1].target[2]
            if v[0] == "tuple" and len(v[1]) == 2 and P(fi, flag) in v[1] and P(fi, sid) in v[1] \
                    and mentions_param(k, fi, sender) and mentions_param(k, fi, channel):
                ok = True
                msg = f"last write stores {show(v)}"
            else:
                msg = f"last write stores {show(v)} under {show(k)}, expected (flag, session id) under (sender, channel)"
        if p.outcome[0] == "raise":
            msg += f" (path raises {p.outcome[1]})"
        run.ob("P2", f"{CHECK}:path[{p.describe()}]", ok, loc(fi), msg)

    # role of the stored tuple components
    order = None
    for p in paths:
        for e in stores(p):
            if e.target[0] == "item" and e.target[1] == ("attr", ("self", STORAGE), mem_attr) and e.value[0] == "tuple" and len(e.value[1]) == 2:
                v = e.value[1]
                if P(fi, flag) in v and P(fi, sid) in v:
                    order = (v.index(P(fi, flag)), v.index(P(fi, sid)))
    if order is None:
        raise AnalysisError(f"{CHECK}: cannot determine the layout of the remembered (flag, id) pair")

    # ---------------------------------------------------------------- P1 decision table
    def old_role(tm):
        """'old_flag' / 'old_id' / 'old' (whole record) / None for a term read from the memory"""
        if tm[0] == "item" and is_const(tm[2]) and is_mem(tm[1]) and not is_mem(tm[2]):
            return {order[0]: "old_flag", order[1]: "old_id"}.get(tm[2][1])
        return None

    def is_input(tm):
        return tm == P(fi, sid) or old_role(tm) == "old_id"

    conds = [c for p in paths for c, _, _, _ in p.conds]
    offending = comparison_only(conds, is_input)
    consts = constants_compared(conds, is_input)
    pts = order_points(1, 0xFFFF, consts)

    def leaf_for(known, old_flag, old_id, fl, new_id):
        def leaf(tm):
            if tm == P(fi, flag):
                return fl
            if tm == P(fi, sid):
                return new_id
            # membership test spelling of "sender known":  key in self.<memory>
            if tm == P(fi, sender):
                return "<sender>"
            if tm == P(fi, channel):
                return False
            if tm == ("attr", ("self", STORAGE), mem_attr):
                rec = [None, None]
                rec[order[0]], rec[order[1]] = old_flag, old_id
                return {("<sender>", False): tuple(rec), (False, "<sender>"): tuple(rec)} if known else {}
            r = old_role(tm)
            if r == "old_flag":
                return old_flag
            if r == "old_id":
                return old_id
            if is_mem(tm) and tm[0] in ("call", "item"):
                # whole record obtained with .get(key) / [key]
                if not known:
                    return None
                rec = [None, None]
                rec[order[0]], rec[order[1]] = old_flag, old_id
                return tuple(rec)
            if tm[0] == "item" and is_const(tm[2]) and tm[1][0] in ("call", "item") and is_mem(tm[1]):
                return leaf(tm[1])[tm[2][1]]
            raise AnalysisError(f"{CHECK}: condition refers to {show(tm)}, which the decision-table abstraction does not model")
        return leaf

    def known_of_path(p):
        """does this path correspond to 'sender known' (memory lookup succeeded)?  None = decided by conditions"""
        for e in p.events:
            if e.kind == "load" and is_mem(e.target):
                return e.raised is None
            if e.kind == "call" and e.attrname == "pop" and e.recv is not None and is_mem(e.recv) and len(e.args) < 2:
                return e.raised is None
        return None

    cases = 0
    bad = 0
    samples = []
    for known in (False, True):
        for old_flag in ((False, True) if known else (False,)):
            for fl in (False, True):
                for old_id in (pts if known else [1]):
                    for new_id in pts:
                        cases += 1
                        leaf = leaf_for(known, old_flag, old_id, fl, new_id)
                        hits = []
                        for p in paths:
                            kp = known_of_path(p)
                            if kp is not None and kp != known:
                                continue
                            if path_matches(p, leaf):
                                hits.append(p)
                        if len(hits) != 1:
                            raise AnalysisError(f"{CHECK}: {len(hits)} paths match case known={known} old=({old_flag},{old_id}) new=({fl},{new_id})")
                        p = hits[0]
                        if p.outcome[0] not in ("return", "fall"):
                            got = f"raises {p.outcome[1]}"
                            gotv = None
                        else:
                            gotv = bool(eval_term(p.retval(), leaf))
                            got = str(gotv)
                        want = bool(known and fl and ((not old_flag) or old_id >= new_id))
                        if gotv != want:
                            bad += 1
                            if bad <= 3:
                                run.ob("P1", f"{CHECK}:case(known={known},old_flag={old_flag},flag={fl},order={'<' if old_id < new_id else '=' if old_id == new_id else '>'})",
                                       False, loc(fi),
                                       f"previous=({old_flag}, {old_id:#x}) now=({fl}, {new_id:#x}) known={known}: check_received gives {got}, the statement demands {want}",
                                       detail={"known": known, "old_flag": old_flag, "old_id": old_id, "flag": fl, "id": new_id})
                        elif len(samples) < 4 and want:
                            samples.append((known, old_flag, old_id, fl, new_id))
    run.abstract_cases += cases
    run.exhaustive = True
    if offending and not bad:
        raise AnalysisError(f"{CHECK}: session ids are used outside plain comparisons ({offending[:2]}); the decision-table abstraction is not exact")
    if not bad:
        run.ob("P1", f"{CHECK}:decision-table", True, loc(fi),
               f"{cases} abstract cases over id points {[hex(x) for x in pts]} agree with known & flag & (~old_flag | old_id >= id)")

    # ---------------------------------------------------------------- P4 single evaluation, fan-out
    mr = prog.lookup_method(PROTO, "message_received")
    if mr is None:
        raise AnalysisError(f"{PROTO}.message_received has vanished")
    run.analysed(mr)
    addr_p = param_at(mr, 1, "addr")
    mc_p = param_at(mr, 2, "multicast")
    msg_p = param_at(mr, 0, "someip_message")
    mpaths = eng.paths(mr, recv=PROTO)
    run.paths += len(mpaths)
    sdrecv = prog.lookup_method(PROTO, "sd_message_received")
    rb = prog.lookup_method(PROTO, "reboot_detected")
    if sdrecv is None or rb is None:
        raise AnalysisError(f"{PROTO}: sd_message_received / reboot_detected vanished")
    accepted = 0
    for p in mpaths:
        cr = calls_to(p, CHECK)
        disp = calls_to(p, sdrecv.qual)
        rbc = calls_to(p, rb.qual)
        if not disp:
            ok = not cr and not rbc
            run.ob("P4", f"{mr.qual}:rejected-path[{p.describe()[:80]}]", ok, loc(mr),
                   "a message that is not dispatched must not touch the reboot memory" if not ok else "rejected message leaves reboot memory alone",
                   nontrivial=False)
            continue
        accepted += 1
        ok = len(cr) == 1 and cr[0].seq < disp[0].seq
        msg = f"{len(cr)} evaluation(s) of check_received before dispatch"
        if ok:
            a = cr[0].args
            want = [P(mr, addr_p), P(mr, mc_p)]
            ok = len(a) == 4 and a[0] == want[0] and a[1] == want[1]
            if ok:
                # third: reboot flag of the decoded SD header, fourth: session id of the SOME/IP message
                parse_q = prog.lookup_method("header.SOMEIPSDHeader", "parse")
                okf = a[2][0] == "attr" and a[2][2] == "flag_reboot" and contains(
                    a[2][1], lambda t_: t_[0] == "call" and t_[1][0] == "bound" and parse_q is not None
                    and t_[1][2] == parse_q.qual and t_[2][:1] == (("attr", P(mr, msg_p), "payload"),))
                oks = a[3] == ("attr", P(mr, msg_p), "session_id")
                ok = okf and oks
            if not ok:
                msg = f"check_received called with ({', '.join(show(x) for x in a)}), expected (addr, multicast, <decoded>.flag_reboot, message.session_id)"
        run.ob("P4", f"{mr.qual}:single-evaluation[{'reboot' if rbc else 'no-reboot'}]", ok, loc(mr, cr[0].node if cr else None), msg)
        if len(cr) == 1:
            res = cr[0].result
            decided = [v for c, v, _, _ in p.conds if strip_sites(c) == strip_sites(res)]
            want_rb = bool(decided and decided[0])
            ok2 = (len(rbc) == 1) == want_rb and len(rbc) <= 1 and bool(decided)
            if ok2 and rbc:
                ok2 = rbc[0].args[:1] == (P(mr, addr_p),) and cr[0].seq < rbc[0].seq < disp[0].seq
            run.ob("P4", f"{mr.qual}:guarded-fanout[{'reboot' if want_rb else 'no-reboot'}]", ok2, loc(mr, rbc[0].node if rbc else None),
                   f"reboot_detected called {len(rbc)}x on the path where check_received is {'true' if want_rb else 'false'}"
                   + ("" if decided else " (its result does not guard the call)"))
    run.floor("P4-accepted-paths", accepted, 2)

    # fan-out
    run.analysed(rb)
    comps = []
    pci = prog.cls(PROTO)
    for c in pci.mro:
        for attr in prog.classes[c].attr_init:
            ty = eng.typer.attr_type(PROTO, attr)
            if ty and ty[0] == "cls" and prog.lookup_method(ty[1], "reboot_detected") is not None and attr not in [x[0] for x in comps]:
                comps.append((attr, ty[1]))
    run.floor("P4-components", len(comps), 3)
    rpaths = eng.paths(rb, recv=PROTO)
    run.paths += len(rpaths)
    a0 = param_at(rb, 0, "addr")
    for p in rpaths:
        for attr, cq in comps:
            target = prog.lookup_method(cq, "reboot_detected").qual
            n = 0
            for e in p.events:
                if e.kind != "call":
                    continue
                if any(f.qual == target for f in e.targets) and e.recv == ("attr", ("self", PROTO), attr) and not e.sched:
                    if e.args[:1] == (P(rb, a0),):
                        n += 1
                if e.sched and e.cb is not None and e.cb[0] == "bound" and e.cb[2] == target and e.cb[1] == ("attr", ("self", PROTO), attr):
                    if e.cbargs[:1] == (P(rb, a0),):
                        n += 1
            run.ob("P4", f"{rb.qual}:fanout->{attr}", n == 1 and p.outcome[0] in ("fall", "return"), loc(rb),
                   f"{attr}.reboot_detected(addr) reached {n}x on path [{p.describe()[:60]}]")

    # ------------------------------------------------------------------ P5 the compared pair is the wire pair
    # P1..P4 decide check_received on integers and booleans.  What it is handed is the decoded session id of the SOME/IP
    # header and the decoded reboot flag of the SD header: both must be the wire values, decoded exactly (a wrapper type
    # with its own ordering, a masked flag compare differently) - C01's and C02's reader tables
    from .. import report
    from . import C01
    from .sdcodec import codec_keeps
    with run.part("P5 wire values"):
        sub = report.subrun(C01, "C01", prog, tier, run.seed)
        n = 0
        for o in sub.obs:
            if o.rule == "L3" and "session_id<-position[" in o.construct:
                n += 1
                run.ob("P5", o.construct, o.ok, o.loc, o.msg + ("" if o.ok else " [the session ids compared by check_received are not the plain wire integers]"), o.detail, o.nontrivial)
        run.floor("P5-session-id", n, 1)
        codec_keeps(run, prog, tier, "P5", ("SOMEIPSDHeader.parse:flag-bits",), "the reboot flag compared by check_received is not the wire bit")

