"""C08 - outgoing session ids count 1..0xFFFF per destination; reboot flag clears on wrap.

Q1  transition table of _SessionStorage.assign_outgoing on the cells [1,0xFFFE], {0xFFFF}:
    returns the old (flag, id); next state (flag, id+1) resp. (False, 1); unseen destination (True, 1)
Q2  nobody else writes the per-destination memory
Q3  send_sd: the key of assign_outgoing is the destination of the transmission; id and flag flow
    unchanged into the SOME/IP header / the SD header.  _notify_single: same for notifications
Q4  an empty entry list returns before an id is taken; one id per transmitted message
Q5  no SD transmission bypasses send_sd (who-may-call of the raw send)
"""
from __future__ import annotations

import ast

from ..absint import comparison_only, constants_compared, eval_term, order_points, path_matches
from ..facts import AnalysisError, dotted
from ..terms import contains, is_const, show, strip_sites, subterms
from ..util import NoInline, P, Scan, calls_to, engine, loc, mentions_param, param_at, stores

STORAGE = "sd._SessionStorage"
ASSIGN = "sd._SessionStorage.assign_outgoing"
PROTO = "sd.ServiceDiscoveryProtocol"
BASE = "sd.SOMEIPDatagramProtocol"


def _mem_attr(fi, paths, foreign=None):
    """the attribute holding the per-destination memory: the dict of self that is indexed with the destination parameter.
    foreign (a list) collects key terms that are *derived* from the destination instead of being it."""
    key = param_at(fi, 0, "remote")
    kp = P(fi, key)
    derived = None
    for p in paths:
        for e in p.events:
            if e.kind in ("store", "load") and e.target and e.target[0] == "item":
                b = e.target[1]
                if b[0] == "attr" and b[1][0] == "self":
                    if e.target[2] == kp:
                        return b[2]
                    if e.target[2] != kp and contains(e.target[2], lambda s_: s_ == kp):
                        derived = derived or (b[2], e.target[2], e)
            if e.kind == "call" and e.attrname in ("get", "setdefault", "pop") and e.recv is not None and e.recv[0] == "attr" \
                    and e.recv[1][0] == "self":
                if e.args[:1] == (kp,):
                    return e.recv[2]
                if e.args and contains(e.args[0], lambda s_: s_ == kp):
                    derived = derived or (e.recv[2], e.args[0], e)
    if derived is not None and foreign is not None:
        foreign.append(derived)
        return derived[0]
    raise AnalysisError(f"{ASSIGN}: per-destination memory keyed by the destination parameter not found")


def _default_pair(prog, eng, attr):
    """the value an unseen destination starts with: defaultdict(lambda: (flag, id)) in __init__"""
    ci = prog.cls(STORAGE)
    inits = list(ci.attr_init.get(attr, []))
    for (h, y), x in prog.forwarders(STORAGE).items():
        if x == attr:
            # the memory lives in a private component and is presented through a forwarding property
            ty = eng.typer.attr_type(STORAGE, h)
            if ty and ty[0] == "cls" and ty[1] in prog.classes:
                inits += list(prog.cls(ty[1]).attr_init.get(y, []))
    for fi, val in inits:
        if isinstance(val, ast.Call) and (dotted(val.func) or "").endswith("defaultdict") and val.args:
            fac = val.args[0]
            if isinstance(fac, ast.Lambda) and not fac.args.args:
                # the factory's value: a display of constants, or a (module / class level) constant holding one
                v = eng._eval_in_module(fac.body, fi.module)
                if v[0] == "tuple" and len(v[1]) == 2 and all(is_const(x) for x in v[1]):
                    return tuple(x[1] for x in v[1]), fi, val
    return None, None, None


def check(run, prog, tier):
    from . import model as _model
    _model.audit(run, prog, 'C08')
    run.explanation = (
        "assign_outgoing is loop-free: its paths give the complete transition function (returned pair, "
        "stored next pair) as terms over the remembered (flag, id); the id is only compared with constants "
        "and incremented, so evaluating on representative points of the cells [1,0xFFFE] and {0xFFFF} is "
        "exact.  1,2,..,0xFFFF,1,.. and 'flag exactly before the first wrap' follow by induction from the "
        "table (start (True,1); step id->id+1 below 0xFFFF keeps the flag; 0xFFFF -> (False,1); False is "
        "absorbing).  Key/destination agreement and the id/flag flow into the headers are def-use facts of "
        "send_sd and _notify_single; who-may-write and who-may-send are call-graph facts."
    )
    run.trusted += ["collections.defaultdict calls its factory for absent keys",
                    "struct range checks are irrelevant here: ids stay within 1..0xFFFF by the table"]
    eng = engine(prog, NoInline())
    fi = prog.func(ASSIGN)
    run.analysed(fi)
    paths = eng.paths(fi)
    run.paths += len(paths)
    foreign = []
    mem = _mem_attr(fi, paths, foreign)
    if foreign:
        # the counters are "per destination": the key has to be the destination itself.  A key computed from it (a
        # normalised / shortened address) lets two destinations share one counter and one reboot flag - each of them then
        # sees gaps, and the second one starts with a cleared flag after the first has wrapped
        _a, kt, ev_ = foreign[0]
        run.ob("Q2", f"{ASSIGN}:memory-keyed-by-the-destination", False, loc(fi, ev_.node),
               f"self.{mem} is indexed with {show(kt)[:80]}, which is derived from the destination: distinct destinations "
               "(e.g. one link-local address reached through two interfaces) can share a session counter")
        return
    memterm = ("attr", ("self", STORAGE), mem)
    keyp = P(fi, param_at(fi, 0, "remote"))

    # ------------------------------------------------------------------ Q1
    default, dfi, dnode = _default_pair(prog, eng, mem)
    get_default = None
    for p in paths:
        for e in p.events:
            if e.kind == "call" and e.attrname == "get" and e.recv == memterm and len(e.args) == 2 and e.args[1][0] == "tuple" \
                    and all(is_const(x) for x in e.args[1][1]):
                get_default = tuple(x[1] for x in e.args[1][1])
    dv = default if default is not None else get_default
    run.ob("Q1", f"{STORAGE}:initial-state", dv == (True, 1), loc(dfi or fi, dnode),
           f"an unseen destination starts with {dv!r}, the statement demands (True, 1) (reboot flag set, first id 1)")

    def old_rec(tm):
        return (tm[0] == "item" and tm[1] == memterm and tm[2] == keyp) or \
               (tm[0] == "call" and tm[1] == ("attr", memterm, "get") and tm[2][:1] == (keyp,))

    def is_id(tm):
        return tm[0] == "item" and is_const(tm[2]) and tm[2][1] == 1 and old_rec(tm[1])

    def is_flag(tm):
        return tm[0] == "item" and is_const(tm[2]) and tm[2][1] == 0 and old_rec(tm[1])

    with run.part("Q1 transition table"):
        _transition_table(run, fi, paths, memterm, keyp, old_rec, is_id, is_flag)
    _rest(run, prog, eng, scan_=None, mem=mem, tier=tier)


def _transition_table(run, fi, paths, memterm, keyp, old_rec, is_id, is_flag):
    defaults = {}
    a_ = fi.node.args
    pos = a_.posonlyargs + a_.args
    for arg, dv in zip(pos[len(pos) - len(a_.defaults):], a_.defaults):
        if isinstance(dv, ast.Constant):
            defaults[arg.arg] = dv.value
    for arg, dv in zip(a_.kwonlyargs, a_.kw_defaults):
        if isinstance(dv, ast.Constant):
            defaults[arg.arg] = dv.value
    conds = [c for p in paths for c, _, _, _ in p.conds]
    offending = comparison_only(conds, is_id)
    consts = constants_compared(conds, is_id) | {0xFFFF}
    pts = order_points(1, 0xFFFF, consts)
    bad = 0
    cases = 0
    for flag in (True, False):
        for cur in pts:
            cases += 1

            def leaf(tm, flag=flag, cur=cur):
                if is_id(tm):
                    return cur
                if is_flag(tm):
                    return flag
                if old_rec(tm):
                    return (flag, cur)
                if tm[0] == "param" and tm[1] == fi.qual and tm[2] in defaults:
                    # an extra parameter with a default: the table is decided for the call sites that omit it (every caller
                    # that passes it is reported by the id-flow rules below)
                    return defaults[tm[2]]
                raise AnalysisError(f"{ASSIGN}: term {show(tm)} is outside the transition-table abstraction")

            hits = [p for p in paths if path_matches(p, leaf)]
            if len(hits) != 1:
                raise AnalysisError(f"{ASSIGN}: {len(hits)} paths for state ({flag}, {cur:#x})")
            p = hits[0]
            problems = []
            if p.outcome[0] != "return":
                problems.append(f"path ends with {p.outcome[0]}")
            else:
                rv = eval_term(p.retval(), leaf)
                if rv != (flag, cur):
                    problems.append(f"returns {rv!r}, must hand out the current pair ({flag}, {cur:#x})")
            sts = [e for e in stores(p) if e.target == ("item", memterm, keyp)]
            want_next = (False, 1) if cur == 0xFFFF else (flag, cur + 1)
            if not sts:
                problems.append("next state is not stored")
            else:
                nv = eval_term(sts[-1].value, leaf)
                if nv != want_next:
                    problems.append(f"stores next state {nv!r}, expected {want_next!r}")
            if problems:
                bad += 1
                if bad <= 4:
                    run.ob("Q1", f"{ASSIGN}:state(flag={flag},id={'0xFFFF' if cur == 0xFFFF else 'below-wrap'})", False, loc(fi),
                           f"from state ({flag}, {cur:#x}): " + "; ".join(problems))
    run.abstract_cases += cases
    run.exhaustive = True
    if offending and not bad:
        raise AnalysisError(f"{ASSIGN}: id used outside comparisons in a condition: {offending[:2]}")
    if not bad:
        run.ob("Q1", f"{ASSIGN}:transition-table", True, loc(fi),
               f"{cases} abstract states over id points {[hex(x) for x in pts]}: returns current pair; next = (flag, id+1) below 0xFFFF, (False, 1) at 0xFFFF")



def _rest(run, prog, eng, scan_, mem, tier="quick"):
    fi = prog.func(ASSIGN)
    # ------------------------------------------------------------------ Q2 single writer
    scan = Scan(prog)
    writers = 0
    for f2, recv, e in scan.all():
        tgt = None
        if e.kind == "store" and e.target is not None:
            tgt = e.target
        elif e.kind == "call" and e.attrname in ("pop", "clear", "update", "setdefault", "__setitem__", "popitem") and e.recv is not None:
            tgt = e.recv
        if tgt is None:
            continue
        hit = False
        for s in subterms(tgt):
            if s[0] == "attr" and s[2] == mem:
                ty = eng.typer.type_of(s[1])
                if ty == ("cls", STORAGE):
                    hit = True
        if not hit:
            continue
        writers += 1
        ok = f2.qual == ASSIGN or (f2.cls is not None and f2.cls.qual == STORAGE and f2.name == "__init__")
        run.ob("Q2", f"{f2.qual}:writes-{mem}", ok, loc(f2, e.node),
               f"{f2.qual} writes the outgoing session memory" + ("" if ok else " - only assign_outgoing may"))
    run.floor("Q2", writers, 1)  # (assign_outgoing itself; the initialisation may sit in a component's constructor)

    # ------------------------------------------------------------------ Q3/Q4 send_sd
    send_sd = prog.lookup_method(PROTO, "send_sd")
    if send_sd is None:
        raise AnalysisError(f"{PROTO}.send_sd has vanished")
    run.analysed(send_sd)
    ent = P(send_sd, param_at(send_sd, 0, "entries"))
    rem = P(send_sd, param_at(send_sd, 1, "remote"))
    raw_send = prog.lookup_method(PROTO, "send")
    spaths = eng.paths(send_sd, recv=PROTO)
    run.paths += len(spaths)
    for label, val in (("empty", ()), ("non-empty", ("e",))):
        def leaf(tm, val=val):
            if tm == ent:
                return val
            raise AnalysisError(f"{send_sd.qual}: branch condition depends on {show(tm)}; expected only the entry list")
        hits = [p for p in spaths if path_matches(p, leaf)]
        if len(hits) != 1:
            raise AnalysisError(f"{send_sd.qual}: {len(hits)} paths for {label} entry list")
        p = hits[0]
        ac = calls_to(p, ASSIGN)
        sc = calls_to(p, raw_send.qual)
        if label == "empty":
            run.ob("Q4", f"{send_sd.qual}:empty-list", not ac and not sc and p.returns(), loc(send_sd),
                   f"empty entry list: {len(ac)} id(s) taken, {len(sc)} transmission(s) (must be 0 and 0)")
            continue
        ok = len(ac) == 1 and len(sc) == 1 and ac[0].loopdepth == 0 and sc[0].loopdepth == 0
        run.ob("Q4", f"{send_sd.qual}:one-id-per-message", ok, loc(send_sd),
               f"non-empty list: {len(ac)} id(s) taken, {len(sc)} transmission(s) (must be 1 and 1, outside loops)")
        if not ok:
            continue
        a, s = ac[0], sc[0]
        run.ob("Q3", f"{send_sd.qual}:key=destination", a.args[:1] == (rem,) and s.arg(1, "remote") == rem and a.seq < s.seq, loc(send_sd, a.node),
               f"id taken for {show(a.args[0]) if a.args else '?'}, message sent to {show(s.arg(1, 'remote')) if s.arg(1, 'remote') else 'default'}"
               " (both must be the `remote` argument)")
        res = a.result
        buf = s.arg(0, "buf")
        hdrs = [t_ for t_ in subterms(buf) if t_[0] == "new" and t_[1] == "header.SOMEIPHeader"] if buf else []
        ok_id = len(hdrs) == 1 and dict(hdrs[0][2]).get("session_id") == ("item", res, const_(1))
        run.ob("Q3", f"{send_sd.qual}:id-flow", ok_id, loc(send_sd, s.node),
               "session_id of the transmitted SOME/IP header is " + (show(dict(hdrs[0][2]).get("session_id")) if hdrs else "?")
               + "; must be the id returned by assign_outgoing, unmodified")
        sdh = [t_ for t_ in subterms(buf) if t_[0] == "new" and t_[1] == "header.SOMEIPSDHeader"] if buf else []
        ok_fl = len(sdh) == 1 and dict(sdh[0][2]).get("flag_reboot") == ("item", res, const_(0))
        run.ob("Q3", f"{send_sd.qual}:flag-flow", ok_fl, loc(send_sd, s.node),
               "flag_reboot of the transmitted SD header is " + (show(dict(sdh[0][2]).get("flag_reboot")) if sdh else "?")
               + "; must be the flag returned by assign_outgoing")

    # ------------------------------------------------------------------ Q3 notifications
    ns = prog.func("service.SimpleEventgroup._notify_single")
    run.analysed(ns)
    npaths = eng.paths(ns)
    run.paths += len(npaths)
    svc_send = prog.lookup_method("service.SimpleService", "send")
    checked = 0
    build_q = prog.lookup_method("header.SOMEIPHeader", "build").qual
    for p in npaths:
        if p.outcome[0] == "raise":
            continue
        ac = calls_to(p, ASSIGN)
        sc = calls_to(p, svc_send.qual)
        builds = [e for e in p.events if e.kind == "call" and any(f.qual == build_q for f in e.targets) and e.recv is not None and e.recv[0] == "new"]
        if not builds and not ac and not sc:
            continue
        checked += 1
        ok = True
        detail = f"{len(ac)} id(s) taken for {len(builds)} notification message(s), {len(sc)} datagram(s)"
        ids = []
        for b_ in builds:
            sid = dict(b_.recv[2]).get("session_id")
            src = [a for a in ac if sid == ("item", a.result, const_(1))]
            if not src:
                ok = False
                detail = f"a notification message carries session_id={show(sid)[:60]}, not an id handed out by assign_outgoing"
                break
            ids.append(src[0])
            if sc and src[0].args[:1] != (sc[0].arg(1, "remote"),):
                ok = False
                detail = f"id taken for {show(src[0].args[0]) if src[0].args else '?'} but the datagram goes to {show(sc[0].arg(1, 'remote'))}"
        if ok and len({id(a) for a in ids}) != len(builds):
            ok = False
            detail = f"{len(builds)} notification messages share {len({id(a) for a in ids})} session id(s): every message needs its own id"
        if ok and len(ac) != len(builds):
            ok = False
            detail = f"{len(ac)} id(s) consumed for {len(builds)} message(s) sent: ids are skipped (an id is taken although nothing is sent for it)"
        # ... and every id taken leaves: some datagram sent later on the path is built from it (an id that is taken and then
        # dropped - the message skipped, the buffer replaced - is a gap the subscriber sees).  A path on which a buffer that
        # holds a built message (>= 16 bytes) tests empty is no execution.
        from ..util import buffer_tests_feasible
        feasible = buffer_tests_feasible(p, build_q)
        if ok and feasible and not p.truncated:
            pos = {id(e): i for i, e in enumerate(p.events)}
            for a in ac:
                if not any(s_.args and pos[id(s_)] > pos[id(a)] and contains(s_.args[0], lambda t, r=a.result: t == r) for s_ in sc):
                    ok = False
                    detail = (f"the id taken at {a.loc} is in no datagram sent afterwards on this path ({len(sc)} sent): it is consumed "
                              "without a message - the next message to that subscriber skips an id")
                    break
        # ... in the step in which it was taken: an await between taking an id and handing the datagram that carries it to the
        # transport lets another notification round for the same subscriber take the next id and send first (ids leave out
        # of order)
        if ok and feasible and not p.truncated:
            for a in ac:
                carriers = [s_ for s_ in sc if s_.args and pos[id(s_)] > pos[id(a)] and contains(s_.args[0], lambda t, r=a.result: t == r)]
                if carriers:
                    gap = [e for e in p.events if e.kind == "await" and pos[id(a)] < pos[id(e)] < pos[id(carriers[0])]]
                    if gap:
                        ok = False
                        detail = (f"the coroutine suspends ({gap[0].loc}) between taking a session id ({a.loc}) and sending the datagram that carries it: "
                                  "a concurrent round for the same subscriber takes the next id and can reach the transport first")
                        break
        run.ob("Q3", f"{ns.qual}:one-id-per-message[{len(builds)} event(s)]", ok, loc(ns), detail)
    run.floor("Q3-notify-paths", checked, 2)

    # ------------------------------------------------------------------ Q5 who may send
    base_send = prog.lookup_method(BASE, "send")
    n_send = 0
    for f2, recv, e in scan.callers_of(base_send.qual):
        if recv is not None and not prog.is_subclass(recv, BASE) and f2.cls is not None and prog.is_subclass(f2.cls.qual, BASE):
            continue
        ty = eng.typer.type_of(e.recv) if e.recv is not None else None
        if not (ty and ty[0] == "cls" and prog.is_subclass(ty[1], PROTO)):
            continue
        n_send += 1
        ok = f2.qual == send_sd.qual
        run.ob("Q5", f"{f2.qual}:raw-send", ok, loc(f2, e.node),
               f"{f2.qual} transmits on the SD endpoint" + ("" if ok else " without going through send_sd (no session id accounting)"))
    run.floor("Q5", n_send, 1)
    n_raw = 0
    for f2, recv, e in scan.all():
        if e.kind == "call" and e.attrname in ("sendto", "write", "send") and e.recv is not None and e.recv[0] == "attr" and e.recv[2] == "transport":
            ty = eng.typer.type_of(e.recv[1])
            if ty and ty[0] == "cls" and prog.is_subclass(ty[1], BASE):
                n_raw += 1
                ok = f2.qual == base_send.qual
                run.ob("Q5", f"{f2.qual}:transport", ok, loc(f2, e.node),
                       f"{f2.qual} writes to the transport" + ("" if ok else " directly (bypasses send / send_sd)"))
    run.floor("Q5-transport", n_raw, 1)
    # the flag and id handed to SOMEIPSDHeader(..) / SOMEIPHeader(..) are the ones on the wire: the header copy made while
    # the option indexes are assigned keeps the flags, the writer puts them into the flags byte
    from .sdcodec import codec_keeps
    with run.part("Q6 flag on the wire"):
        codec_keeps(run, prog, tier, "Q6", ("SOMEIPSDHeader.assign_option_indexes:shared-array-collected", "SOMEIPSDHeader.build:flags-byte"),
                    "the reboot flag computed by assign_outgoing does not reach the wire")
    run.not_decided += ["thread interleavings of assign_outgoing (the lock is not part of the stated property)"]


def const_(v):
    return ("const", v)
