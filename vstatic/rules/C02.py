"""C02 - SD messages round-trip: every entry keeps exactly its own options.

L1/L3  writer and reader tables of SD entry, option header, every registered option body and the SD
       header agree with the SOME/IP-SD layout position by position (offset tables, transforms)
B1     a run count that does not fit its 4-bit field makes build() fail (bit-field obligation)
R1     option registry: distinct literal types, codec present, build writes its own type, v4/v6 triples
X1     index assignment / resolution duality (_assign_option, assign_option_index, resolve_options)
X2     soundness certificate of the sub-sequence search used for sharing
P1     send_sd / message_received use exactly this pipeline
Not decided: completeness of the search (how well options are shared).
"""
from __future__ import annotations

from .sdcodec import SD


def check(run, prog, tier):
    from . import model as _model
    _model.audit(run, prog, 'C02')
    run.explanation = (
        "Each codec pair is reduced to a writer layout term and a reader binding table and compared with the "
        "SOME/IP-SD layout per wire position; guards and framing are decided by evaluating the extracted path "
        "formulas at boundary points (all bounds linear in the decoded length/count fields).  Index assignment and "
        "resolution are shown dual structurally: resolve slices [index : index+count] of the shared array for the "
        "same run whose (index, count) assign stored; a non-shared run is appended and indexed by the length read "
        "before the append; a shared run is indexed by a search whose returned position is certified (linear index "
        "identity) to be a real occurrence.  With struct pack/unpack inverse on in-range values the round trip "
        "follows for every message; out-of-range values fail in pack (no field is masked), 16+ options per run "
        "must be rejected explicitly because two counts share one byte."
    )
    run.trusted += ["struct.pack raises struct.error for out-of-range integers", "struct pack/unpack are mutually inverse",
                    "list.extend appends in order; slicing semantics"]
    run.not_decided += ["completeness of the Boyer-Moore-Horspool search (a missed occurrence only costs bytes)"]
    sd = SD(run, prog)
    # independent rule groups: one that cannot be decided does not hide what another one establishes
    with run.part("entry writer"):
        sd.entry_writer("L1")
        sd.entry_bits("B1")
    with run.part("entry reader"):
        sd.entry_reader("L3", guards_rule="L3")
    with run.part("option header"):
        sd.option_header("L1")
    reg = sd.registry("R1")
    with run.part("option bodies"):
        sd.option_bodies("L3", reg)
        sd.unknown_option("L1")
    with run.part("configuration option"):
        sd.config_option("L1", "L3")
    with run.part("SD header writer"):
        sd.sd_header_writer("L1", flags_rule="L1")
    with run.part("SD header reader"):
        sd.sd_header_reader("L3", flags_rule="L3")
    with run.part("index assignment / resolution"):
        sd.resolve_assign("X1")
    with run.part("search certificate"):
        sd.find_certificate("X2")
    with run.part("send pipeline"):
        sd.pipeline("P1")
