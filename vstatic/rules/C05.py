"""C05 - discovery listeners see a truthful, strictly alternating service history.

A1  store mutation and its notification are one synchronous step (all TimedStore mutation sites)
A2  who-may-notify: service_offered only from the 'new entry' slot of found_services and the watch
    catch-up; service_stopped only from the 'expired' slot and the un-watch catch-up
A3  (un)registration and its catch-up notifications are one synchronous step
S3  reboot handling of a message precedes the handling of the offers in that same message
F1  the three places that relate a filter to a found service use the same predicate (matches_service)
R1  connection loss and StopOffer reach the store's removal (and hence 'stopped')
"""
from __future__ import annotations

from ..facts import AnalysisError
from ..terms import const, contains, show, strip_sites
from ..util import NoInline, P, calls_to, engine, implied_atoms, loc, param_at
from .derived import cache_coherence
from .ordering import (arming, cancel_on_removal, every_removal_reported, PROTO, TS, Ctx, atomic_notifications, expiry_once, reboot_before_entries, reject_before_record)

DISC = "sd.ServiceDiscover"
ME = ("self", DISC)
STORE = ("attr", ("attr", ME, "found_services"), "store")
OFFERED = "sd.ClientServiceListener.service_offered"
STOPPED = "sd.ClientServiceListener.service_stopped"


def check(run, prog, tier):
    from . import model as _model
    _model.audit(run, prog, 'C05')
    # the listener view is derived from the live store and filter tables
    cache_coherence(run, prog, "A4", ['sd.ServiceDiscover', 'sd.TimedStore'])
    run.explanation = (
        "The listener history equals the presence history of found_services.store at every instant iff every "
        "mutation of the store invokes the matching notification in the same synchronous step and nothing else "
        "invokes it (ATOMIC + who-may-notify).  Both are structural: a stored callback is either called directly "
        "or handed to call_soon.  Ordering of reboot handling against the offers of the same message is decided "
        "from deferral stamps (number of call_soon edges, program order) over the resolved call graph including "
        "the callbacks stored in the TimedStore; asyncio's FIFO ready queue makes the stamp order the execution "
        "order for every interleaving."
    )
    run.trusted += ["asyncio ready queue is FIFO; callbacks scheduled in an iteration run after all callbacks that were ready before",
                    "listener objects do not call back into the discovery during a notification"]
    run.not_decided += ["a listener registered under two overlapping filters receives two notifications per change (API question)"]
    cx = Ctx(run, prog)
    atomic_notifications(cx, "A1", "stopped")
    expiry_once(cx, "A1")
    # a stale TTL timer would report a live entry gone: cancel-on-replace and arming are part of truthfulness
    cancel_on_removal(cx, "T1")
    arming(cx, "T2")
    every_removal_reported(cx, "A1", owners={"found_services"})
    reject_before_record(cx, "A1")  # a new entry is announced exactly once, a refresh is silent

    # ------------------------------------------------------------------ A2 who may notify
    n_off = cx.m(DISC, "_notify_service_offered")
    n_stp = cx.m(DISC, "_notify_service_stopped")
    allowed = {
        OFFERED: {n_off.qual, f"{DISC}.watch_service", f"{DISC}.watch_all_services"},
        STOPPED: {n_stp.qual, f"{DISC}.stop_watch_service", f"{DISC}.stop_watch_all_services"},
    }
    count = 0
    for iface, ok_callers in allowed.items():
        for fi, recv, e in cx.scan.callers_of(iface):
            if fi.cls is not None and fi.cls.qual in ("sd.ClientServiceListener", "sd.AutoSubscribeServiceListener"):
                continue
            count += 1
            run.ob("A2", f"{fi.qual}:calls-{iface.split('.')[-1]}", fi.qual in ok_callers, loc(fi, e.node),
                   f"{fi.qual} invokes listener.{iface.split('.')[-1]}" + ("" if fi.qual in ok_callers else
                   " - only the store's 'new'/'expired' slot and the (un)watch catch-up may, otherwise the listener history diverges from the store"))
    run.floor("A2", count, 6)
    # the two notifier methods are used only as the store's slots
    for fn, slot in ((n_off, "callback_new"), (n_stp, "callback_expired")):
        users = cx.scan.callers_of(fn.qual)
        run.ob("A2", f"{fn.qual}:only-as-{slot}", not users, loc(fn),
               f"{fn.name} is never called or scheduled directly" if not users else f"{users[0][0].qual} calls/schedules {fn.name} directly")
        refs = 0
        good = 0
        refresh = cx.m(TS, "refresh")
        names = refresh.params()[1:]
        for fi, e in cx.slots.refresh_sites:
            if e.recv == ("attr", ("self", DISC), "found_services"):
                refs += 1
                a = e.arg(names.index(slot), slot)
                if a == ("bound", ("self", DISC), fn.qual):
                    good += 1
        run.ob("A2", f"{fn.qual}:bound-to-{slot}", refs >= 1 and good == refs, loc(fn),
               f"found_services.refresh() passes {fn.name} as {slot} at {good}/{refs} site(s)")
    # no other function mentions the notifier as a value (e.g. passes it to call_soon)
    for fn in (n_off, n_stp):
        leaks = []
        for fi, recv, e in cx.scan.all():
            if e.kind == "call" and fi.qual != f"{DISC}.service_offered":
                for a in list(e.args) + list(e.cbargs) + ([e.cb] if e.cb else []):
                    if contains(a, lambda s: s[0] == "bound" and s[-1] == fn.qual):
                        leaks.append(fi.qual)
        run.ob("A2", f"{fn.qual}:not-passed-elsewhere", not leaks, loc(fn), f"passed around by {sorted(set(leaks))}" if leaks else "not handed to any other call")

    # ------------------------------------------------------------------ A3 registration atomicity
    waves = {}
    for name, kind in (("watch_service", "offered"), ("watch_all_services", "offered"),
                       ("stop_watch_service", "stopped"), ("stop_watch_all_services", "stopped")):
        fi = cx.m(DISC, name)
        effs = cx.effects(fi.qual, DISC)
        notes = [e for e in effs if e.kind == "notify"]
        regs = [e for e in effs if e.kind == "state" and e.what[0] == DISC and e.what[1] in ("watched_services", "watcher_all_services")]
        wrong = [e for e in notes if e.what != kind]
        if not notes or not regs or wrong:
            run.ob("A3", f"{fi.qual}:catch-up", False, loc(fi),
                   f"{len(notes)} catch-up notification(s), {len(regs)} registration change(s), unexpected kinds {[e.what for e in wrong]}")
            continue
        waves[name] = max(e.wave for e in notes)
        if name.startswith("watch"):
            late = [e for e in notes if e.wave > 0]
            run.ob("A3", f"{fi.qual}:catch-up-in-same-step", not late, loc(fi),
                   f"registers the listener and tells it '{kind}' for every matching found service in the same synchronous step" if not late else
                   (f"the listener is registered now but its catch-up '{kind}' notifications are deferred (+{late[0].wave} iteration): a StopOffer already "
                    "queued for this iteration is delivered to the new listener first ('stopped'), then the stale deferred 'offered' arrives - the "
                    "listener ends 'offered' for a service that is gone"))
        # the catch-up addresses exactly the listener being (un)registered
        lp = P(fi, fi.params()[-1])
        okl = all(e.ev.recv == lp or (e.detail is None and e.chain and e.chain[-1] in (OFFERED, STOPPED)) for e in notes)
        run.ob("A3", f"{fi.qual}:catch-up-only-for-this-listener", okl, loc(fi), "catch-up notifications go to the listener passed in")
    for un, w in (("stop_watch_service", "watch_service"), ("stop_watch_all_services", "watch_all_services")):
        if un in waves and w in waves:
            ok = waves[un] <= waves[w]
            run.ob("A3", f"{DISC}.{un}:not-later-than-{w}", ok, loc(cx.m(DISC, un)),
                   f"un-watch 'stopped' is delivered +{waves[un]} iteration(s) after the call, a following watch's 'offered' +{waves[w]}"
                   + ("" if ok else ": un-watch followed by watch in one iteration delivers 'offered' before the stale 'stopped'"))

    # ------------------------------------------------------------------ S3 ordering
    reboot_before_entries(cx, "S3", "discovery")

    # ------------------------------------------------------------------ F1 filter agreement
    ms = cx.m("config.Service", "matches_service").qual
    for name in ("_notify_service_offered", "_notify_service_stopped", "watch_service", "stop_watch_service"):
        fi = cx.m(DISC, name)
        evs = cx.scan.events(fi.qual)
        preds = [e for e in evs if e.kind == "call" and e.targets and e.targets[0].cls is not None and e.targets[0].cls.qual == "config.Service"
                 and e.targets[0].name.startswith("matches_")]
        ok = bool(preds) and all(e.targets[0].qual == ms for e in preds)
        run.ob("F1", f"{fi.qual}:filter-predicate", ok, loc(fi),
               "relates filter and found service with Service.matches_service" if ok else
               f"uses {[e.targets[0].name for e in preds] or 'no matching predicate'}; the notify / catch-up / found paths must agree on matches_service")

    # ------------------------------------------------------------------ K1 what "the same service instance" means
    # found services are keyed by the Service built from the offer: two offers of one instance (same ids and versions) must
    # hit the same record whatever options they carry, or the second one is announced as a new service while the first lives
    SVC_ = "config.Service"
    cmpf = {f.name for f in prog.all_fields(SVC_) if f.compare}
    must = {"service_id", "instance_id", "major_version", "minor_version"}
    okk = must <= cmpf and not (cmpf & {"options_1", "options_2"}) and prog.cls(SVC_).dataclass_frozen
    run.ob("K1", f"{SVC_}:identity-fields", okk, loc(cx.m(SVC_, "from_offer_entry"), prog.cls(SVC_).node),
           f"service descriptions compare (and hash) by {sorted(cmpf)}" + ("" if okk else
           "; identity must be the ids and versions and must not include the options (frozen, hashable): a re-offer with other options would be a second record"))

    # ------------------------------------------------------------------ F2 fan-out completeness and arguments
    fanout(run, prog, cx, n_off, n_stp)

    # ------------------------------------------------------------------ R1 reachability
    cl = cx.m(DISC, "connection_lost")
    effs = cx.effects(cl.qual, DISC)
    stops = [e for e in effs if e.kind == "notify" and e.what == "stopped"]
    rem = [e for e in effs if e.kind == "state" and e.what[0] == TS and e.what[2] == "-"]
    run.ob("R1", f"{cl.qual}:drops-everything", bool(stops) and bool(rem) and all(e.wave == 0 for e in stops), loc(cl),
           f"connection loss removes all found services ({len(rem)} removal site(s)) and reports them stopped ({len(stops)} site(s))")
    # ... and the loss of the transport reaches it: adapter -> protocol -> discovery
    pcl = cx.m(PROTO, "connection_lost")
    effs = cx.effects(pcl.qual, PROTO)
    stops = [e for e in effs if e.kind == "notify" and e.what == "stopped"]
    run.ob("R1", f"{pcl.qual}:reaches-stopped", bool(stops), loc(pcl),
           f"connection loss at the SD endpoint reaches service_stopped ({len(stops)} site(s), +{min((e.wave for e in stops), default=0)} iteration(s))"
           if stops else "BROKEN LINK: connection loss at the SD endpoint never reaches the discovery's found services")
    ad = cx.m("sd.DatagramProtocolAdapter", "connection_lost")
    fwd = [e for e in cx.scan.events(ad.qual) if e.kind == "call" and e.attrname == "connection_lost" and e.recv == ("attr", ("self", "sd.DatagramProtocolAdapter"), "protocol") and not e.sched]
    run.ob("R1", f"{ad.qual}:forwards-to-protocol", len(fwd) == 1, loc(ad), "the transport adapter hands connection_lost to its protocol")
    ho = cx.m(DISC, "handle_offer")
    eng = engine(prog, NoInline())
    ent = P(ho, param_at(ho, 0, "entry"))
    seen = set()
    for p in eng.paths(ho, recv=DISC):
        run.paths += 1
        d = [v for c, v, _, _ in p.conds if strip_sites(c) == ("cmp", "==", ("attr", ent, "ttl"), const(0))]
        so = calls_to(p, cx.m(DISC, "service_offered").qual)
        ss = calls_to(p, cx.m(DISC, "service_offer_stopped").qual)
        if d:
            seen.add(d[0])
            if not d[0] and not so and not ss:
                continue  # an Offer nobody watches is ignored (the watch gate; who is told what is F1 / F2)
            ok = (len(ss) == 1 and not so) if d[0] else (len(so) == 1 and not ss)
            run.ob("R1", f"{ho.qual}:{'stop-offer' if d[0] else 'offer'}", ok, loc(ho),
                   f"TTL {'==' if d[0] else '!='} 0 leads to {'service_offer_stopped' if ss else 'service_offered' if so else 'nothing'}")
    run.ob("R1", f"{ho.qual}:ttl-decides", seen == {True, False}, loc(ho), "an Offer with TTL 0 is a StopOffer, any other TTL an Offer")
    reaches = any(calls_to(p, cx.m(DISC, "service_offered").qual) for p in eng.paths(ho, recv=DISC))
    run.ob("R1", f"{ho.qual}:offer-reaches-the-store", reaches, loc(ho), "an Offer (TTL != 0) that is watched for is handed to service_offered")
    # a withdrawal must reach the store whatever else is the case (who is watching right now, ...): the stored offer may
    # stem from a listener that has left, and the next listener's catch-up would report an offer its source has withdrawn
    dropped = None
    for p in eng.paths(ho, recv=DISC):
        if not p.returns():
            continue
        is_stop = [v for c, v in implied_atoms(p.conds) if strip_sites(c) == ("cmp", "==", ("attr", ent, "ttl"), const(0))]
        if calls_to(p, cx.m(DISC, "service_offer_stopped").qual) or is_stop == [False]:
            continue
        dropped = " and ".join(("" if v else "not ") + show(c)[:60] for c, v, _, _ in p.conds) or "always"
    run.ob("R1", f"{ho.qual}:stop-offer-always-reaches-the-store", dropped is None, loc(ho),
           "every path that does not withdraw has established TTL != 0" if dropped is None else
           f"a StopOffer is dropped when {dropped}: the withdrawn offer stays in found_services and a listener that registers "
           "later is told 'offered' for it")
    for name, callee in (("service_offer_stopped", "stop"), ("service_offered", "refresh")):
        fi = cx.m(DISC, name)
        tgt = cx.m(TS, callee).qual
        okc = False
        for p in eng.paths(fi, recv=DISC):
            cs = calls_to(p, tgt)
            if cs and cs[0].recv == ("attr", ("self", DISC), "found_services"):
                a = cs[0].args
                addr = P(fi, param_at(fi, 0, "addr"))
                svc_ok = any(x[0] == "call" and x[1][0] == "bound" and x[1][2].endswith("from_offer_entry") for x in a)
                okc = addr in a and svc_ok
        run.ob("R1", f"{fi.qual}:keyed-by-source-and-service", okc, loc(fi), f"found_services.{callee}() is keyed by (source address, Service.from_offer_entry(entry))")
        # ... and that is all an Offer / StopOffer does to the store: what one source says never touches what was learnt from
        # another one ("for each pair of service instance and source address")
        other = None
        for p in eng.paths(fi, recv=DISC):
            for e in p.events:
                if e.kind == "call" and e.targets and e.targets[0].cls is not None and e.targets[0].cls.qual == TS \
                        and e.recv == ("attr", ("self", DISC), "found_services") and e.targets[0].qual != tgt:
                    other = other or e
        run.ob("R1", f"{fi.qual}:touches-only-the-sender's-record", other is None, loc(fi, other.node if other is not None else None),
               f"the only store operation is found_services.{callee}(source, service)" if other is None else
               f"{fi.name} also calls found_services.{other.targets[0].name}(...), which is not limited to the record of the sending source: "
               "a (Stop)Offer from one host changes what is known about the same service at another host")


def _unwrap(tm):
    """look through snapshot / conversion wrappers: list(x), tuple(x), set(x), frozenset(x), sorted(x), iter(x)"""
    while tm[0] == "call" and tm[1][0] == "ext" and tm[1][1] in ("list", "tuple", "set", "frozenset", "sorted", "iter", "reversed") \
            and len(tm[2]) == 1:
        tm = tm[2][0]
    return tm


def _elem_of(tm):
    return _unwrap(tm[1]) if tm[0] == "elem" else None


def _pair_from_store(a_service, a_addr):
    """is (a_service, a_addr) one found service together with the address it is stored under?
    True / False / None (derived from the store in a shape this rule does not know)"""
    s0, a0 = strip_sites(a_service), strip_sites(a_addr)
    store = strip_sites(STORE)
    # for addr, services in store.items(): for s in services
    if a0[0] == "item" and a0[2] == const(0) and a0[1][0] == "elem":
        it = _unwrap(a0[1][1])
        if it[0] == "call" and it[1] == ("attr", store, "items"):
            inner = _elem_of(s0)
            return inner == ("item", a0[1], const(1))
    # for addr in store [.keys()]: for s in store[addr]
    it = _elem_of(a0)
    if it is not None and (it == store or (it[0] == "call" and it[1] == ("attr", store, "keys"))):
        inner = _elem_of(s0)
        return inner == ("item", store, a0)
    if contains(a0, lambda x: x == store) and contains(s0, lambda x: x == store):
        return None
    return False  # one of the two does not come from the store at all


def fanout(run, prog, cx, n_off, n_stp):
    """every interested listener is told, about the right (service, source) pair:
    * the store's notifier slots reach the listeners of every matching filter AND the watch-all listeners, with
      exactly the (service, source) they were called with;
    * the (un)watch catch-up reports each found service together with the address it is stored under."""
    run_ = run
    eng = engine(prog, NoInline())
    eng.policy.unroll = 1
    ms = cx.m("config.Service", "matches_service").qual
    for fn, kind in ((n_off, "service_offered"), (n_stp, "service_stopped")):
        svc, src = P(fn, param_at(fn, 0, "service")), P(fn, param_at(fn, 1, "source"))
        paths = eng.paths(fn, recv=DISC)
        run_.paths += len(paths)
        full = False
        bad_args = None
        unmatched = None
        for p in paths:
            notes = [e for e in p.events if e.kind == "call" and e.attrname == kind and not e.sched]
            matched = [c[1][1] for c, v in implied_atoms(p.conds)
                       if v and c[0] == "call" and c[1][0] == "bound" and c[1][2] == ms and len(c[2]) == 1 and c[2][0] == svc]
            kinds = set()
            for e in notes:
                if tuple(e.args) != (svc, src) or e.kwargs:
                    bad_args = bad_args or f"listener.{kind}({', '.join(show(a)[:40] for a in e.args)})"
                if contains(e.recv, lambda x: x == ("attr", ME, "watcher_all_services")):
                    kinds.add("all")
                elif contains(e.recv, lambda x: x == ("attr", ME, "watched_services")):
                    kinds.add("filtered")
                    # the listener set must belong to a filter that matched on this path
                    if not any(contains(e.recv, lambda x, f=f: x == (f[1] if f[0] == "item" else f)) for f in matched):
                        unmatched = unmatched or show(e.recv)[:80]
                else:
                    kinds.add("other")
            if kinds >= {"all", "filtered"}:
                full = True
        q = fn.qual
        run_.ob("F2", f"{q}:reaches-filtered-and-watch-all-listeners", full, loc(fn),
                "a store change is reported to the listeners of every matching filter and to the watch-all listeners" if full else
                f"no path of {fn.name} notifies both the listeners of a matching filter and the watch-all listeners: registered listeners "
                "never hear about a live offer matching their filter")
        run_.ob("F2", f"{q}:passes-service-and-source", bad_args is None, loc(fn),
                "listeners are told the (service, source) pair the store reported" if bad_args is None else
                f"{bad_args}: the notification must carry the service and the source address the store reported (histories are per service and source)")
        run_.ob("F2", f"{q}:only-matching-filters", unmatched is None, loc(fn),
                "listeners of a filter are notified only when the filter matches the service" if unmatched is None else
                f"{unmatched} is notified without its filter having matched")
    for name, kind, filtered in (("watch_service", "service_offered", True), ("stop_watch_service", "service_stopped", True),
                                 ("watch_all_services", "service_offered", False), ("stop_watch_all_services", "service_stopped", False)):
        fi = cx.m(DISC, name)
        paths = eng.paths(fi, recv=DISC)
        run_.paths += len(paths)
        verdict = []
        guarded = True
        for p in paths:
            for e in p.events:
                if e.kind == "call" and e.attrname == kind and not e.sched and len(e.args) == 2:
                    r = _pair_from_store(e.args[0], e.args[1])
                    if r is None:
                        raise AnalysisError(f"{fi.qual}: cannot relate the catch-up arguments ({show(e.args[0])[:60]}, {show(e.args[1])[:60]}) to found_services.store")
                    verdict.append(r)
                    if filtered:
                        flt = P(fi, param_at(fi, 0, "service"))
                        if not any(v and c[0] == "call" and c[1][0] == "bound" and c[1][2] == ms and c[1][1] == flt and tuple(c[2]) == (e.args[0],)
                                   for c, v in implied_atoms(p.conds)):
                            guarded = False
        if not verdict:
            continue  # reported by A3
        run_.ob("F2", f"{fi.qual}:catch-up-reports-stored-pairs", all(verdict), loc(fi),
                "the catch-up reports every found service together with the address it is stored under" if all(verdict) else
                "the catch-up notification does not carry (found service, the address it is stored under)")
        if filtered:
            run_.ob("F2", f"{fi.qual}:catch-up-only-for-matching-services", guarded, loc(fi),
                    "only services matching the listener's filter are reported" if guarded else
                    "a found service is reported to the listener without its filter having matched it")
