"""C10 - offer lifecycle: wait, repetition and cyclic phases; nothing follows a StopOffer.

O1  phase shape of the offer task: initial wait drawn from the configured window, one multicast offer,
    REPETITIONS_MAX repetitions at 2**i * base delay, then (if cyclic) offers every CYCLIC_OFFER_DELAY; every
    offer carries ANNOUNCE_TTL and the service's own entry; a cancel during the initial wait sends nothing
O2  exactly one StopOffer (TTL 0) per stop after the first offer: the task's cleanup and stop() are guarded
    by complementary tests of the same configuration value
O3  typestate: whoever clears the running state also clears the 'may answer finds' flag in the same step;
    the flag is set only by the task after its first offer
O4  a deferred offer (call_soon / call_later target) re-checks the running state when it finally runs
O5  stopping is idempotent: every call of ServiceInstance.stop is guarded by the announcer's started flag
O6  the simple-service helper hands stop_announce_service the instance it started
"""
from __future__ import annotations

from ..absint import eval_term
from ..facts import AnalysisError
from ..terms import const, contains, is_const, show, strip_sites, subterms
from ..util import InlineOnly, NoInline, P, Scan, calls_to, engine, loc, param_at, sched_targets

INST = "sd.ServiceInstance"
ANN = "sd.ServiceAnnouncer"

TIMING_VALUES = {"INITIAL_DELAY_MIN": 101, "INITIAL_DELAY_MAX": 103, "REPETITIONS_BASE_DELAY": 7, "CYCLIC_OFFER_DELAY": 11,
                 "ANNOUNCE_TTL": 13, "REQUEST_RESPONSE_DELAY_MIN": 17, "REQUEST_RESPONSE_DELAY_MAX": 19,
                 "SUBSCRIBE_TTL": 23, "SUBSCRIBE_REFRESH_INTERVAL": 29, "FIND_TTL": 31, "SEND_COLLECTION_TIMEOUT": 37, "REPETITIONS_MAX": 2}


# further valuations in which the relative order of the constants is different: an expression such as
# min(2**i * base, FIND_TTL) agrees with 2**i * base under one assignment of magnitudes but not under all
TIMING_VALUATIONS = [
    dict(TIMING_VALUES),
    # everything tiny except the repetition base delay (caps by a TTL or another period become visible)
    {"INITIAL_DELAY_MIN": 0.019, "INITIAL_DELAY_MAX": 0.023, "REPETITIONS_BASE_DELAY": 5003, "CYCLIC_OFFER_DELAY": 0.007, "ANNOUNCE_TTL": 0.013,
     "REQUEST_RESPONSE_DELAY_MIN": 0.037, "REQUEST_RESPONSE_DELAY_MAX": 0.041, "SUBSCRIBE_TTL": 0.047, "SUBSCRIBE_REFRESH_INTERVAL": 0.043,
     "FIND_TTL": 0.011, "SEND_COLLECTION_TIMEOUT": 0.053, "REPETITIONS_MAX": 2},
    # periods huge, TTLs tiny
    {"INITIAL_DELAY_MIN": 6007, "INITIAL_DELAY_MAX": 7001, "REPETITIONS_BASE_DELAY": 0.5, "CYCLIC_OFFER_DELAY": 4001, "ANNOUNCE_TTL": 0.25,
     "REQUEST_RESPONSE_DELAY_MIN": 2003, "REQUEST_RESPONSE_DELAY_MAX": 2011, "SUBSCRIBE_TTL": 0.125, "SUBSCRIBE_REFRESH_INTERVAL": 10007,
     "FIND_TTL": 0.0625, "SEND_COLLECTION_TIMEOUT": 1009, "REPETITIONS_MAX": 2},
]


class Uniform(tuple):
    """the value of random.uniform(lo, hi): ("uniform", lo, hi).  Arithmetic moves the window (the result is then no longer
    the configured window); a comparison is decided when both ends agree and is otherwise a decision on a random value."""

    def __new__(cls, lo, hi):
        return tuple.__new__(cls, ("uniform", lo, hi))

    def _map(self, f, flip=False):
        a, b = f(self[1]), f(self[2])
        return Uniform(b, a) if flip else Uniform(a, b)

    def _num(self, o):
        if isinstance(o, Uniform) or not isinstance(o, (int, float)):
            raise AnalysisError(f"arithmetic of a random delay with {o!r}")
        return o

    def __add__(self, o):
        o = self._num(o)
        return self._map(lambda x: x + o)
    __radd__ = __add__

    def __sub__(self, o):
        o = self._num(o)
        return self._map(lambda x: x - o)

    def __rsub__(self, o):
        o = self._num(o)
        return self._map(lambda x: o - x, flip=True)

    def __mul__(self, o):
        o = self._num(o)
        return self._map(lambda x: x * o, flip=o < 0)
    __rmul__ = __mul__

    def __truediv__(self, o):
        o = self._num(o)
        return self._map(lambda x: x / o, flip=o < 0)

    def _cmp(self, o, op):
        o = self._num(o)
        a, b = op(self[1], o), op(self[2], o)
        if a != b:
            raise AnalysisError(f"a decision depends on where in its window ({self[1]}, {self[2]}) a random delay falls (compared with {o})")
        return a

    def __lt__(self, o):
        return self._cmp(o, lambda x, y: x < y)

    def __le__(self, o):
        return self._cmp(o, lambda x, y: x <= y)

    def __gt__(self, o):
        return self._cmp(o, lambda x, y: x > y)

    def __ge__(self, o):
        return self._cmp(o, lambda x, y: x >= y)

    __hash__ = tuple.__hash__


def timing_leaf(owner_self, overrides=None, extra=None, valuation=None):
    vals = dict(valuation if valuation is not None else TIMING_VALUES)
    vals.update(overrides or {})

    def leaf(tm):
        if tm[0] == "attr" and tm[1] == ("attr", owner_self, "timings") and tm[2] in vals:
            return vals[tm[2]]
        if tm[0] == "elem" and tm[1][0] == "call" and tm[1][1] == ("ext", "range"):
            return tm[3]
        if tm[0] == "call" and tm[1] == ("ext", "random.uniform") and len(tm[2]) == 2:
            return Uniform(eval_term(tm[2][0], leaf), eval_term(tm[2][1], leaf))
        if extra is not None:
            r = extra(tm)
            if r is not None:
                return r[0]
        raise AnalysisError(f"timing expression depends on {show(tm)}")
    return leaf


def sleep_arg(e):
    """argument of `await asyncio.sleep(x)` for an await event, else None"""
    v = e.value
    if v is not None and v[0] == "call" and v[1] == ("ext", "asyncio.sleep") and v[2]:
        return v[2][0]
    return None


def offer_sends(p, send_offer_q):
    return [e for e in p.events if e.kind == "call" and any(f.qual == send_offer_q for f in e.targets) and not e.sched]


def is_stop_offer(e, fi):
    """_send_offer call with stop=True"""
    names = fi.params()[1:]
    a = e.arg(names.index("stop") if "stop" in names else 99, "stop")
    return a == const(True)


def check(run, prog, tier):
    from . import model as _model
    _model.audit(run, prog, 'C10')
    run.explanation = (
        "The offer task is a small coroutine: all its paths are enumerated with a CancelledError injected at every "
        "await (that is how stop() ends it); the ordered sequence of sleeps and offers on each path is compared "
        "with the phase model, delays are compared by evaluating the sleep arguments with distinct prime values "
        "for each timing constant (robust against algebraic rewrites).  StopOffer sites are counted per path and "
        "per configuration.  The running/can-answer typestate, the re-check of deferred offers and the guards of "
        "every stop call are path facts of the resolved program."
    )
    run.trusted += ["Task.cancel() raises CancelledError inside the coroutine at its current await",
                    "asyncio.sleep(t) and random.uniform(a, b) honour their arguments"]
    run.not_decided += ["numeric delays actually elapsed; that uniform() stays inside its window"]
    ot = prog.lookup_method(INST, "_offer_task")
    so = prog.lookup_method(INST, "_send_offer")
    stop = prog.lookup_method(INST, "stop")
    start = prog.lookup_method(INST, "start")
    if not all((ot, so, stop, start)):
        raise AnalysisError(f"{INST}: _offer_task / _send_offer / start / stop vanished")
    run.analysed(ot, so, stop, start)
    me = ("self", INST)

    # ================================================================== O1 / O2 task shape
    pol = InlineOnly(names=(), props=False, max_depth=0, unroll=3 if tier == "thorough" else 2, cancel=True)
    eng = engine(prog, pol)
    paths = eng.paths(ot, recv=INST)
    run.paths += len(paths)
    leaf_c = timing_leaf(me)
    n_checked = 0
    problems = {}

    def note(key, msg):
        problems.setdefault(key, msg)

    for V, cyc in [(V_, c_) for V_ in TIMING_VALUATIONS for c_ in (V_["CYCLIC_OFFER_DELAY"], 0)]:
        leaf = timing_leaf(me, {"CYCLIC_OFFER_DELAY": cyc}, valuation=V)
        BASE, IMIN, IMAX = V["REPETITIONS_BASE_DELAY"], V["INITIAL_DELAY_MIN"], V["INITIAL_DELAY_MAX"]
        for p in paths:
            try:
                # (what the task is handed by whoever starts it is an input: decisions on its parameters are taken both ways)
                if not all(bool(eval_term(c, leaf)) == v for c, v, _, _ in p.conds if not contains(c, lambda s: s[0] == "attr" and s[2] == "ANNOUNCE_TTL")
                           and not contains(c, lambda s: s[0] == "param" and s[1] == ot.qual)):
                    continue
            except AnalysisError:
                continue
            n_checked += 1
            seq = []  # ('sleep', value) | ('offer', stop?) | ('cancel',) | ('flag', v)
            cancelled_at = None
            for e in p.events:
                if e.kind == "await":
                    a = sleep_arg(e)
                    if a is None:
                        note("O1:unexpected-await", f"the task awaits {show(e.value)[:60]}")
                        continue
                    try:
                        seq.append(("sleep", eval_term(a, leaf)))
                    except AnalysisError:
                        if not contains(a, lambda s: s[0] == "param" and s[1] == ot.qual):
                            raise
                        seq.append(("sleep", f"<{show(a)[:60]}: chosen by the caller>"))
                    if e.raised:
                        seq.append(("cancel",))
                        cancelled_at = len([s for s in seq if s[0] == "sleep"])
                elif e.kind == "call" and any(f.qual == so.qual for f in e.targets):
                    seq.append(("offer", is_stop_offer(e, so), e))
                elif e.kind == "store" and e.attrname == "_can_answer_offers":
                    seq.append(("flag", e.value))
            sleeps = [s[1] for s in seq if s[0] == "sleep"]
            offers = [s for s in seq if s[0] == "offer"]
            normal = [s for s in offers if not s[1]]
            stops = [s for s in offers if s[1]]
            # --- phase model
            reps = [s for s in sleeps[1:]]
            # repetition sleeps first, cyclic sleeps afterwards
            k = 0
            while k < len(reps) and k < V["REPETITIONS_MAX"] and reps[k] == (2 ** k) * BASE:
                k += 1
            tail = reps[k:]
            if sleeps and sleeps[0] != ("uniform", IMIN, IMAX):
                note("O1:initial-delay", f"first wait is {sleeps[0]!r} for window ({IMIN}, {IMAX}); must be uniform(INITIAL_DELAY_MIN, INITIAL_DELAY_MAX)")
            if any(t_ != cyc for t_ in tail):
                note("O1:phase-delays", f"waits after the initial one are {reps} with base delay {BASE}, cyclic period {cyc}, TTL {V['ANNOUNCE_TTL']}: "
                     "expected 2**i*base repetitions, then the cyclic period")
            if tail and not cyc:
                note("O1:non-cyclic-goes-on", "a non-cyclic instance keeps offering after the repetition phase")
            # each completed sleep is followed by exactly one offer before the next sleep; no offer before the first sleep
            idx = 0
            pending = False
            first_sleep_seen = False
            for s_ in seq:
                if s_[0] == "sleep":
                    if pending:
                        note("O1:offer-per-wait", "a wait completes without an offer being sent before the next wait")
                    pending = True
                    first_sleep_seen = True
                elif s_[0] == "cancel":
                    pending = False
                elif s_[0] == "offer" and not s_[1]:
                    if not first_sleep_seen:
                        note("O1:offer-before-initial-wait", "an offer is sent before the initial wait")
                    if not pending:
                        note("O1:offer-per-wait", "more than one offer per wait")
                    pending = False
            # normal offers: multicast, not stop
            for s_ in normal:
                e = s_[2]
                if e.args or [k_ for k_, _ in e.kwargs if k_ != "stop"]:
                    note("O1:offer-destination", f"phase offers must go to the multicast group (no remote); got {[show(a) for a in e.args]} {e.kwargs}")
            # --- StopOffer accounting on this path
            had_offer_before_cancel = bool(normal)
            if cancelled_at is not None:
                exp_stops = 1 if (cyc and had_offer_before_cancel) else 0
                if len(stops) != exp_stops:
                    note(f"O2:task-cleanup[{'cyclic' if cyc else 'non-cyclic'},{'after' if had_offer_before_cancel else 'before'}-first-offer]",
                         f"task cancelled {'after' if had_offer_before_cancel else 'before'} its first offer, cyclic={bool(cyc)}: {len(stops)} StopOffer(s) sent by the task's cleanup, expected {exp_stops}")
                flags = [s_[1] for s_ in seq if s_[0] == "flag"]
                if had_offer_before_cancel and (not flags or flags[-1] != const(False)):
                    note("O3:flag-cleared-on-cancel", "the cancelled task does not clear the may-answer flag")
            else:
                if stops and not p.truncated and not cyc:
                    note("O2:task-cleanup[non-cyclic-natural-end]", "a non-cyclic task sends a StopOffer when its repetition phase ends")
                if cyc and not p.truncated and (p.returns() or p.outcome[0] == "fall") and not getattr(p, "swallowed", None):
                    # (decisions on ANNOUNCE_TTL are free: whatever the TTL, infinite included, a cyclic instance keeps offering)
                    note("O1:cyclic-task-never-ends", f"with a cyclic period ({cyc}) the offer task ends on its own after {len(normal)} offer(s)"
                         + (f" and sends {len(stops)} StopOffer(s) while the instance is still running" if stops else "") +
                         ": offers stop although the instance was not stopped")
            # may-answer flag set only after the first offer
            seen_offer = False
            for s_ in seq:
                if s_[0] == "offer" and not s_[1]:
                    seen_offer = True
                if s_[0] == "flag" and s_[1] == const(True) and not seen_offer:
                    note("O3:flag-set-before-first-offer", "finds may be answered before the first offer was sent (initial wait phase)")
    run.floor("O1-paths", n_checked, 12)
    for key in ("O1:initial-delay", "O1:phase-delays", "O1:non-cyclic-goes-on", "O1:offer-per-wait", "O1:offer-before-initial-wait",
                "O1:offer-destination", "O1:unexpected-await", "O1:cyclic-task-never-ends"):
        run.ob("O1", f"{ot.qual}:{key[3:]}", key not in problems, loc(ot), problems.get(key, "holds on every enumerated path (with cancellation at every await)"))
    for key in sorted(k for k in problems if k.startswith("O2:")):
        run.ob("O2", f"{ot.qual}:{key[3:]}", False, loc(ot), problems[key])
    if not any(k.startswith("O2:") for k in problems):
        run.ob("O2", f"{ot.qual}:task-cleanup", True, loc(ot), "cancelled after the first offer: exactly one StopOffer iff cyclic; before the first offer or at the natural end: none")
    for key in ("O3:flag-cleared-on-cancel", "O3:flag-set-before-first-offer"):
        run.ob("O3", f"{ot.qual}:{key[3:]}", key not in problems, loc(ot), problems.get(key, "holds on every enumerated path"))
    # there must be a repetition phase bounded by REPETITIONS_MAX
    rep_ok = False
    for p in paths:
        for e in p.events:
            if e.kind == "await" and sleep_arg(e) is not None:
                for s_ in subterms(sleep_arg(e)):
                    if s_[0] == "elem" and strip_sites(s_[1]) == ("call", ("ext", "range"), (("attr", ("attr", me, "timings"), "REPETITIONS_MAX"),), ()):
                        rep_ok = True
    run.ob("O1", f"{ot.qual}:repetitions-bounded-by-REPETITIONS_MAX", rep_ok, loc(ot), "the repetition phase iterates range(REPETITIONS_MAX)")

    # ---- the offer entry: ANNOUNCE_TTL (or 0 for stop) of the instance's own service, to the given remote
    e1 = engine(prog, InlineOnly(names=(), props=False, max_depth=0))
    qs = prog.lookup_method(ANN, "queue_send")
    rem = P(so, "remote")
    for stopv in (False, True):
        ps = e1.paths(so, recv=INST, args=(), kwargs=(("stop", const(stopv)),), depth=1)
        run.paths += len(ps)
        # the instance is running while the task (or stop()) sends: select those paths
        sel = []
        for running in ((True,) if not stopv else (True, False)):
            task_val = object() if running else None

            def leaf_r(tm, task_val=task_val, running=running):
                if tm == ("attr", me, "_task"):
                    return task_val
                if tm == ("attr", me, "_can_answer_offers"):
                    return running
                if tm == P(so, "stop"):
                    return stopv
                raise AnalysisError(f"{so.qual}: decision depends on {show(tm)}")
            hits = [p for p in ps if all(bool(eval_term(c, leaf_r)) == v for c, v, _, _ in p.conds)]
            if len(hits) != 1:
                raise AnalysisError(f"{so.qual}: {len(hits)} paths for stop={stopv} running={running}")
            sel.append(hits[0])
        for p in sel:
            q = calls_to(p, qs.qual)
            ok = len(q) == 1 and p.returns()
            msg = f"{len(q)} queue_send call(s)"
            if ok:
                ent = q[0].args[0] if q[0].args else None
                want_ttl = const(0) if stopv else ("attr", ("attr", me, "timings"), "ANNOUNCE_TTL")
                ok = ent is not None and ent[0] == "call" and ent[1][0] == "bound" and ent[1][1] == ("attr", me, "service") \
                    and ent[1][2].endswith("create_offer_entry") and (ent[2] == (want_ttl,) or dict(ent[3]).get("ttl") == want_ttl)
                msg = f"queues {show(ent)[:90]}"
                if ok:
                    r = q[0].arg(1, "remote")
                    ok = r is not None and r[0] in ("param",) or r == const(None)
                    msg += f" to remote={show(r)}"
            run.ob("O1" if not stopv else "O2", f"{so.qual}:{'stop-offer-ttl-0' if stopv else 'offer-carries-ANNOUNCE_TTL'}", ok, loc(so),
                   msg + ("" if ok else f"; expected service.create_offer_entry({'0' if stopv else 'ANNOUNCE_TTL'}) queued for the given remote"))

    # ================================================================== O2 stop()
    e0 = engine(prog, NoInline())
    spaths = e0.paths(stop, recv=INST)
    run.paths += len(spaths)
    for cyc, announced, tdone in ((11, True, False), (0, True, False), (11, False, False), (0, False, False), (0, True, True), (11, True, True)):
        # `announced`: the may-answer flag (set once the first offer went out) is state stop() may consult;
        # `tdone`: the offer task has already finished on its own (non-cyclic: after the repetition phase)
        leaf = timing_leaf(me, {"CYCLIC_OFFER_DELAY": cyc}, extra=lambda tm, announced=announced, tdone=tdone: (
            (object(),) if tm == ("attr", me, "_task") else (announced,) if tm == ("attr", me, "_can_answer_offers")
            else (tdone,) if (tm[0] == "call" and tm[1] == ("attr", ("attr", me, "_task"), "done") and not tm[2]) else None))
        hits = []
        for p in spaths:
            try:
                if all(bool(eval_term(c, leaf)) == v for c, v, _, _ in p.conds):
                    hits.append(p)
            except AnalysisError:
                continue
        hits = [p for p in hits if p.returns()]
        if len(hits) != 1:
            raise AnalysisError(f"{stop.qual}: {len(hits)} returning paths for cyclic={bool(cyc)} while running")
        p = hits[0]
        st = [e for e in offer_sends(p, so.qual) if is_stop_offer(e, so)]
        other = [e for e in offer_sends(p, so.qual) if not is_stop_offer(e, so)]
        cancels = [e for e in p.events if e.kind == "call" and e.attrname == "cancel" and e.recv == ("attr", me, "_task")]
        want = 0 if cyc else 1
        if tdone:
            # the task is gone already: nothing to cancel, but the instance must end up stopped all the same
            sts = {e.attrname: e.value for e in p.events if e.kind == "store" and e.target[0] == "attr" and e.target[1] == me}
            ok3 = sts.get("_task") == const(None) and sts.get("_can_answer_offers") == const(False)
            run.ob("O3", f"{stop.qual}:clears-may-answer-with-running-state[task-finished,{'cyclic' if cyc else 'non-cyclic'}]", ok3 and not other, loc(stop),
                   "stop() of an instance whose offer task has finished clears the running state and the may-answer flag" if ok3 and not other else
                   "stop() of an instance whose offer task has already finished leaves the may-answer flag set: it keeps answering FindService "
                   "with TTL>0 offers after its StopOffer")
            if not cyc:
                run.ob("O2", f"{stop.qual}:stop-offer[non-cyclic,task-finished]", len(st) == 1, loc(stop),
                       f"stop() after the repetition phase of a non-cyclic instance sends {len(st)} StopOffer(s) (expected 1)")
            continue
        if not announced:
            # before the first offer: a cyclic instance sends nothing; for a non-cyclic one the statement leaves it open
            okb = not other and len(cancels) == 1 and (len(st) == 0 if cyc else len(st) <= 1)
            run.ob("O2", f"{stop.qual}:stop-before-first-offer[{'cyclic' if cyc else 'non-cyclic'}]", okb, loc(stop),
                   f"stop() before the first offer: cancels the task {len(cancels)}x, sends {len(st)} StopOffer(s), {len(other)} offer(s)")
            continue
        ok = len(st) == want and not other and len(cancels) == 1
        run.ob("O2", f"{stop.qual}:stop-offer[{'cyclic' if cyc else 'non-cyclic'}]", ok, loc(stop),
               f"stop() of a {'cyclic' if cyc else 'non-cyclic'} instance: cancels the task {len(cancels)}x, sends {len(st)} StopOffer(s) itself (expected {want}; "
               f"{'the cancelled task sends it' if cyc else 'the finished/cancelled task does not'})")
        # O3: running state and may-answer flag cleared together
        sts = {e.attrname: e.value for e in p.events if e.kind == "store" and e.target[0] == "attr" and e.target[1] == me}
        if cyc == 11:
            ok3 = sts.get("_task") == const(None) and sts.get("_can_answer_offers") == const(False)
            run.ob("O3", f"{stop.qual}:clears-may-answer-with-running-state", ok3, loc(stop),
                   "stop() clears the running state and the may-answer flag in the same step" if ok3 else
                   "stop() clears the running state (_task = None) but leaves _can_answer_offers set: a stopped instance (a finished non-cyclic task never "
                   "clears it; a cancelled cyclic task only one iteration later) still answers FindService with a TTL>0 offer after its StopOffer")
    # start(): resets the flag, creates the task
    for p in e0.paths(start, recv=INST):
        run.paths += 1
        if not p.returns():
            continue
        sts = {e.attrname: e.value for e in p.events if e.kind == "store" and e.target[0] == "attr" and e.target[1] == me}
        tasks = [e for e in p.events if e.kind == "call" and e.sched == "task" and e.cb is not None and e.cb[-1] == ot.qual]
        ok = sts.get("_can_answer_offers") == const(False) and len(tasks) == 1 and "_task" in sts
        run.ob("O3", f"{start.qual}:starts-in-initial-wait", ok, loc(start), "start() creates one offer task and begins with the may-answer flag cleared")
    # who sets the flag True
    scan = Scan(prog)
    setters = [(fi, e) for fi, r, e in scan.all() if e.kind == "store" and e.attrname == "_can_answer_offers" and e.value == const(True)]
    run.ob("O3", f"{INST}:may-answer-set-only-by-task", bool(setters) and all(fi.qual == ot.qual for fi, e in setters), loc(ot),
           f"_can_answer_offers = True in {sorted({fi.qual for fi, e in setters})}")

    # ================================================================== O4 deferred offers re-check
    n4 = 0
    seen4 = set()
    for (fq, recv), fpaths in scan.paths.items():
      fi = prog.functions[fq]
      for fp in fpaths:
        for e in fp.events:
          if e.kind != "call" or e.sched not in ("soon", "later") or e.cb is None:
            continue
          cbs = []
          argsets = {}
          for cb_, ca_, ck_ in sched_targets(scan.eng, fp, e, fi):
            if cb_[0] == "bound":
                cbs.append(cb_)
                argsets[cb_] = (ca_, ck_)
          if not cbs and e.cb[0] in ("param", "var"):
            # callback passed through a local helper: look at the helper's call sites in the same function
            for e2 in fp.events:
                if e2.kind == "call" and e2.fterm is not None and e2.fterm[0] == "closure":
                    for a in e2.args:
                        if a[0] == "bound":
                            cbs.append(a)
          for cb in cbs:
            if (id(e.node), cb[2]) in seen4:
                continue
            seen4.add((id(e.node), cb[2]))
            tgt = prog.functions.get(cb[2])
            if tgt is None or tgt.cls is None or tgt.cls.qual != INST:
                continue
            ty = scan.eng.typer.type_of(cb[1])
            # does the target transmit an offer with non-zero TTL?
            e4 = engine(prog, InlineOnly(names=(), props=False, max_depth=0))
            aa, kk = argsets.get(cb, ((("unknown", ("arg",)),), ()))
            tps = e4.paths(tgt, recv=INST, args=tuple(aa), kwargs=tuple(kk), depth=1)
            run.paths += len(tps)
            sends = False
            unguarded = None
            for p in tps:
                q = calls_to(p, qs.qual)
                live = [c for c in q if not (c.args and c.args[0][0] == "call" and (c.args[0][2] == (const(0),)))]
                if not live:
                    continue
                sends = True
                guards = [c for c, v, _, _ in p.conds if contains(c, lambda s: s[0] == "attr" and s[1] == me and s[2] in ("_task", "_can_answer_offers"))]
                if not guards:
                    unguarded = p
            if not sends:
                continue
            n4 += 1
            run.ob("O4", f"{tgt.qual}:deferred-from-{fi.name}", unguarded is None, loc(fi, e.node),
                   f"{tgt.name} is the target of {e.attrname} in {fi.qual} and re-checks the running state before it transmits" if unguarded is None else
                   (f"{tgt.name} is scheduled with {e.attrname} by {fi.qual} but transmits a TTL>0 offer without looking at the running state when it "
                    "finally runs: a stop() between scheduling and execution is followed by an Offer after the StopOffer"))
    # ... and nobody else builds offers for an instance: an Offer entry (create_offer_entry) is made only by the instance's
    # own sender, which is the place that looks at the running state.  A second builder (an answer assembled by the
    # announcer, a batch) sends TTL>0 offers of instances that have been stopped in the meantime.
    coe = prog.lookup_method("config.Service", "create_offer_entry")
    so = prog.lookup_method(INST, "_send_offer")
    builders = sorted({fi_.qual for fi_, r_, e_ in scan.callers_of(coe.qual) if fi_.module.short == "sd"}) if coe is not None else []
    # (config.Eventgroup.for_service builds one to ask matches_offer; it is never transmitted)
    okb = so is not None and builders == [so.qual]
    run.ob("O4", f"{INST}:offers-built-only-by-the-guarded-sender", okb, loc(so or ot),
           f"create_offer_entry is called by {builders}" + ("" if okb else
           f": an offer built outside {INST.split('.')[-1]}._send_offer is sent without its running-state check - a stop() between a FindService "
           "and its (delayed) answer is followed by an Offer after the StopOffer"))
    if okb:
        run.floor("O4", n4, 1)

    # ================================================================== O5 guarded stop calls
    n5 = 0
    for fi, recv, e in scan.callers_of(stop.qual):
        n5 += 1
        guarded = True
        for p in scan.paths.get((fi.qual, recv), []):
            cs = [c for c in p.events if c.kind == "call" and c.node is e.node]
            if not cs:
                continue
            g = [v for c, v, _, _ in p.conds if (c == ("attr", ("self", ANN), "started") and v) or (c == ("unop", "not", ("attr", ("self", ANN), "started")) and not v)
                 or (c[0] == "bool" and c[1] == "and" and ("attr", ("self", ANN), "started") in c[2] and v)]
            if not g:
                guarded = False
        run.ob("O5", f"{fi.qual}:stop-guarded-by-started", guarded, loc(fi, e.node),
               f"{fi.qual} stops instances only while the announcer is started" if guarded else
               f"{fi.qual} calls ServiceInstance.stop() without testing `started`: stopping an already stopped announcer (stop() twice, or stop() then connection_lost) raises RuntimeError('task already stopped')")
    run.floor("O5", n5, 2)
    # started flag maintained with the instances
    astart = prog.lookup_method(ANN, "start")
    astop = prog.lookup_method(ANN, "stop")
    for fn, val, callee in ((astart, True, start.qual), (astop, False, stop.qual)):
        okv = False
        for p in scan.paths.get((fn.qual, ANN), []):
            sts = [e for e in p.events if e.kind == "store" and e.attrname == "started"]
            if sts and sts[-1].value == const(val):
                okv = True
        run.ob("O5", f"{fn.qual}:sets-started-{val}", okv, loc(fn), f"{fn.name}() leaves started = {val}")

    # the running state (_task, may-answer flag) belongs to the current start()..stop() generation
    from .derived import lifecycle_owner
    with run.part("O8 generation state"):
        lifecycle_owner(run, prog, scan, "O8", INST)

    # every entry handed to queue_send is transmitted exactly once (C15 rule set as supporting obligations)
    from .C15 import queue_exactly_once
    queue_exactly_once(run, prog, tier, "O7")

    # ================================================================== O6 helper argument agreement
    sas = prog.lookup_method(ANN, "stop_announce_service")
    aas = prog.lookup_method(ANN, "announce_service")
    n6 = 0
    for fn, pname in ((sas, "instance"), (aas, "instance")):
        for fi, recv, e in scan.callers_of(fn.qual):
            n6 += 1
            a = e.arg(0, pname)
            ty = scan.eng.typer.type_of(a) if a is not None else None
            ok = ty == ("cls", INST)
            tn = ty[1] if ty and ty[0] == "cls" else "unknown"
            run.ob("O6", f"{fi.qual}:{fn.name}(instance={tn})", ok, loc(fi, e.node),
                   f"{fi.qual} passes a {tn} as `instance` to {fn.name}" + ("" if ok else
                   f" - it must be the ServiceInstance that was announced; list.remove() raises ValueError for anything else"
                   + (f" (and {show(e.args[1])[:40]} lands in send_stop)" if len(e.args) > 1 else "")))
    run.floor("O6", n6, 2)
