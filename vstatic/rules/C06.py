"""C06 - server subscription records are truthful; acknowledged subscriptions are held.

A1  store mutation and listener notification are one synchronous step (TimedStore sites)
N1  reject-before-record: the listener is asked before the subscription is stored; a rejection
    (NakSubscription) propagates to handle_subscribe, which records nothing and sends a Nack
S3  reboot handling of a message precedes the Subscribe entries of that same message
H1  hold: subscriptions are removed only by TTL expiry, StopSubscribe, reboot detection, service stop
K1  identity: a subscription is identified by ids, eventgroup, counter and endpoints (not TTL/options)
"""
from __future__ import annotations

from ..facts import AnalysisError
from ..terms import const, contains, show, strip_sites
from ..util import implied_atoms, InlineOnly, NoInline, P, calls_to, engine, loc, param_at
from .derived import cache_coherence
from .ordering import (arming, cancel_on_removal, every_removal_reported, PROTO, TS, Ctx, atomic_notifications, expiry_once, reboot_before_entries, reject_before_record)

INST = "sd.ServiceInstance"
ANN = "sd.ServiceAnnouncer"
SUB = "sd.EventgroupSubscription"


def check(run, prog, tier):
    from . import model as _model
    _model.audit(run, prog, 'C06')
    # the record of live subscriptions is the store itself, not a cached view of it
    cache_coherence(run, prog, "N5", ['sd.ServiceInstance', 'sd.TimedStore'])
    run.explanation = (
        "Same ATOMIC template as C05 for ServiceInstance.subscriptions (the TimedStore code is shared, the other "
        "allocation site binds listener.client_subscribed / client_unsubscribed).  Reject-before-record is a path "
        "fact of refresh and handle_subscribe; 'held until ...' is a who-may-remove call-graph fact: every call "
        "that can reach a removal of the subscription store is listed and must be one of the four legitimate "
        "causes.  The ordering of reboot handling against the Subscribe entries of the same message is decided "
        "from deferral stamps."
    )
    run.trusted += ["asyncio ready queue is FIFO", "listeners signal rejection only by raising NakSubscription"]
    cx = Ctx(run, prog)
    atomic_notifications(cx, "A1", "unsubscribed")
    expiry_once(cx, "A1")
    # a stale TTL timer would report a live entry gone: cancel-on-replace and arming are part of truthfulness
    cancel_on_removal(cx, "T1")
    arming(cx, "T2")
    every_removal_reported(cx, "A1", owners={"subscriptions"})
    reject_before_record(cx, "N1")

    # ---- N1: the rejection reaches handle_subscribe, which records nothing and nacks
    hs = cx.m(INST, "handle_subscribe")
    refresh = cx.m(TS, "refresh")
    # (a negative acknowledgement is a queued entry built by to_nack_entry, whichever method queues it)
    nack_fn = prog.lookup_method(ANN, "_send_subscribe_nack")
    eng = engine(prog, InlineOnly(names=(refresh.qual,) + ((nack_fn.qual,) if nack_fn is not None else ()), props=False, max_depth=2))
    qs = cx.m(ANN, "queue_send").qual
    tnack = cx.m(SUB, "to_nack_entry").qual

    def nacks(p):
        return [c for c in calls_to(p, qs) if c.args and c.args[0][0] == "call" and c.args[0][1][0] == "bound" and c.args[0][1][2] == tnack]
    seen_rej = 0
    for p in eng.paths(hs, recv=INST):
        run.paths += 1
        rejected = any(e.kind == "caught" and e.value == "sd.NakSubscription" for e in p.events)
        if not rejected:
            continue
        seen_rej += 1
        writes = [e for e in p.events if e.kind == "store" and e.target[0] == "item" and "store" in show(e.target)]
        ok = not writes and len(nacks(p)) == 1 and p.returns()
        run.ob("N1", f"{hs.qual}:rejection-nacked-not-recorded", ok, loc(hs),
               "listener rejection: nothing recorded, one negative acknowledgement" if ok else
               f"listener rejection: {len(writes)} store write(s), {len(nacks(p))} nack(s)")
    run.floor("N1-rejection-paths", seen_rej, 1)
    # the callbacks bound at the subscription store are the listener's
    names = refresh.params()[1:]
    sites = [(fi, e) for fi, e in cx.slots.refresh_sites if e.recv == ("attr", ("self", INST), "subscriptions")]
    run.floor("N1-refresh-sites", len(sites), 1)
    me_ = ("self", INST)

    def reaches_listener(cb, which):
        """the callback is the listener's method, or a method of the instance (not one the rules were written against) that
        hands its two arguments to the listener's method exactly once on every path and lets nothing out but what the
        listener raises - a wrapper that can fail on its own keeps the listener from hearing of the change"""
        from ..raises import Escapes
        lq = f"sd.ServerServiceListener.{which}"
        if cb == ("bound", ("attr", me_, "listener"), lq):
            return True, "the listener's method"
        w = prog.functions.get(cb[2]) if cb is not None and cb[0] == "bound" and cb[1] == me_ else None
        e1 = engine(prog, InlineOnly(names=(), props=True, max_depth=2))
        if w is None or not e1.is_unknown_helper(w) or len(w.params()) < 3:
            return False, f"{show(cb)} is not the listener's {which}"
        a0, a1 = P(w, param_at(w, 0, "subscription")), P(w, param_at(w, 1, "source"))
        for p in e1.paths(w, recv=INST):
            run.paths += 1
            if p.outcome[0] == "raise":
                continue
            cs = [c for c in calls_to(p, lq) if c.recv == ("attr", me_, "listener")]
            if len(cs) != 1 or tuple(cs[0].args[:2]) != (a0, a1):
                return False, f"{w.qual} calls the listener's {which} {len(cs)}x on a path (expected once, with the subscription and its source)"
        esc = {x: wh for x, wh in Escapes(prog).escapes(w, recv=INST).items() if x not in ("AnyException", "sd.NakSubscription")}
        if esc:
            x, wh = sorted(esc.items())[0]
            return False, (f"{w.qual} stands between the store and the listener and may raise {x} ({wh}): the store changes but the listener is not told "
                           "(its last notification no longer says whether the subscription is live)")
        return True, f"{w.qual} hands the notification on to the listener"
    for fi, e in sites:
        cn, ce = e.arg(names.index("callback_new"), "callback_new"), e.arg(names.index("callback_expired"), "callback_expired")
        okn, whyn = reaches_listener(cn, "client_subscribed")
        oke, whye = reaches_listener(ce, "client_unsubscribed")
        run.ob("N1", f"{fi.qual}:listener-bound-to-store", okn and oke, loc(fi, e.node),
               f"subscriptions.refresh(new={show(cn)}, expired={show(ce)}): {whyn if not okn else whye}")

    # ---- S3
    reboot_before_entries(cx, "S3", "announcer")
    # "... until the subscriber's reboot is detected": that a restart of the subscriber *is* recognised - exactly when its
    # flag / session id history says so - is C07's table (a restart that goes unnoticed keeps the old subscriptions recorded)
    from .. import report
    from . import C07
    with run.part("S3 reboot evidence"):
        sub7 = report.subrun(C07, "C07", prog, tier, run.seed)
        n7 = 0
        for o in sub7.obs:
            if o.rule in ("P1", "P2", "P3", "P4"):
                n7 += 1
                run.ob("S3", o.construct, o.ok, o.loc, o.msg, o.detail, o.nontrivial)
        run.floor("S3-C07", n7, 8)
        run.paths += sub7.paths

    # ---- H1 who may remove
    removers = {m.qual: m for m in cx.store_methods() if m.name != "refresh"}
    allowed = {f"{INST}.eventgroup_subscribe_stopped": "StopSubscribe", f"{INST}.reboot_detected": "reboot detection", f"{INST}.stop": "service stop"}
    n = 0
    for fi, recv, e in cx.scan.callers_of(*removers):
        if e.recv is None or not (e.recv[0] == "attr" and e.recv[2] == "subscriptions"):
            continue
        n += 1
        run.ob("H1", f"{fi.qual}:removes-subscriptions", fi.qual in allowed, loc(fi, e.node),
               f"{fi.qual} removes subscriptions ({allowed.get(fi.qual, 'not a legitimate cause: a held subscription would be dropped')})")
    run.floor("H1", n, 2)
    # each legitimate remover is itself reached only from its cause
    expect = {f"{INST}.eventgroup_subscribe_stopped": {f"{INST}.handle_subscribe"},
              f"{INST}.reboot_detected": {f"{ANN}.reboot_detected"},
              f"{INST}.stop": {f"{ANN}.stop", f"{ANN}.stop_announce_service"}}
    for q, callers in expect.items():
        got = {fi.qual for fi, recv, e in cx.scan.callers_of(q)}
        run.ob("H1", f"{q}:called-only-by-its-cause", got <= callers and bool(got), loc(prog.func(q)),
               f"called by {sorted(got)}" + ("" if got <= callers else f"; expected only {sorted(callers)}"))
    # a StopSubscribe ends the subscription it names and nothing else ("until ... a StopSubscribe for it arrives ... and at
    # no other time"): the only store operation of eventgroup_subscribe_stopped is stop(<sender>, <that subscription>)
    ess = prog.lookup_method(INST, "eventgroup_subscribe_stopped")
    if ess is None:
        raise AnalysisError(f"{INST}.eventgroup_subscribe_stopped vanished")
    a_p, s_p = P(ess, param_at(ess, 0, "addr")), P(ess, param_at(ess, 1, "subscription"))
    stop_q = cx.m(TS, "stop").qual
    foreign = None
    n_stop = 0
    for p in engine(prog, NoInline()).paths(ess, recv=INST):
        run.paths += 1
        for e in p.events:
            if e.kind == "call" and e.targets and e.targets[0].cls is not None and e.targets[0].cls.qual == TS \
                    and e.recv == ("attr", ("self", INST), "subscriptions"):
                if e.targets[0].qual == stop_q and tuple(e.args[:2]) == (a_p, s_p):
                    n_stop += 1
                else:
                    foreign = foreign or e
    run.ob("H1", f"{ess.qual}:ends-only-the-named-subscription", foreign is None and n_stop > 0, loc(ess, foreign.node if foreign is not None else None),
           "the only store operation is subscriptions.stop(sender, the subscription built from the entry)" if foreign is None else
           f"also calls subscriptions.{foreign.targets[0].name}({', '.join(show(a)[:30] for a in foreign.args)}): a StopSubscribe for one subscription "
           "ends another (e.g. one that differs in its endpoint options and is still held)")
    # StopSubscribe branch: only for TTL 0
    e0 = engine(prog, NoInline())
    ent = P(hs, param_at(hs, 0, "entry"))
    for p in e0.paths(hs, recv=INST):
        run.paths += 1
        st = calls_to(p, f"{INST}.eventgroup_subscribe_stopped")
        if st:
            d = [v for c, v, _, _ in p.conds if strip_sites(c) == ("cmp", "==", ("attr", ent, "ttl"), const(0))]
            run.ob("H1", f"{hs.qual}:stop-only-for-ttl-0", d == [True], loc(hs, st[0].node), "the subscription is stopped only for an entry with TTL 0")
    # service stop drops the subscriptions; connection loss stops the services
    st = cx.m(INST, "stop")
    effs = cx.effects(st.qual, INST)
    rem = [e for e in effs if e.kind == "state" and e.what[0] == TS and e.what[2] == "-"]
    uns = [e for e in effs if e.kind == "notify" and e.what == "unsubscribed"]
    run.ob("H1", f"{st.qual}:drops-subscriptions", bool(rem) and bool(uns) and all(e.wave == 0 for e in uns), loc(st),
           f"stopping the service removes its subscriptions ({len(rem)} site(s)) and reports them unsubscribed in the same step ({len(uns)} site(s))")
    # ... on EVERY path on which the instance actually stops (its task is cancelled / the running state cleared), not only
    # on some: a subscription surviving a stop is 'live' while the service is not offered
    stop_all_q = cx.m(TS, "stop_all").qual
    bulk = {stop_all_q, cx.m(TS, "stop_all_for_address").qual, cx.m(TS, "stop_all_matching").qual}
    worst = None
    n_stop = 0
    for p in e0.paths(st, recv=INST):
        run.paths += 1
        if not p.returns():
            continue
        stops = any(e.kind == "store" and e.target == ("attr", ("self", INST), "_task") and e.value == const(None) for e in p.events)
        if not stops:
            continue
        n_stop += 1
        drops = [e for e in p.events if e.kind == "call" and any(f.qual in bulk for f in e.targets) and e.recv == ("attr", ("self", INST), "subscriptions")]
        if not any(f.qual == stop_all_q for e in drops for f in e.targets) and worst is None:
            worst = p.describe()[:90]
    run.ob("H1", f"{st.qual}:every-stopping-path-drops-subscriptions", worst is None and n_stop >= 1, loc(st),
           f"{n_stop} path(s) clear the running state; each of them removes all subscriptions (subscriptions.stop_all())" if worst is None else
           f"the path [{worst}] stops the instance but keeps its subscriptions: they stay recorded (and their TTL timers armed) while the service is not "
           "offered, a later Subscribe from the same client is taken for a refresh and never reported")
    cl = cx.m(ANN, "connection_lost")
    effs = cx.effects(cl.qual, ANN)
    uns = [e for e in effs if e.kind == "notify" and e.what == "unsubscribed"]
    run.ob("H1", f"{cl.qual}:reaches-unsubscribed", bool(uns), loc(cl), f"connection loss reaches client_unsubscribed ({len(uns)} site(s))")
    pcl = cx.m("sd.ServiceDiscoveryProtocol", "connection_lost")
    uns2 = [e for e in cx.effects(pcl.qual, "sd.ServiceDiscoveryProtocol") if e.kind == "notify" and e.what == "unsubscribed"]
    run.ob("H1", f"{pcl.qual}:reaches-unsubscribed", bool(uns2), loc(pcl),
           f"connection loss at the SD endpoint reaches client_unsubscribed ({len(uns2)} site(s))" if uns2 else
           "BROKEN LINK: connection loss at the SD endpoint never reaches the announcer's subscriptions")

    # ---- K1 the record names the subscriber's endpoints: from_subscribe_entry puts exactly the endpoint options of the entry
    # into `endpoints` (part of the identity, where notifications go) and every other option into `options`
    fse = cx.m(SUB, "from_subscribe_entry")
    ent_p = P(fse, param_at(fse, 0, "entry"))
    e1 = engine(prog, NoInline())
    e1.policy.unroll = 1
    seen_kinds = set()
    badp = None
    for p in e1.paths(fse, recv=SUB):
        run.paths += 1
        if not p.returns():
            continue
        rv = p.retval()
        flds = dict(rv[2]) if rv[0] == "new" and rv[1] == SUB else None
        if flds is None:
            raise AnalysisError(f"{fse.qual}: does not return a constructed subscription")

        def elems_of(tm):
            """('list', [elem terms]) for a tracked list / tuple / frozenset(list) or ('comp', filter polarity) for a comprehension"""
            while tm[0] == "call" and tm[1][0] == "ext" and tm[1][1] in ("frozenset", "tuple", "list", "set") and len(tm[2]) == 1:
                tm = tm[2][0]
            if tm[0] in ("list", "tuple", "set"):
                return ("list", list(tm[1]))
            if tm[0] == "comp" and len(tm[3]) == 1:
                conds = tm[3][0][2]
                pol = None
                if len(conds) == 1:
                    c = conds[0]
                    neg = False
                    while c[0] == "unop" and c[1] == "not":
                        c, neg = c[2], not neg
                    if c[0] == "call" and c[1] == ("ext", "isinstance") and len(c[2]) == 2 and c[2][1] == ("cls", "header.EndpointOption") and c[2][0] == tm[2]:
                        pol = not neg
                return ("comp", pol, tm[3][0][1])
            return None
        ep, op = elems_of(flds.get("endpoints", ("tuple", ()))), elems_of(flds.get("options", ("tuple", ())))
        if ep is None or op is None:
            raise AnalysisError(f"{fse.qual}: cannot read how endpoints / options are collected ({show(flds.get('endpoints'))[:50]})")
        if ep[0] == "comp" or op[0] == "comp":
            okp = ep[0] == "comp" and op[0] == "comp" and ep[1] is True and op[1] is False and \
                strip_sites(ep[2]) == strip_sites(op[2]) and contains(ep[2], lambda s_: s_ == ("attr", ent_p, "options"))
            seen_kinds.add("comp")
        else:
            # path form: each visited option went to exactly one of the two lists, by the isinstance test decided on the path
            decided = {}
            for c, v in implied_atoms(p.conds):
                if c[0] == "call" and c[1] == ("ext", "isinstance") and len(c[2]) == 2 and c[2][1] == ("cls", "header.EndpointOption"):
                    decided[c[2][0]] = v
            okp = all(decided.get(x) is True for x in ep[1]) and all(decided.get(x) is False for x in op[1]) \
                and set(ep[1]) | set(op[1]) == set(decided) and not (set(ep[1]) & set(op[1]))
            seen_kinds.add(f"loop[{len(decided)}]")
        if not okp and badp is None:
            badp = f"endpoints={show(flds.get('endpoints'))[:70]} options={show(flds.get('options'))[:70]} on path [{p.describe()[:50]}]"
    run.ob("K1", f"{fse.qual}:endpoint-options-are-the-endpoints", badp is None and bool(seen_kinds), loc(fse),
           "the endpoint options of the Subscribe entry become the subscription's endpoints, all other options its options" if badp is None else
           f"the options of the entry are not partitioned by EndpointOption: {badp}")

    # ---- K1 identity
    ci = prog.cls(SUB)
    cmpf = {f.name for f in prog.all_fields(SUB) if f.compare}
    want = {"service_id", "instance_id", "major_version", "id", "counter", "endpoints"}
    run.ob("K1", f"{SUB}:identity-fields", cmpf == want and ci.dataclass_frozen, loc(hs, ci.node),
           f"subscriptions compare by {sorted(cmpf)}" + ("" if cmpf == want else f"; expected {sorted(want)} (TTL and extra options must not take part, a refresh with another TTL must hit the same record)"))
