"""C15 - queued SD entries are sent exactly once, in order, to the right peer, in time.

U1  collector typestate open -> done: entries are appended only by queue_send, on a collector that was just
    created or just tested 'not done'; the timeout sets done *before* flushing and flushes the very list
    that append extends
U2  key agreement: the collector filed under send_queues[remote] is built with remote=remote and
    callback sd.send_sd; its timer is armed in the constructor with SEND_COLLECTION_TIMEOUT; nobody cancels
    a collector
U3  zero timeout: the entry is sent at once, alone, to that remote
U4  order: list.append + one flush of the whole list; send_sd keeps the order (tuple(entries))
U5  announcer and instances transmit only through queue_send
"""
from __future__ import annotations

from ..effects import DeepInline, Effects, Slots
from ..facts import AnalysisError
from ..terms import const, contains, show, strip_sites
from ..util import InlineOnly, NoInline, P, Scan, calls_to, engine, loc, param_at

ANN = "sd.ServiceAnnouncer"
COL = "sd.SendCollector"
PROTO = "sd.ServiceDiscoveryProtocol"
INST = "sd.ServiceInstance"


def check(run, prog, tier):
    from . import model as _model
    _model.audit(run, prog, 'C15')
    run.explanation = (
        "SendCollector is a two-state object (open, done).  Exactly-once and in-order delivery reduce to: append "
        "only while open (who-may-call + dominating test in the same synchronous step), the flush marks done "
        "first and hands over the same list object, one timer per collector armed at construction with the "
        "collection timeout, nobody cancels it, and the map key equals the destination the collector flushes to. "
        "All are path / call-graph facts of queue_send and the three collector methods."
    )
    run.trusted += ["loop.call_later(t, f) runs f once after t seconds", "list.append keeps insertion order"]
    run.not_decided += ["that the timer fires no later than the timeout (asyncio contract)"]
    qs = prog.lookup_method(ANN, "queue_send")
    init = prog.lookup_method(COL, "__init__")
    ht = prog.lookup_method(COL, "_handle_timeout")
    app = prog.lookup_method(COL, "append")
    send_sd = prog.lookup_method(PROTO, "send_sd")
    if not all((qs, init, ht, app, send_sd)):
        raise AnalysisError("queue_send / SendCollector methods vanished")
    run.analysed(qs, init, ht, app)
    scan = Scan(prog)
    me = ("self", ANN)
    cme = ("self", COL)
    ent = P(qs, param_at(qs, 0, "entry"))
    rem = P(qs, param_at(qs, 1, "remote"))
    tmo = ("attr", ("attr", me, "timings"), "SEND_COLLECTION_TIMEOUT")
    eng = engine(prog, NoInline())
    paths = eng.paths(qs, recv=ANN)
    run.paths += len(paths)
    kinds = set()
    for p in paths:
        if not p.returns():
            run.ob("U1", f"{qs.qual}:total", False, loc(qs), f"queue_send may raise {p.outcome[1]}")
            continue
        zero = [v for c, v, _, _ in p.conds if strip_sites(c) in (("cmp", "==", tmo, const(0)), ("unop", "not", tmo))]
        direct = calls_to(p, send_sd.qual)
        appends = calls_to(p, app.qual)
        news = [e for e in p.events if e.kind == "call" and e.fterm == ("cls", COL)]
        files = [e for e in p.events if e.kind == "store" and e.target[0] == "item" and e.target[1] == ("attr", me, "send_queues")]
        if zero == [True]:
            kinds.add("bypass")
            ok = len(direct) == 1 and direct[0].args[:1] == (("list", (ent,)),) and direct[0].arg(1, "remote") == rem and not appends and not news
            run.ob("U3", f"{qs.qual}:zero-timeout-sends-at-once", ok, loc(qs),
                   f"timeout 0: {len(direct)} immediate transmission(s) of {show(direct[0].args[0]) if direct else '-'} to {show(direct[0].arg(1, 'remote')) if direct else '-'}; {len(appends)} queued")
            continue
        if direct:
            run.ob("U5", f"{qs.qual}:no-bypass-with-timeout", False, loc(qs), "with a non-zero timeout queue_send also transmits directly")
        if news:
            kinds.add("new")
            n = news[0]
            ok = len(news) == 1 and len(files) == 1 and files[0].target[2] == rem and files[0].value == n.result \
                and n.args[:2] == (tmo, ("bound", ("attr", me, "sd"), send_sd.qual)) and tuple(n.kwargs) == (("remote", rem),) and len(n.args) == 2
            run.ob("U2", f"{qs.qual}:new-collector-keyed-and-bound-to-remote", ok, loc(qs),
                   f"new collector {show(n.result)[:30]}({', '.join(show(a)[:40] for a in n.args)}, {dict(n.kwargs)}) filed under {show(files[0].target[2]) if files else '?'}; "
                   "expected (SEND_COLLECTION_TIMEOUT, sd.send_sd, remote=remote) filed under remote")
            oka = all(a.recv == n.result and n.seq < a.seq for a in appends)
            run.ob("U1", f"{qs.qual}:append-targets-open-collector[new]", oka, loc(qs), "appends go to the collector just created (which is open)")
            okb = len(appends) == 1 and appends[0].args == (ent,)
            run.ob("U1", f"{qs.qual}:entry-queued-exactly-once[new]", okb, loc(qs),
                   f"the entry is appended {len(appends)}x" + ("" if okb else " - an entry handed to queue_send must be queued exactly once (not dropped, not duplicated)"))
            # a new one is made only when there was none or the old one is done
            why = [(c, v) for c, v, _, _ in p.conds if contains(c, lambda s: s[0] == "attr" and s[2] == "done") or contains(c, lambda s: s == const(None))]
            run.ob("U1", f"{qs.qual}:new-only-if-none-or-done", bool(why), loc(qs), "a new collector replaces only a missing or finished one")
        else:
            kinds.add("reuse")
            got = [e for e in p.events if e.kind == "call" and e.attrname == "get" and e.recv == ("attr", me, "send_queues") and e.args[:1] == (rem,)]
            okr = bool(got) and all(a.recv == got[0].result for a in appends)
            tested = any(contains(c, lambda s: s == ("attr", got[0].result, "done")) for c, v, _, _ in p.conds) if got else False
            run.ob("U1", f"{qs.qual}:append-targets-open-collector[reuse]", bool(okr and (tested or not appends)), loc(qs),
                   "an existing collector for this remote is reused only after it was tested 'not done' in the same step")
            okb = len(appends) == 1 and appends[0].args == (ent,)
            run.ob("U1", f"{qs.qual}:entry-queued-exactly-once[reuse]", okb, loc(qs),
                   f"the entry is appended {len(appends)}x" + ("" if okb else " - an entry handed to queue_send must be queued exactly once (not dropped, not duplicated)"))
    run.ob("U1", f"{qs.qual}:cases", kinds == {"bypass", "new", "reuse"}, loc(qs), f"cases: {sorted(kinds)}")

    # ---- collector internals
    for p in eng.paths(ht, recv=COL):
        run.paths += 1
        sts = [e for e in p.events if e.kind == "store" and e.attrname == "done"]
        calls = [e for e in p.events if e.kind == "call" and e.fterm == ("attr", cme, "callback")]
        ok = len(sts) == 1 and sts[0].value == const(True) and len(calls) == 1 and sts[0].seq < calls[0].seq
        run.ob("U1", f"{ht.qual}:done-before-flush", ok, loc(ht),
               "the collector is marked done before its callback runs (nothing can be appended to a flushed list)" if ok else "flush happens before / without marking the collector done")
        if calls:
            a = calls[0].args
            okf = a[:1] == (("attr", cme, "data"),) and ("starred", ("attr", cme, "args")) in a and tuple(calls[0].kwargs) == (("**", ("attr", cme, "kwargs")),)
            run.ob("U4", f"{ht.qual}:flushes-the-collected-list-once", okf, loc(ht), f"callback({', '.join(show(x) for x in a)}, **{[show(v) for k, v in calls[0].kwargs]})")
    # ... and the timeout routine is the only way out: any other method of the collector that hands the list over has to
    # obey the same two-state discipline (done first), or the collector stays open after its list was transmitted and
    # whatever is appended afterwards waits for a timer that will not come
    for name, fi2 in sorted(prog.cls(COL).methods.items()):
        if fi2 is ht or name == "__init__":
            continue
        for p in eng.paths(fi2, recv=COL):
            calls = [e for e in p.events if e.kind == "call" and e.fterm == ("attr", cme, "callback")]
            if not calls:
                continue
            run.paths += 1
            sts = [e for e in p.events if e.kind == "store" and e.attrname == "done" and e.value == const(True)]
            ok = bool(sts) and sts[0].seq < calls[0].seq
            run.ob("U1", f"{fi2.qual}:done-before-flush", ok, loc(fi2, calls[0].node),
                   f"{name}() marks the collector done before handing its list over" if ok else
                   f"{name}() hands the collected list to the callback without marking the collector done: it stays registered and open, "
                   "entries appended afterwards are never transmitted")
    for p in eng.paths(app, recv=COL):
        run.paths += 1
        d = [v for c, v, _, _ in p.conds if c == ("attr", cme, "done")]
        ap = [e for e in p.events if e.kind == "call" and e.attrname == "append" and e.recv == ("attr", cme, "data")]
        if d == [True]:
            run.ob("U1", f"{app.qual}:refuses-when-done", p.outcome[0] == "raise" and not ap, loc(app), "appending to a finished collector is refused")
        else:
            run.ob("U4", f"{app.qual}:appends-at-the-end", len(ap) == 1 and ap[0].args == (P(app, param_at(app, 0, 'datum')),), loc(app), "entries are appended in arrival order")
    ip = [p for p in eng.paths(init, recv=COL) if p.returns()]
    run.paths += len(ip)
    for p in ip:
        sts = {e.attrname: e.value for e in p.events if e.kind == "store" and e.target[0] == "attr" and e.target[1] == cme}
        timers = [e for e in p.events if e.kind == "call" and e.sched == "later"]
        tp = P(init, param_at(init, 0, "timeout"))
        ok = sts.get("callback") == P(init, param_at(init, 1, "callback")) and sts.get("done") == const(False) and sts.get("data") == ("list", ()) \
            and sts.get("args") == P(init, "args") and sts.get("kwargs") == P(init, "kwargs")
        run.ob("U2", f"{init.qual}:keeps-callback-and-arguments", ok, loc(init), "constructor keeps callback, extra arguments and starts open with an empty list")
        okt = len(timers) == 1 and timers[0].delay == tp and timers[0].cb == ("bound", cme, ht.qual) and not timers[0].cbargs
        if not timers:
            # armed through a helper method: follow it
            ef0 = Effects(prog, DeepInline(unroll=1), Slots(prog, scan))
            tms = [e for e in ef0.collect(init, recv=COL) if e.kind == "timer"]
            okt = len(tms) == 1 and tms[0].ev.cb == ("bound", cme, ht.qual) and tms[0].ev.delay is not None and \
                (tms[0].ev.delay == tp or (tms[0].ev.delay[0] == "attr" and sts.get(tms[0].ev.delay[2]) == tp))
            timers = [t_.ev for t_ in tms]
        armed = len(timers) == 1 and timers[0].cb == ("bound", cme, ht.qual) and not timers[0].cbargs
        run.ob("U2", f"{init.qual}:arms-the-flush-timer", armed, loc(init),
               f"{len(timers)} timer(s) armed at construction, target {show(timers[0].cb) if timers else '?'} (must be exactly one, the collector's flush)")
        run.ob("U2", f"{init.qual}:timer-uses-the-timeout", okt, loc(init),
               f"call_later({show(timers[0].delay) if timers else '?'}, ...): the delay must be the constructor's timeout argument")
    # ---- the collected list is changed only by append(): nobody filters, replaces or clears it
    dm = set()
    for fi, r, e in scan.all():
        tgt = None
        if e.kind == "store" and e.target is not None:
            tgt = e.target
        elif e.kind == "call" and e.attrname in ("append", "extend", "insert", "remove", "pop", "clear", "sort", "reverse", "__setitem__", "__delitem__") and e.recv is not None:
            tgt = e.recv
        if tgt is None:
            continue
        hit = False
        cur = tgt
        while cur[0] in ("item", "slice"):
            cur = cur[1]
        if cur[0] == "attr" and cur[2] == "data":
            ty = scan.eng.typer.type_of(cur[1])
            hit = ty == ("cls", COL) or cur[1] == cme
        if hit and fi.name != "__init__":
            dm.add((fi.qual, e.attrname if e.kind == "call" else "assign"))
    okd = dm == {(app.qual, "append")}
    run.ob("U4", f"{COL}:collected-list-only-appended", okd, loc(app),
           "the collected list is only ever extended by SendCollector.append" if okd else
           f"the collected list is also changed by {sorted(x for x in dm if x != (app.qual, 'append'))}: queued entries can be dropped, replaced or reordered before the flush")
    # ---- the deadline is fixed at construction: appending neither re-arms nor cancels the timer
    ef = Effects(prog, DeepInline(unroll=1), Slots(prog, scan))
    aeffs = ef.collect(app, recv=COL)
    moved = [e for e in aeffs if e.kind in ("timer", "cancel", "sched")]
    run.ob("U2", f"{app.qual}:deadline-not-moved", not moved, loc(app),
           "append() leaves the collection timer alone (an entry leaves at most one timeout after it was queued)" if not moved else
           f"append() touches the timer ({moved[0].kind} at {moved[0].ev.loc}): every further entry postpones the flush, a steady trickle delays delivery without bound")
    # ---- who may call
    callers = {fi.qual for fi, r, e in scan.callers_of(app.qual)}
    run.ob("U1", f"{app.qual}:only-queue_send-appends", callers == {qs.qual}, loc(app), f"append is called by {sorted(callers)}")
    canc = prog.lookup_method(COL, "cancel")
    cc = {fi.qual for fi, r, e in scan.callers_of(canc.qual)} if canc else set()
    # the timer handle itself: cancelled nowhere but in cancel()
    for (fq_, r_), ps_ in scan.paths.items():
        fi = prog.functions[fq_]
        if fi is canc or fq_ in scan.absorbed:
            continue
        for p_ in ps_:
            for e in p_.events:
                if e.kind == "call" and e.attrname == "cancel" and e.recv is not None and e.recv[0] == "attr":
                    ty = scan.eng.typer.type_of(e.recv[1])
                    if (e.recv[1] == cme or ty == ("cls", COL)) and prog.lookup_method(COL, e.recv[2]) is None:
                        # cancelled and armed again in the same step: the deadline moves (U2 deadline-not-moved, a timing
                        # matter), the collector still flushes
                        rearmed = any(e2.kind == "store" and e2.target == e.recv and e2.seq > e.seq for e2 in p_.events)
                        if not rearmed:
                            cc.add(f"{fi.qual} (cancels .{e.recv[2]})")
    run.ob("U2", f"{COL}:nobody-cancels-a-collector", not cc, loc(canc or init), f"cancel() callers: {sorted(cc) or 'none'} (a cancelled collector would drop its entries)")
    # other writers of send_queues
    w = {fi.qual for fi, r, e in scan.all() if (e.kind == "store" and e.target is not None and contains(e.target, lambda s: s[0] == "attr" and s[2] == "send_queues")
                                                  and fi.name != "__init__") or (e.kind == "call" and e.attrname in ("pop", "clear", "update", "setdefault") and e.recv is not None
                                                                                 and contains(e.recv, lambda s: s[0] == "attr" and s[2] == "send_queues"))}
    run.ob("U2", f"{ANN}:only-queue_send-files-collectors", w == {qs.qual}, loc(qs), f"send_queues is written by {sorted(w)}")
    # ---- U5: transmissions of announcer / instances only via queue_send
    n = 0
    for fi, r, e in scan.callers_of(send_sd.qual):
        if fi.cls is None or fi.cls.qual not in (ANN, INST, COL):
            continue
        n += 1
        run.ob("U5", f"{fi.qual}:uses-send_sd", fi.qual == qs.qual, loc(fi, e.node),
               f"{fi.qual} references sd.send_sd" + ("" if fi.qual == qs.qual else " directly: entries sent this way bypass collection (order / batching per destination lost)"))
    run.floor("U5", n, 1)
    # positive control for the who-may-call query: queue_send itself has callers
    pos = {fi.qual for fi, r, e in scan.callers_of(qs.qual)}
    run.floor("U5-query-control", len(pos), 1)

    # ---- U6 "in the order they were queued" holds for the datagram, not only for the list handed to send_sd: the message
    # that is built keeps the entries in the order of that list (C02's codec rules for the header copy and the writer)
    from .sdcodec import codec_keeps
    if "U6" not in getattr(run, "without", ()):
        with run.part("U6 order on the wire"):
            codec_keeps(run, prog, tier, "U6", ("SOMEIPSDHeader.assign_option_indexes:shared-array-collected",
                                                "SOMEIPSDHeader.build:flags-reserved-len32-entries-len32-options"),
                        "the entries of one collection window leave in another order than they were queued")


TIMING_ONLY = ("timer-uses-the-timeout", "deadline-not-moved")


def queue_exactly_once(run, prog, tier, rule, timing=False):
    """'what is queued is transmitted exactly once, in order, to its destination' as supporting obligations of
    another property (the announcer's answers / offers / stop-offers all travel through queue_send)"""
    import sys
    from .. import report
    sub = report.subrun(sys.modules[__name__], "C15", prog, tier, run.seed, without=("U6",))
    n = 0
    for o in sub.obs:
        if o.rule in ("U6", "OM") or (not timing and any(k in o.construct for k in TIMING_ONLY)):
            continue  # *when* the flush happens matters only to properties that bound the delay
        n += 1
        run.ob(rule, o.construct, o.ok, o.loc, o.msg, o.detail, o.nontrivial)
    run.floor(rule, n, 12)
    run.paths += sub.paths
