"""Rules shared by the event-loop ordering properties (C04, C05, C06, C09): TimedStore typestate
(atomic notification, cancel-on-removal, arming, exactly-once expiry, reject-before-record) and the
ordering of reboot handling relative to the entries of the same message."""
from __future__ import annotations

import typing as t

from ..absint import IdentityUndetermined, eval_term
from ..effects import DeepInline, Eff, Effects, Slots
from ..facts import AnalysisError
from ..terms import const, contains, is_const, show, strip_sites, subterms
from ..util import NoInline, P, Scan, calls_to, engine, loc, param_at

TS = "sd.TimedStore"
PROTO = "sd.ServiceDiscoveryProtocol"


class Ctx:
    """shared, lazily built analysis state for one run"""

    def __init__(self, run, prog):
        self.run = run
        self.prog = prog
        self.scan = Scan(prog)
        self.slots = Slots(prog, self.scan)
        self.eng = self.scan.eng
        self._eff_cache: t.Dict = {}

    def effects(self, qual: str, recv: t.Optional[str] = None, unroll=1) -> t.List[Eff]:
        key = (qual, recv, unroll)
        if key not in self._eff_cache:
            ef = Effects(self.prog, DeepInline(unroll=unroll), self.slots)
            fi = self.prog.func(qual)
            self.run.analysed(fi)
            self._eff_cache[key] = ef.collect(fi, recv=recv)
            self.run.paths += ef.paths_enumerated
        return self._eff_cache[key]

    def m(self, cls, name):
        fi = self.prog.lookup_method(cls, name)
        if fi is None:
            raise AnalysisError(f"{cls}.{name} has vanished")
        self.run.analysed(fi)
        return fi

    # ---- TimedStore structure ------------------------------------------------
    def store_methods(self):
        """methods of TimedStore that mutate self.store"""
        out = []
        ci = self.prog.cls(TS)
        for name, fi in ci.methods.items():
            if name == "__init__" or self.scan.internal_helper(fi):
                continue  # an extracted helper is judged as part of the methods that call it
            for e in self.scan.events(fi.qual):
                if self._is_store_mutation(e):
                    out.append(fi)
                    break
        return out

    def _is_store_mutation(self, e) -> bool:
        def on_store(tm):
            return contains(tm, lambda s: s[0] == "attr" and s[2] == "store" and s[1] == ("self", TS))
        if e.kind == "store" and e.target is not None and e.target[0] == "item" and on_store(e.target):
            return True
        if e.kind == "store" and e.target == ("attr", ("self", TS), "store") and (e.func is None or e.func.name != "__init__"):
            return True  # the table itself is replaced: every entry it held is dropped
        if e.kind == "call" and e.attrname in ("pop", "clear", "popitem", "__delitem__", "update", "setdefault") and e.recv is not None \
                and on_store(e.recv) and not e.targets:
            return True
        return False

    def on_store(self, tm) -> bool:
        return contains(tm, lambda s: s[0] == "attr" and s[2] == "store" and s[1] == ("self", TS))

    def key_lookups(self, p):
        """events on path p that look a key up in the store: (event, 'pop'|'load'|'get', present?) where present
        is True/False when the path decides it (KeyError raised or not, result tested against None) else None"""
        out = []
        for e in p.events:
            if e.kind == "call" and e.attrname == "pop" and e.recv is not None and e.recv != ("attr", ("self", TS), "store") and self.on_store(e.recv) and not e.targets and e.args:
                if len(e.args) >= 2:
                    pres = None
                    for c, v, _, _ in p.conds:
                        if contains(c, lambda s_: s_ == e.result):
                            pres = v if c == e.result else (not v if c in (("unop", "not", e.result), ("cmp", "is", e.result, const(None))) else
                                                             (v if c == ("cmp", "is not", e.result, const(None)) else pres))
                    out.append((e, "pop", pres))
                else:
                    out.append((e, "pop", e.raised is None))
            elif e.kind == "load" and e.target is not None and e.target[0] == "item" and e.target[1][0] == "item" and self.on_store(e.target[1]):
                out.append((e, "load", e.raised is None))
            elif e.kind == "call" and e.attrname == "get" and e.recv is not None and e.recv[0] == "item" and self.on_store(e.recv) and e.args:
                pres = None
                for c, v, _, _ in p.conds:
                    if c == ("cmp", "is", e.result, const(None)) or c == ("unop", "not", e.result):
                        pres = not v
                    elif c == ("cmp", "is not", e.result, const(None)) or c == e.result:
                        pres = v
                out.append((e, "get", pres))
        return out

    def timer_target(self):
        """the TimedStore method armed by call_later (the expiry routine) and the arming event"""
        refresh = self.m(TS, "refresh")
        for e in self.scan.events(refresh.qual):
            if e.kind == "call" and e.sched == "later" and e.cb is not None and e.cb[0] == "bound" and e.cb[1] == ("self", TS):
                return self.prog.func(e.cb[2]), e
        return None, None

    def slot_role(self, fterm) -> t.Optional[str]:
        """'callback_new' / 'callback_expired' (refresh parameter names) for a callee term that is a
        stored or passed store callback"""
        if fterm is None:
            return None
        if fterm[0] == "param" and fterm[1] == TS + ".refresh":
            return fterm[2]
        if self.slots.store_owner(fterm) is not None:
            i = self.slots.slot_index(fterm)
            if i is not None and i in self.slots.store_slots:
                return self.slots.store_slots[i]
        return None


# ------------------------------------------------------------------------------- ATOMIC
def atomic_notifications(cx: Ctx, rule: str, what: str):
    """every TimedStore mutation and the callback that reports it happen in one synchronous step:
    no store callback is handed to call_soon / call_later / create_task"""
    run = cx.run
    n = 0
    for fi in cx.store_methods():
        n += 1
        deferred = []
        sync = 0
        for e in cx.scan.events(fi.qual):
            if e.kind != "call":
                continue
            if e.sched and cx.slot_role(e.cb) is not None:
                deferred.append(e)
            elif not e.sched and cx.slot_role(e.fterm) is not None:
                sync += 1
        run.ob(rule, f"{fi.qual}:callback-in-same-step", not deferred, loc(fi, deferred[0].node if deferred else None),
               (f"the store entry is removed now but its '{what}' callback is deferred with {deferred[0].attrname}: anything that runs in "
                "between sees the entry gone (or re-added) before the notification - history and state disagree") if deferred else
               f"{sync} callback invocation(s), all synchronous with the store update")
    run.floor(rule, n, 4)


# ------------------------------------------------------------------------------- counting / once
def expiry_once(cx: Ctx, rule: str):
    """stop / expiry: the key is removed first, the callback is invoked exactly once iff the removal
    succeeded, with the removed (entry, address)"""
    run = cx.run
    exp, _ = cx.timer_target()
    stop = cx.m(TS, "stop")
    done = 0
    for fi in [f for f in (exp, stop) if f is not None]:
        done += 1
        a_name, e_name = fi.params()[1], fi.params()[2]
        A, E = P(fi, a_name), P(fi, e_name)
        for p in cx.eng.paths(fi, recv=TS):
            run.paths += 1
            lks = [(e, k, pres) for e, k, pres in cx.key_lookups(p) if k == "pop"]
            pops = [e for e, k, pres in lks]
            cbs = [e for e in p.events if e.kind == "call" and ((not e.sched and cx.slot_role(e.fterm) == "callback_expired")
                                                                   or (e.sched and cx.slot_role(e.cb) == "callback_expired"))]
            if any(pres is None for e, k, pres in lks):
                raise AnalysisError(f"{fi.qual}: the result of the removal is not tested for presence on path [{p.describe()[:60]}]")
            ok_pop = [e for e, k, pres in lks if pres]
            want = 1 if ok_pop else 0
            good = len(cbs) == want and len(pops) <= 1
            if good and cbs:
                c = cbs[0]
                args = c.cbargs if c.sched else c.args
                good = tuple(args[:2]) == (E, A) and ok_pop[0].args[:1] == (E,) and ok_pop[0].seq < c.seq
            run.ob(rule, f"{fi.qual}:{'present' if ok_pop else 'absent'}-key", good and p.outcome[0] in ("fall", "return"), loc(fi),
                   f"key {'present' if ok_pop else 'absent'}: {len(cbs)} callback invocation(s) (expected {want}), removal first, arguments (entry, address)")
    run.floor(rule, done, 2)
    # bulk removal: one report per stored value, with that value's key and the address
    bulk = 0
    for fi in cx.store_methods():
        ps = cx.eng.paths(fi, recv=TS)
        clears_inner = False
        for p in ps:
            cl = [e for e in p.events if e.kind == "call" and e.attrname == "clear" and cx._is_store_mutation(e)
                  and e.recv is not None and e.recv[0] == "item"]
            # the per-address dict may also be taken out as a whole: stopping = self.store.pop(address, {})
            cl += [e for e in p.events if e.kind == "call" and e.attrname == "pop" and e.recv == ("attr", ("self", TS), "store") and e.args]
            if not cl:
                continue
            clears_inner = True
            elems = _items_elems(cx, p)
            cbs = [e for e in p.events if e.kind == "call" and ((not e.sched and cx.slot_role(e.fterm) == "callback_expired")
                                                                   or (e.sched and cx.slot_role(e.cb) == "callback_expired"))]
            addr = cl[0].recv[2] if cl[0].attrname == "clear" else cl[0].args[0]
            good = len(cbs) == len(elems)
            for el, c in zip(sorted(elems, key=lambda x: x[3]), cbs):
                args = c.cbargs if c.sched else c.args
                good = good and tuple(args[:2]) == (("item", el, const(0)), addr)
            bulk += 1
            run.ob(rule, f"{fi.qual}:bulk-removal[{len(elems)} value(s)]", good, loc(fi),
                   f"{len(elems)} stored value(s) dropped, {len(cbs)} report(s) with (that value's key, the address)")
        if clears_inner and not any(_items_elems(cx, p) for p in ps):
            run.ob(rule, f"{fi.qual}:bulk-removal-visits-values", False, loc(fi), "all values of an address are dropped without visiting them (no report, no timer cancel)")
    run.floor(rule + "-bulk", bulk, 2)


def owners_using(cx: Ctx, fi) -> t.Set[str]:
    """attribute names of the TimedStore objects (e.g. 'found_services', 'subscriptions') on which store method `fi`
    is (transitively, through other TimedStore methods) invoked, timers included"""
    ts_methods = {m.qual: m for m in cx.prog.cls(TS).methods.values()}
    reach = {fi.qual}
    changed = True
    while changed:
        changed = False
        for q, m in ts_methods.items():
            if q in reach:
                continue
            for e in cx.scan.events(q):
                if e.kind == "call" and ((any(f.qual in reach for f in e.targets) and e.recv == ("self", TS))
                                         or (e.sched and e.cb is not None and e.cb[0] == "bound" and e.cb[2] in reach and e.cb[1] == ("self", TS))):
                    reach.add(q)
                    changed = True
                    break
    owners = set()
    for f2, r, e in cx.scan.all():
        if e.kind == "call" and any(f.qual in reach for f in e.targets) and e.recv is not None and e.recv[0] == "attr" and e.recv != ("self", TS):
            ty = cx.eng.typer.type_of(e.recv)
            if ty == ("cls", TS):
                owners.add(e.recv[2])
    return owners


def every_removal_reported(cx: Ctx, rule: str, owners: t.Optional[t.Set[str]] = None):
    """no store method drops a value silently: on every path, each value taken out of the store (and not put back
    under the same key) has its callback invoked.  `owners`: only store methods used on these TimedStore attributes
    matter to the calling property (the class is shared by discovery and subscription bookkeeping)"""
    run = cx.run
    n = 0
    for fi in cx.store_methods():
        if owners is not None and not (owners_using(cx, fi) & owners):
            continue
        worst = None
        for p in cx.eng.paths(fi, recv=TS):
            run.paths += 1
            if p.outcome[0] == "raise":
                continue
            removed = 0
            for e, kind, pres in cx.key_lookups(p):
                if kind == "pop" and pres is not False and e.raised is None:
                    key = e.args[0]
                    readded = any(w.kind == "store" and cx._is_store_mutation(w) and w.target[2] == key and w.seq > e.seq for w in p.events)
                    if not readded:
                        removed += 1
            cbs = [e for e in p.events if e.kind == "call" and ((not e.sched and cx.slot_role(e.fterm) == "callback_expired")
                                                                   or (e.sched and cx.slot_role(e.cb) == "callback_expired"))]
            bulk = len(_items_elems(cx, p))
            if removed + bulk > len(cbs) and worst is None:
                worst = f"path [{p.describe()[:70]}] takes {removed + bulk} value(s) out of the store but reports {len(cbs)}"
        n += 1
        run.ob(rule, f"{fi.qual}:no-silent-removal", worst is None, loc(fi),
               "every value removed from the store is reported through its callback" if worst is None else
               worst + ": listeners keep believing in an entry that is gone (no 'stopped'/'unsubscribed', the next refresh looks new)")
    run.floor(rule + "-store-methods", n, 4)


def _items_elems(cx, p):
    """loop variables ranging over <store>[addr].items() that occur on path p"""
    elems = set()
    terms = [c for c, _, _, _ in p.conds]
    for e in p.events:
        if e.kind == "call":
            terms += list(e.args) + ([e.recv] if e.recv else []) + ([e.cb] if e.cb else []) + list(e.cbargs) + ([e.fterm] if e.fterm else [])
    for tm in terms:
        for s_ in subterms(tm):
            if s_[0] != "elem":
                continue
            it = s_[1]
            # snapshot idiom: for k, v in list(<store>[addr].items())
            while it[0] == "call" and it[1] in (("ext", "list"), ("ext", "tuple"), ("ext", "sorted"), ("ext", "iter")) and len(it[2]) == 1:
                it = it[2][0]
            if it[0] == "call" and it[1][0] == "attr" and it[1][2] == "items" and cx.slots.store_owner(it[1][1]) is not None:
                elems.add(s_)
    return elems


# ------------------------------------------------------------------------------- cancel on removal
def cancel_on_removal(cx: Ctx, rule: str):
    run = cx.run
    exp, arm = cx.timer_target()
    if exp is None:
        raise AnalysisError(f"{TS}: no call_later arming found (expiry routine unknown)")
    # index of the timer handle inside the stored tuple
    refresh = cx.m(TS, "refresh")
    hidx = None
    for e in cx.scan.events(refresh.qual):
        if e.kind == "store" and e.value is not None and e.value[0] == "tuple" and cx._is_store_mutation(e):
            for i, x in enumerate(e.value[1]):
                if x[0] != "param":
                    hidx = i
    if hidx is None:
        raise AnalysisError(f"{refresh.qual}: stored tuple has no timer-handle slot")
    n = 0
    for fi in cx.store_methods():
        if fi is exp:
            continue  # the firing timer itself: nothing to cancel
        for p in cx.eng.paths(fi, recv=TS):
            run.paths += 1
            removed = []  # terms of stored tuples taken out (or overwritten) on this path
            for e, kind, pres in cx.key_lookups(p):
                if kind == "pop" and pres is not False and e.result is not None and e.raised is None:
                    removed.append((e, ("item", e.result, const(hidx))))
            # in-place replacement: value looked up, then the same key written again
            for e, kind, pres in cx.key_lookups(p):
                if kind in ("load", "get") and pres is not False:
                    key = e.target[2] if kind == "load" else e.args[0]
                    val = e.target if kind == "load" else e.result
                    if any(w.kind == "store" and cx._is_store_mutation(w) and w.target[2] == key and w.seq > e.seq for w in p.events):
                        removed.append((e, ("item", val, const(hidx))))
            # bulk removal: every value visited by `for k, v in <store>[addr].items()` is dropped by clear()
            cleared = [e for e in p.events if e.kind == "call" and e.attrname == "clear" and cx._is_store_mutation(e)
                       and e.recv is not None and e.recv[0] == "item"]
            cleared += [e for e in p.events if e.kind == "call" and e.attrname == "pop" and e.recv == ("attr", ("self", TS), "store") and e.args]
            if cleared:
                for el in _items_elems(cx, p):
                    removed.append((cleared[0], ("item", ("item", el, const(1)), const(hidx))))
            # dropping the whole store: every address must have been handled by a store method first
            whole = [e for e in p.events if e.kind == "call" and e.attrname == "clear" and cx._is_store_mutation(e)
                     and e.recv is not None and e.recv[0] == "attr"]
            whole += [e for e in p.events if e.kind == "store" and e.target == ("attr", ("self", TS), "store") and cx._is_store_mutation(e)]
            if whole:
                n += 1
                deleg = [e for e in p.events if e.kind == "call" and e.targets and e.targets[0].cls is not None
                         and e.targets[0].cls.qual == TS and e.args and e.args[0][0] == "elem" and cx.slots.store_owner(e.args[0]) is not None]
                looped = any(c[0] == "elem" for c in [a for e in p.events if e.kind == "call" for a in e.args])
                ok = bool(deleg) or not looped and not any(e.loopdepth for e in p.events)
                if not deleg and not looped:
                    # zero iterations on this path: acceptable only if some other path delegates per address
                    ok = any(any(e.kind == "call" and e.targets and e.targets[0].cls is not None and e.targets[0].cls.qual == TS
                                 and e.args and e.args[0][0] == "elem" for e in q.events) for q in cx.eng.paths(fi, recv=TS))
                run.ob(rule, f"{fi.qual}:whole-store-drop-handles-every-address", ok, loc(fi, whole[0].node),
                       "before the whole store is cleared every address is passed to the per-address removal (which cancels and reports)" if ok else
                       "the whole store is cleared without cancelling the timers of its entries")
            for e, h in removed:
                n += 1
                cancels = [c for c in p.events if c.kind == "call" and c.attrname == "cancel" and strip_sites(c.recv) == strip_sites(h)]
                decided = [v for c, v, _, _ in p.conds if strip_sites(c) == strip_sites(h)
                           or strip_sites(c) == strip_sites(("cmp", "is not", h, const(None)))]
                if cancels:
                    ok = True
                    msg = "old timer cancelled"
                elif decided and decided[0] is False:
                    ok = True
                    msg = "no timer was armed for this entry (handle is None)"
                else:
                    ok = False
                    msg = "the entry is removed/replaced but its TTL timer is not cancelled: the stale timer later removes the successor entry"
                run.ob(rule, f"{fi.qual}:{'timer-cancelled' if cancels else 'no-timer' if ok else 'timer-left-armed'}", ok, loc(fi, e.node), msg)
    run.floor(rule, n, 4)


# ------------------------------------------------------------------------------- arming
def arming(cx: Ctx, rule: str):
    run, prog = cx.run, cx.prog
    refresh = cx.m(TS, "refresh")
    exp, _ = cx.timer_target()
    names = refresh.params()[1:]
    ttl, addr, entry = (P(refresh, n) for n in names[:3])
    g = prog.modules["sd"].consts.get("TTL_FOREVER")
    forever = getattr(g, "value", None)
    run.ob(rule, "sd.TTL_FOREVER:value", forever == 0xFFFFFF, loc(refresh), f"TTL_FOREVER = {forever!r}; the infinite TTL on the wire is the all-ones 24-bit value 0xFFFFFF")
    paths = cx.eng.paths(refresh, recv=TS)
    run.paths += len(paths)
    for tv, label in ((0xFFFFFF, "forever"), (1, "one-second"), (0xFFFFFE, "largest-finite"), (3, "three-seconds")):
        def leaf(tm):
            if tm == ttl:
                return tv
            if tm == ("attr", ("mod", "sd"), "TTL_FOREVER"):
                return forever
            raise AnalysisError(f"{refresh.qual}: arming depends on {show(tm)}")
        for known in (True, False):
            hits = []
            for p in paths:
                lk = cx.key_lookups(p)
                if lk and lk[0][2] is not None and lk[0][2] != known:
                    continue
                if not lk and any(e.kind == "caught" and e.value == "KeyError" for e in p.events) == known:
                    continue
                try:
                    okc = True
                    for c, v, _, _ in p.conds:
                        if contains(c, lambda s: s == ttl):
                            try:
                                if bool(eval_term(c, leaf)) != v:
                                    okc = False
                            except IdentityUndetermined:
                                pass  # `ttl is TTL_FOREVER`: a TTL that arrives from the wire is equal, not identical - both ways
                    if okc:
                        hits.append(p)
                except AnalysisError:
                    raise
            for p in hits:
                timers = [e for e in p.events if e.kind == "call" and e.sched == "later"]
                sts = [e for e in p.events if e.kind == "store" and cx._is_store_mutation(e) and e.value[0] == "tuple"]
                if p.outcome[0] == "raise":
                    continue
                if tv == 0xFFFFFF:
                    ok = not timers and len(sts) == 1 and const(None) in sts[0].value[1]
                    msg = (f"infinite TTL: {len(timers)} timer(s) armed, value stored {show(sts[0].value)[:80] if sts else '-'} "
                           "(no timer may be armed and the handle slot must be None - a kept old handle is a live stale timer)")
                else:
                    ok = len(timers) == 1 and len(sts) == 1
                    msg = f"TTL {tv}: {len(timers)} timer(s) armed"
                    if ok:
                        tm_ = timers[0]
                        ok = tm_.delay == ttl and tm_.cb == ("bound", ("self", TS), exp.qual) and tuple(tm_.cbargs) == (addr, entry) \
                            and tm_.result in sts[0].value[1] and sts[0].target[2] == entry
                        msg = (f"call_later({show(tm_.delay)}, {show(tm_.cb)}, {', '.join(show(a) for a in tm_.cbargs)}); "
                               "must be the received TTL unscaled, the expiry routine, the same (address, entry), and the returned handle must be stored")
                run.ob(rule, f"{refresh.qual}:arm[{label},{'refresh' if known else 'new'}]", ok, loc(refresh), msg)
    # the TTL handed to refresh() is the entry's TTL
    n = 0
    for fi, e in cx.slots.refresh_sites:
        n += 1
        a = e.arg(0, names[0])
        ok = a is not None and a[0] == "attr" and a[2] == "ttl"
        run.ob(rule, f"{fi.qual}:passes-entry-ttl", ok, loc(fi, e.node), f"TTL handed to the store is {show(a) if a else '?'}")
    run.floor(rule + "-sites", n, 2)


# ------------------------------------------------------------------------------- reject before record
def reject_before_record(cx: Ctx, rule: str):
    run = cx.run
    refresh = cx.m(TS, "refresh")
    pol = NoInline()
    pol.fork_uncaught = True  # the 'new' callback may reject (raise): those paths are part of the contract
    pol.load_raises = ()      # (the per-address dict is a defaultdict: subscripting the store does not raise)
    paths = engine(cx.prog, pol).paths(refresh, recv=TS)
    run.paths += len(paths)
    seen = 0
    for p in paths:
        news = [e for e in p.events if e.kind == "call" and not e.sched and cx.slot_role(e.fterm) == "callback_new"]
        dnews = [e for e in p.events if e.kind == "call" and e.sched and cx.slot_role(e.cb) == "callback_new"]
        sts = [e for e in p.events if e.kind == "store" and cx._is_store_mutation(e)]
        lk = cx.key_lookups(p)
        if lk and lk[0][2] is not None:
            is_new = not lk[0][2]
        elif any(e.kind == "caught" and e.value == "KeyError" for e in p.events):
            is_new = True
        elif lk:
            raise AnalysisError(f"{refresh.qual}: cannot tell new entries from refreshed ones (lookup result is not tested)")
        else:
            raise AnalysisError(f"{refresh.qual}: cannot tell new entries from refreshed ones (no lookup of the old value)")
        pops = [e for e, k, pres in lk]
        if is_new and p.outcome[0] != "raise":
            seen += 1
            ok = len(news) == 1 and not dnews and len(sts) == 1 and news[0].seq < sts[0].seq
            if len(news) == 1:
                names = refresh.params()[1:]
                A_, E_ = P(refresh, names[names.index("address")] if "address" in names else names[1]), \
                    P(refresh, names[names.index("entry")] if "entry" in names else names[2])
                oka = tuple(news[0].args) == (E_, A_) and not news[0].kwargs
                run.ob(rule, f"{refresh.qual}:new-entry-announced-with-entry-and-address", oka, loc(refresh, news[0].node),
                       "the 'new' callback receives (entry, address) of the record being added" if oka else
                       f"the 'new' callback is called with ({', '.join(show(a)[:30] for a in news[0].args)}); listeners key their history by (entry, address)")
            run.ob(rule, f"{refresh.qual}:new-entry-announced-before-recorded", ok, loc(refresh),
                   "a new entry is offered to the listener synchronously *before* it is recorded (a rejection leaves no record)" if ok else
                   f"new entry: {len(news)} synchronous / {len(dnews)} deferred 'new' callback(s), {len(sts)} store write(s), order {'ok' if news and sts and news[0].seq < sts[0].seq else 'wrong'}")
        if is_new and p.outcome[0] == "raise":
            ok = not sts
            run.ob(rule, f"{refresh.qual}:rejected-entry-not-recorded", ok, loc(refresh),
                   f"when the 'new' callback raises ({p.outcome[1]}) nothing is recorded" if ok else "a rejected entry is recorded anyway")
            # ... and nothing is left behind for it: a TTL timer armed before the rejection stays armed with no record to
            # own it; it later removes whatever is stored under that key then (an accepted successor)
            armed = [e for e in p.events if e.kind == "call" and e.sched == "later" and not e.raised]
            cancelled = [e for e in p.events if e.kind == "call" and e.attrname == "cancel" and not e.targets]
            ok2 = not armed or len(cancelled) >= len(armed)
            run.ob(rule, f"{refresh.qual}:rejected-entry-arms-no-timer", ok2, loc(refresh, armed[0].node if armed else None),
                   "a rejected entry leaves no TTL timer behind" if ok2 else
                   "the TTL timer is armed before the 'new' callback and survives its rejection: it fires for a key that was never recorded and "
                   "removes the entry a later, accepted request stored under it")
        if not is_new:
            ok = not news and not dnews
            run.ob(rule, f"{refresh.qual}:refresh-is-silent", ok, loc(refresh), f"refreshing a known entry makes {len(news) + len(dnews)} 'new' callback(s) (must be 0)")
        # the rejection must propagate: no handler in refresh swallows it
        for e in p.events:
            if e.kind == "caught" and e.value not in ("KeyError",) and news:
                run.ob(rule, f"{refresh.qual}:rejection-propagates", False, loc(refresh, e.node), f"refresh catches {e.value} around the 'new' callback")
    run.floor(rule, seen, 1)


# ------------------------------------------------------------------------------- S3 ordering
def reboot_before_entries(cx: Ctx, rule: str, component: str):
    """component: 'discovery' (C05) or 'announcer' (C06)"""
    run, prog = cx.run, cx.prog
    mr = cx.m(PROTO, "message_received")
    effs = cx.effects(mr.qual, PROTO)
    if component == "discovery":
        a_fn = cx.m("sd.ServiceDiscover", "reboot_detected").qual
        b_fn = cx.m("sd.ServiceDiscover", "handle_offer").qual
        label = "offers"
    else:
        a_fn = cx.m("sd.ServiceAnnouncer", "reboot_detected").qual
        b_fn = cx.m("sd.ServiceAnnouncer", "handle_subscribe").qual
        label = "subscribes"

    def relevant(e: Eff):
        return e.kind == "notify" or (e.kind == "state" and e.what[0] == TS and e.what[1] == "store")
    A = [e for e in effs if relevant(e) and a_fn in e.chain]
    B = [e for e in effs if relevant(e) and b_fn in e.chain and a_fn not in e.chain]
    if not A or not B:
        raise AnalysisError(f"{mr.qual}: reboot handling ({len(A)} effects) or entry handling ({len(B)} effects) of the {component} not reachable")
    worst = None
    for a in A:
        for b in B:
            if not a.before(b):
                if worst is None or (a.key, b.key) > (worst[0].key, worst[1].key):
                    worst = (a, b)
    run.ob(rule, f"{mr.qual}:{component}-reboot-before-{label}", worst is None, loc(mr),
           f"all {len(A)} reboot effects of the {component} precede all {len(B)} effects of the same message's {label} (stamps compared)" if worst is None else
           (f"reboot effect '{worst[0].what}' at {worst[0].ev.loc} runs in loop iteration +{worst[0].wave} (stamp {worst[0].stamp}), but the same message's "
            f"{label} effect '{worst[1].what}' at {worst[1].ev.loc} already ran in iteration +{worst[1].wave} (stamp {worst[1].stamp}): "
            "what was just learnt from the restarted peer is wiped / reported in the wrong order"))
