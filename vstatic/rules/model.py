"""Data-model audit: the facts about Python's object model that the rule sets rely on without saying so.

Every rule that compares objects, keys a table by them, removes them from a list, tests them for truth, converts a byte into
an enum member or builds them with a constructor reads the *caller* of those operations.  What `==`, `hash`, `bool(x)`,
`Enum(value)` and `Cls(...)` do is decided elsewhere - in a field declaration (`compare=False`), a dunder method, a
`__post_init__`, a `_missing_` hook, a decorator.  This module turns those assumptions into obligations of their own, stated
per class and named after the hook that breaks them; each property lists the classes whose object model it relies on.

M1  identity: how instances compare and hash (field set, order sensitivity of collection fields, or object identity)
M2  truthiness: instances are always true (no `__bool__` / `__len__`)
M3  construction stores what it is given (no `__post_init__` / `__new__` / `__init__` / `__setattr__` rewriting a field)
M4  attribute access is plain (no `__getattr__` / `__getattribute__` / `__setattr__` / `__delattr__`)
M5  enum conversion is strict: `Enum(value)` rejects every non-member value (a `_missing_` hook is evaluated)
M6  the decorator model: `utils.log_exceptions` catches exactly `Exception`, logs and returns None
"""
from __future__ import annotations

import ast

from ..facts import AnalysisError
from ..terms import const, show, subterms
from ..util import InlineOnly, NoInline, engine, loc

# what "the same object" means for the value classes the properties key their tables by (API facts: field names)
IDENTITY = {
    # a service description: ids, versions and the eventgroup set; the options are payload (a re-offer with other options is
    # the same service)
    "config.Service": ("fields", {"service_id", "instance_id", "major_version", "minor_version", "eventgroups"}, {"eventgroups"}),
    # a requested eventgroup: everything it says, the local endpoint included (the same eventgroup over UDP and over TCP are
    # two requests)
    "config.Eventgroup": ("fields", {"service_id", "instance_id", "major_version", "eventgroup_id", "sockname", "protocol"}, set()),
    # a subscription: ids, eventgroup, counter and the *set* of endpoints; TTL and other options do not take part
    "sd.EventgroupSubscription": ("fields", {"service_id", "instance_id", "major_version", "id", "counter", "endpoints"}, {"endpoints"}),
    # running things are themselves
    "sd.ServiceInstance": ("object",),
    "service.SimpleEventgroup": ("object",),
    "sd.SendCollector": ("object",),
}
ALL_FIELDS = "all declared fields"  # wire objects: equal iff every field is


def _package_mro(prog, cq):
    ci = prog.classes.get(cq)
    if ci is None:
        raise AnalysisError(f"{cq} vanished")
    return [prog.classes[c] for c in ci.mro if c in prog.classes]


def _method(prog, cq, name):
    for ci in _package_mro(prog, cq):
        if name in ci.methods:
            return ci.methods[name]
    return None


def _dataclass_kw(ci, key, default):
    for d in ci.node.decorator_list:
        if isinstance(d, ast.Call) and ast.unparse(d.func).split(".")[-1] == "dataclass":
            for kw in d.keywords:
                if kw.arg == key and isinstance(kw.value, ast.Constant):
                    return bool(kw.value.value)
    return default


def _ann_kind(ann) -> str:
    """ordered / unordered / scalar for a field annotation"""
    if ann is None:
        return "scalar"
    txt = ast.unparse(ann)
    head = txt.split("[")[0].split(".")[-1]
    if head in ("FrozenSet", "frozenset", "Set", "set", "AbstractSet"):
        return "unordered"
    if head in ("Tuple", "tuple", "List", "list", "Sequence"):
        return "ordered"
    return "scalar"


def _custom_eq_key(prog, fn):
    """the key a hand-written __eq__ compares: {attribute: 'ordered' | 'unordered' | 'raw'} or None when it cannot be read.
    Accepted shape: every path that does not decline (NotImplemented / False after a type test) returns KEY(self) == KEY(other)."""
    eng = engine(prog, InlineOnly(names=(), props=True, max_depth=1))
    me = ("self", fn.cls.qual)
    ps = fn.params()
    if len(ps) != 2:
        return None
    other = ("param", fn.qual, ps[1])
    key = {}
    seen = False
    for p in eng.paths(fn, recv=fn.cls.qual):
        if not p.returns():
            continue
        rv = p.retval()
        if rv in (const(False), const(NotImplemented)) or (rv[0] == "var" and rv[1] == "NotImplemented") or show(rv) == "NotImplemented":
            continue
        if rv[0] == "cmp" and rv[1] == "is" and {rv[2], rv[3]} == {me, other}:
            seen = True
            key["<identity>"] = "raw"
            continue
        parts = []

        def flatten(tm):
            if tm[0] == "bool" and tm[1] == "and":
                for x in tm[2]:
                    flatten(x)
            else:
                parts.append(tm)
        flatten(rv)
        for c in parts:
            if not (c[0] == "cmp" and c[1] in ("==", "is") and len(c) == 4):
                return None
            seen = True
            for side, obj in ((c[2], me), (c[3], other)):
                if side is c[3]:
                    continue
                for st in subterms(side):
                    if st[0] == "attr" and st[1] == obj:
                        how = "raw"
                        # wrapped in frozenset(..) / set(..) / sorted(..): order and multiplicity are dropped
                        for up in subterms(side):
                            if up[0] == "call" and up[1][0] == "ext" and up[1][1] in ("frozenset", "set", "sorted") and st in up[2]:
                                how = "unordered"
                        key[st[2]] = how
    return key if seen else None


def identity_of(prog, cq):
    """('object',) | ('fields', {names}, {names compared without order}) | ('custom', key dict | None, where)"""
    eq = _method(prog, cq, "__eq__")
    hs = _method(prog, cq, "__hash__")
    ci = prog.classes[cq]
    if eq is not None:
        return ("custom", _custom_eq_key(prog, eq), eq)
    if hs is not None and not prog.is_dataclass(cq):
        return ("custom", None, hs)
    if not prog.is_dataclass(cq):
        return ("object",)
    owner = next(c for c in _package_mro(prog, cq) if c.is_dataclass)
    if not getattr(owner, "is_namedtuple", False) and not _dataclass_kw(owner, "eq", True):
        return ("object",)
    flds = prog.all_fields(cq)
    return ("fields", {f.name for f in flds if f.compare}, {f.name for f in flds if f.compare and _ann_kind(f.annotation) == "unordered"})


def identity(run, prog, rule, cq, expect=None, why=""):
    """M1 for one class"""
    ci = prog.classes.get(cq)
    if ci is None:
        raise AnalysisError(f"{cq} vanished")
    want = expect or IDENTITY.get(cq)
    if want == ALL_FIELDS or want is None:
        flds = prog.all_fields(cq)
        want = ("fields", {f.name for f in flds}, {f.name for f in flds if _ann_kind(f.annotation) == "unordered"})
    got = identity_of(prog, cq)
    where = loc(got[2]) if got[0] == "custom" else f"{ci.module.relpath}:{ci.node.lineno}"
    if got[0] == "custom":
        key = got[1]
        if key is None:
            raise AnalysisError(f"{cq}: hand-written {got[2].name} at {where} cannot be read (what makes two instances equal?)")
        if want[0] == "object":
            ok = set(key) == {"<identity>"}
            msg = f"{cq} compares by {sorted(key)} ({got[2].qual}); two distinct {ci.name} objects must never be equal - " \
                  "`list.remove(x)` / `x in list` / dict and set lookups then act on another object than the one named"
        else:
            okf = set(key) == want[1]
            oko = all((key.get(f) == "unordered") == (f in want[2]) for f in want[1] if f in key)
            ok = okf and oko
            msg = f"{cq} compares by {({k: v for k, v in sorted(key.items())})} ({got[2].qual}); expected field-wise equality over {sorted(want[1])}" \
                  + ("" if oko else " - a collection field is compared without its order / multiplicity: objects with different wire images are equal")
    elif got[0] == "object":
        ok = want[0] == "object"
        msg = f"{cq} instances are equal only to themselves" + ("" if ok else f"; expected field-wise equality over {sorted(want[1])}")
    else:
        if want[0] == "object":
            ok = False
            msg = f"{cq} compares field-wise over {sorted(got[1])}; two distinct {ci.name} objects must never be equal"
        else:
            ok = got[1] == want[1] and got[2] == want[2]
            extra, missing = sorted(got[1] - want[1]), sorted(want[1] - got[1])
            msg = f"{cq} compares (and hashes) by {sorted(got[1])}" + (
                "" if ok else
                (f"; {missing} no longer take part: objects that differ only there are one key / one list element" if missing else "") +
                (f"; {extra} take part: the same thing said with another {extra[0]} is a different key" if extra else "") +
                (f"; {sorted(got[2] ^ want[2])} changed between set and sequence: equality now depends on order" if got[2] != want[2] else ""))
    run.ob(rule, f"{cq}:identity", ok, where, msg + (f" [{why}]" if why and not ok else ""))
    # the constructors hand the collection fields the collection the declaration promises (a frozenset field built from a
    # tuple compares by order whatever the annotation says) - decided on the class methods that construct the class
    if want[0] == "fields" and want[2]:
        for m in ci.methods.values():
            if m.kind != "classmethod":
                continue
            for p in engine(prog, NoInline()).paths(m, recv=cq):
                if not p.returns():
                    continue
                rv = p.retval()
                if rv[0] == "new" and rv[1] == cq:
                    for f, v in rv[2]:
                        if f in want[2]:
                            okc = v[0] == "set" or (v[0] == "comp" and v[1] == "set") or (v[0] == "call" and v[1][0] == "ext" and v[1][1] in ("frozenset", "set")) \
                                or (v[0] == "attr" and v[2] == f)  # (copied from another instance's field)
                            run.ob(rule, f"{m.qual}:{f}-is-a-set", okc, loc(m), f"{f} = {show(v)[:60]}" + ("" if okc else f"; must be a (frozen)set: the identity of a {ci.name} does not depend on the order of its {f}"))


def always_truthy(run, prog, rule, cq):
    """M2"""
    ci = prog.classes[cq]
    bad = _method(prog, cq, "__bool__") or _method(prog, cq, "__len__")
    run.ob(rule, f"{cq}:always-true", bad is None, loc(bad) if bad is not None else f"{ci.module.relpath}:{ci.node.lineno}",
           f"{ci.name} objects are always true" if bad is None else
           f"{bad.qual} makes a {ci.name} false in some state: `if obj:` / `assert obj` / `obj or default` on a looked-up {ci.name} no longer mean 'found'")


def constructor_keeps_fields(run, prog, rule, cq, fields=None):
    """M3: after construction every field holds the constructor's argument"""
    ci = prog.classes[cq]
    bad = None
    why = ""
    for hook in ("__new__", "__setattr__"):
        m = _method(prog, cq, hook)
        if m is not None:
            bad, why = m, f"{m.qual} intervenes in construction"
    init = _method(prog, cq, "__init__")
    if bad is None and init is not None and prog.is_dataclass(cq):
        bad, why = init, f"{init.qual} replaces the generated constructor"
    pi = _method(prog, cq, "__post_init__")
    if bad is None and pi is not None:
        me = ("self", cq)
        eng = engine(prog, InlineOnly(names=(), props=True, max_depth=1))
        for p in eng.paths(pi, recv=cq):
            for e in p.events:
                tgt = val = None
                if e.kind == "store" and e.target is not None and e.target[0] == "attr" and e.target[1] == me:
                    tgt, val = e.target[2], e.value
                elif e.kind == "call" and e.fterm is not None and show(e.fterm).endswith("__setattr__") and len(e.args) >= 3 and e.args[0] == me \
                        and e.args[1][0] == "const":
                    tgt, val = e.args[1][1], e.args[2]
                elif e.kind == "call" and e.attrname == "__setattr__" and len(e.args) == 2 and e.args[0][0] == "const":
                    tgt, val = e.args[0][1], e.args[1]
                if tgt is None or (fields is not None and tgt not in fields):
                    continue
                # a conversion of the field's own value to the declared collection type keeps the value
                keeps = val == ("attr", me, tgt) or (val is not None and val[0] == "call" and val[1][0] == "ext" and val[1][1] in ("frozenset", "tuple")
                                                     and val[2] == (("attr", me, tgt),))
                if not keeps and bad is None:
                    bad, why = pi, f"{pi.qual} overwrites `{tgt}` with {show(val)[:50]}"
    run.ob(rule, f"{cq}:constructor-keeps-its-arguments", bad is None, loc(bad) if bad is not None else f"{ci.module.relpath}:{ci.node.lineno}",
           f"a {ci.name} holds exactly the field values it was built with" if bad is None else
           f"{why}: the object the methods see is not the one that was described (values that were passed in are silently replaced)")


def plain_attributes(run, prog, rule, cq):
    """M4"""
    ci = prog.classes[cq]
    bad = None
    for hook in ("__getattr__", "__getattribute__", "__delattr__") + (() if prog.is_dataclass(cq) else ("__setattr__",)):
        bad = bad or _method(prog, cq, hook)
    run.ob(rule, f"{cq}:plain-attribute-access", bad is None, loc(bad) if bad is not None else f"{ci.module.relpath}:{ci.node.lineno}",
           "attributes are read and written directly" if bad is None else f"{bad.qual} intercepts attribute access: what `obj.x` yields is decided there")


def value_class(run, prog, rule, cq, expect=None, fields=None, why=""):
    """M1..M4 for one class a property relies on"""
    identity(run, prog, rule, cq, expect, why)
    always_truthy(run, prog, rule, cq)
    constructor_keeps_fields(run, prog, rule, cq, fields)
    plain_attributes(run, prog, rule, cq)


def strict_enum(run, prog, rule, eq):
    """M5: Enum(value) raises ValueError for every value that is no member (what the decoders turn into ParseError)"""
    from ..sym import enum_members
    ci = prog.classes.get(eq)
    if ci is None:
        raise AnalysisError(f"{eq} vanished")
    members = enum_members(prog, eq)
    vals = {int(v) for v in members.values()}
    hook = _method(prog, eq, "_missing_")
    bad = None
    for h in ("__new__", "__call__", "_generate_next_value_"):
        if _method(prog, eq, h) is not None:
            raise AnalysisError(f"{eq}: {h} is not modelled")
    if hook is not None:
        eng = engine(prog, InlineOnly(names=(), props=True, max_depth=2))
        for v in range(256):
            if v in vals:
                continue
            for p in eng.paths(hook, recv=eq, args=(const(v),)):
                if p.returns() and p.retval() != const(None) and bad is None:
                    bad = (v, show(p.retval())[:50])
    where = loc(hook) if hook is not None else f"{ci.module.relpath}:{ci.node.lineno}"
    run.ob(rule, f"{eq}:conversion-is-strict", bad is None, where,
           f"{ci.name}(value) accepts exactly its {len(vals)} member values" if bad is None else
           f"{ci.name}({bad[0]:#x}) no longer raises: {hook.qual} maps the non-member value to {bad[1]} - a byte that is not in the table decodes, "
           "and encodes again as another byte")
    # no two names for one value that differ in meaning is out of scope; an alias decodes to the first name


def decorator_model(run, prog, rule):
    """M6: the engine treats a function decorated with utils.log_exceptions as 'exceptions derived from Exception end it with
    None'; the decorator's two wrappers must be exactly that"""
    fn = prog.functions.get("utils.log_exceptions")
    if fn is None:
        raise AnalysisError("utils.log_exceptions vanished")
    wrappers = [n for n in ast.walk(fn.node) if isinstance(n, (ast.FunctionDef, ast.AsyncFunctionDef)) and n.name == "wrapper"]
    ok = len(wrappers) >= 1
    why = f"{len(wrappers)} wrapper(s)"
    for w in wrappers:
        body = [s for s in w.body if not (isinstance(s, ast.Expr) and isinstance(s.value, ast.Constant))]
        if not (len(body) == 1 and isinstance(body[0], ast.Try) and not body[0].finalbody and not body[0].orelse and len(body[0].handlers) == 1):
            ok, why = False, "the wrapper is not a single try / except"
            continue
        tr = body[0]
        h = tr.handlers[0]
        if not (isinstance(h.type, ast.Name) and h.type.id == "Exception"):
            ok, why = False, f"the wrapper catches {ast.unparse(h.type) if h.type is not None else 'everything'} (the model: exactly Exception - " \
                             "CancelledError and other BaseExceptions pass through)"
        if any(isinstance(n, (ast.Raise, ast.Return)) and (not isinstance(n, ast.Return) or n.value is not None) for s in h.body for n in ast.walk(s)):
            ok, why = False, "the handler raises or returns a value (the model: log, then None)"
        rets = [s for s in tr.body if isinstance(s, ast.Return)]
        if len(tr.body) != 1 or len(rets) != 1:
            ok, why = False, "the protected part is not `return [await] f(self, *args, **kwargs)`"
        else:
            v = rets[0].value
            if isinstance(v, ast.Await):
                v = v.value
            if not (isinstance(v, ast.Call) and isinstance(v.func, ast.Name) and v.func.id == "f"):
                ok, why = False, "the protected part does not call the decorated function"
    run.ob(rule, "utils.log_exceptions:catches-Exception-returns-None", ok, loc(fn),
           "the decorator logs exceptions derived from Exception and returns None, everything else passes" if ok else why)


def memoisation(run, prog, rule, classes):
    """M7: a function memoised with functools.lru_cache / cache answers from its table whenever the arguments are *equal*.
    For an argument class whose equality leaves fields out (compare=False), two calls that differ only there get the first
    call's result: the result may not depend on those fields (nor be, or embed, the argument object itself)"""
    from ..terms import contains
    from ..util import P
    eng = engine(prog, InlineOnly(names=(), props=True, max_depth=1))
    for fi in sorted(prog.functions.values(), key=lambda f: f.qual):
        if not any(d.split(".")[-1] in ("lru_cache", "cache") for d in fi.decorators):
            continue
        a = fi.node.args
        for arg in a.posonlyargs + a.args + a.kwonlyargs:
            ty = eng.typer.ann_type(arg.annotation, fi.module) if arg.annotation is not None else None
            if arg.arg in ("self", "cls") and fi.cls is not None and ty is None:
                ty = ("cls", fi.cls.qual)
            cq = ty[1] if ty and ty[0] == "cls" else None
            if cq not in classes or not prog.is_dataclass(cq):
                continue
            ignored = {f.name for f in prog.all_fields(cq) if not f.compare}
            if not ignored:
                continue
            pt = ("self", cq) if arg.arg == "self" else P(fi, arg.arg)
            dep = None
            for p in eng.paths(fi, recv=fi.cls.qual if fi.cls is not None else None):
                if not p.returns():
                    continue
                rv = p.retval()
                if contains(rv, lambda t_: t_[0] == "attr" and t_[1] == pt and t_[2] in ignored):
                    dep = dep or "reads " + ", ".join(sorted(t_[2] for t_ in subterms(rv) if t_[0] == "attr" and t_[1] == pt and t_[2] in ignored))
                bare = rv == pt or contains(rv, lambda t_: t_ == pt) and not contains(rv, lambda t_: t_[0] == "attr" and t_[1] == pt)
                if bare:
                    dep = dep or "is (or embeds) the argument object itself"
            run.ob(rule, f"{fi.qual}:memoised-on-full-identity[{arg.arg}]", dep is None, loc(fi),
                   f"memoised on the equality of {cq}, which leaves out {sorted(ignored)}; the result does not depend on them" if dep is None else
                   f"memoised on the equality of {cq}, which leaves out {sorted(ignored)}, but the result {dep}: a second call with an equal "
                   f"{prog.classes[cq].name} that differs in {sorted(ignored)} is answered with the first call's result (stale {sorted(ignored)[0]})")


# ---------------------------------------------------------------------------------------------------------------------
# which classes' object model each property's argument rests on (one line of reason each)
def _option_classes(prog):
    return sorted(q for q, ci in prog.classes.items() if "header.SOMEIPSDOption" in ci.mro and prog.is_dataclass(q))


RELIES = {
    # wire objects: `parse(build(m)) == m` and "equal message" are statements about ==; the enums are the reject tables
    "C01": dict(wire=["header.SOMEIPHeader"], enums=["header.SOMEIPMessageType", "header.SOMEIPReturnCode"]),
    # option runs are shared when they are *equal* (header._find compares options with !=, keys its skip table by hash)
    "C02": dict(wire=["header.SOMEIPSDHeader", "header.SOMEIPSDEntry", "<options>"], enums=["header.SOMEIPSDEntryType"]),
    # "decodable" is what the enums accept
    "C03": dict(enums=["header.SOMEIPMessageType", "header.SOMEIPReturnCode", "header.SOMEIPSDEntryType"]),
    "C05": dict(values=["config.Service"], why="found services and watched filters are keyed by the service description"),
    "C06": dict(values=["sd.EventgroupSubscription"], why="the subscription store is keyed by the subscription"),
    "C09": dict(values=["sd.EventgroupSubscription", "config.Service"], why="a refresh / stop / expiry finds its record by equality of the stored key"),
    "C10": dict(values=["sd.ServiceInstance"], decorators=["sd.ServiceInstance"], why="stop_announce_service removes the instance it is given from a list"),
    "C11": dict(values=["sd.ServiceInstance", "sd.EventgroupSubscription"], why="the announcer asks the instances on its list; the list is edited by list.remove(instance)"),
    "C12": dict(values=["sd.ServiceInstance", "config.Service"], decorators=["sd.ServiceInstance"], why="the announcer asks the instances on its list; the list is edited by list.remove(instance)"),
    "C13": dict(values=["config.Service"], decorators=["sd.ServiceDiscover"], why="watched_services and found_services are keyed by the service description"),
    "C14": dict(values=["config.Eventgroup"], decorators=["sd.ServiceSubscriber"], why="the requested set is a list of (eventgroup, server) pairs edited by list.remove"),
    "C15": dict(values=["sd.SendCollector"]),
    "C16": dict(wire=["header.SOMEIPHeader"]),
    "C17": dict(values=["service.SimpleEventgroup"], wire=["<endpoint-options>"], decorators=["service.SimpleEventgroup", "service.SimpleService"],
                why="eventgroups are looked up and tested for truth; the subscriber set is a set of endpoint options"),
    "C18": dict(wire=["header.SOMEIPHeader"], enums=["header.SOMEIPMessageType", "header.SOMEIPReturnCode"], decorators=["header.SOMEIPHeader", "header.SOMEIPReader"]),
    "C19": dict(values=["config.Service", "config.Eventgroup"], why="the matching laws are stated about the descriptions as they were written"),
    "C20": dict(wire=["header.SOMEIPHeader", "header.SOMEIPSDHeader", "header.SOMEIPSDEntry", "<options>"],
                enums=["header.SOMEIPMessageType", "header.SOMEIPReturnCode", "header.SOMEIPSDEntryType"]),
    "C08": dict(decorators=["service.SimpleEventgroup", "sd.ServiceDiscoveryProtocol", "sd._SessionStorage"]),
}


def audit(run, prog, prop, rule="OM"):
    """the object-model obligations of one property (see RELIES)"""
    spec = RELIES.get(prop)
    if not spec:
        return
    n0 = len(run.obs)
    with run.part(f"{rule} object model"):
        for cq in spec.get("values", ()):
            value_class(run, prog, rule, cq, why=spec.get("why", ""))
        for cq in spec.get("wire", ()):
            group = _option_classes(prog) if cq == "<options>" else \
                [q for q in _option_classes(prog) if "header.EndpointOption" in prog.classes[q].mro] if cq == "<endpoint-options>" else [cq]
            for q in group:
                value_class(run, prog, rule, q, expect=ALL_FIELDS, why=spec.get("why", "wire objects are equal iff every field is"))
        for eq in spec.get("enums", ()):
            strict_enum(run, prog, rule, eq)
        if spec.get("values"):
            memoisation(run, prog, rule, set(spec["values"]))
        # (the decorator's own behaviour matters to a property only while a method of the classes its argument reads is
        # decorated with it)
        used = [f.qual for f in prog.functions.values() if f.log_exceptions and f.cls is not None and f.cls.qual in spec.get("decorators", ())]
        if used:
            decorator_model(run, prog, rule)
    if spec.get("values") or spec.get("wire") or spec.get("enums"):
        run.floor(f"{rule}-{prop}", len(run.obs) - n0, 1)
