"""C12 - FindService is answered only by matching, ready instances, by unicast, in time.

F1  gate: an instance matches a find only while its may-answer flag is set, and then exactly when its
    service description matches (C19 table); the flag implies 'running and first offer sent' (typestate)
F2  one answer per matching instance, addressed to the requester: the scheduling call sits in a loop over
    exactly the instances that matched, one scheduling edge each, target = that instance's offer sender
F3  channel -> delay: multicast requests are answered through call_later(uniform(REQUEST_RESPONSE_DELAY_MIN,
    MAX)), unicast ones through call_soon; sd_message_received passes the reception channel
F4  the answer is the instance's own offer entry with ANNOUNCE_TTL, queued for the requester's address
O4  the deferred answer re-checks the running state when it runs (shared with C10)
"""
from __future__ import annotations

from ..absint import eval_term
from ..facts import AnalysisError
from ..terms import const, contains, show, strip_sites
from ..util import InlineOnly, NoInline, P, Scan, calls_to, engine, loc, param_at, sched_targets
from .derived import cache_coherence
from .C10 import ANN, INST, TIMING_VALUATIONS, timing_leaf

PROTO = "sd.ServiceDiscoveryProtocol"


def check(run, prog, tier):
    from . import model as _model
    _model.audit(run, prog, 'C12')
    # which instances answer is decided from the live instance list / running state
    cache_coherence(run, prog, "F6", ['sd.ServiceAnnouncer', 'sd.ServiceInstance'])
    run.explanation = (
        "handle_findservice and ServiceInstance.matches_find are small: their complete path sets (two loop "
        "iterations = two instances) are enumerated; which instances get an answer scheduled, with which target, "
        "arguments and delay, is read off the scheduling events and compared with which instances matched on that "
        "path.  The matching predicate itself is decided exhaustively in C19; the ready-state typestate in C10."
    )
    run.trusted += ["loop.call_soon / call_later run the callback with the given arguments", "random.uniform(a, b) returns a value in [a, b]"]
    run.not_decided += ["that the drawn delay lies inside the window and the timer fires on time"]
    mf = prog.lookup_method(INST, "matches_find")
    hf = prog.lookup_method(ANN, "handle_findservice")
    so = prog.lookup_method(INST, "_send_offer")
    smf = prog.lookup_method("config.Service", "matches_find")
    if not all((mf, hf, so, smf)):
        raise AnalysisError("matches_find / handle_findservice / _send_offer vanished")
    run.analysed(mf, hf, so)
    me = ("self", INST)
    e0 = engine(prog, NoInline())

    # ------------------------------------------------------------------ F1
    ent = P(mf, param_at(mf, 0, "entry"))
    paths = e0.paths(mf, recv=INST)
    run.paths += len(paths)
    for flag in (False, True):
        def leaf(tm):
            if tm == ("attr", me, "_can_answer_offers"):
                return flag
            if tm == ("attr", me, "_task"):
                return object() if flag else None
            raise AnalysisError(f"{mf.qual}: gate depends on {show(tm)}")
        hits = [p for p in paths if all(bool(eval_term(c, leaf)) == v for c, v, _, _ in p.conds)]
        if len(hits) != 1:
            raise AnalysisError(f"{mf.qual}: {len(hits)} paths for may-answer={flag}")
        p = hits[0]
        if not flag:
            ok = p.returns() and p.retval() == const(False)
            run.ob("F1", f"{mf.qual}:silent-when-not-ready", ok, loc(mf),
                   "an instance in its initial wait phase (or stopped) matches no find" if ok else f"not ready: returns {show(p.retval()) if p.returns() else p.outcome}")
        else:
            rv = p.retval() if p.returns() else None
            ok = rv is not None and rv[0] == "call" and rv[1] == ("bound", ("attr", me, "service"), smf.qual) and rv[2] == (ent,)
            run.ob("F1", f"{mf.qual}:ready-means-service-matches", ok, loc(mf),
                   "a ready instance matches exactly when its service description matches the find entry" if ok else f"ready: returns {show(rv) if rv else p.outcome}")
    # the predicate itself: exhaustive wildcard table of Service.matches_find (rule set of C19)
    from . import C19
    e19 = engine(prog, InlineOnly(names=(), props=True, max_depth=3))
    before = len(run.obs)
    C19._table(run, prog, e19, "matches_find", "find")
    for o in run.obs[before:]:
        o.rule = "F1"
    # typestate shared with C10-O3
    stop = prog.lookup_method(INST, "stop")
    ot = prog.lookup_method(INST, "_offer_task")
    scan = Scan(prog)
    cleared = False
    for p in scan.paths.get((stop.qual, INST), []):
        if p.returns():
            sts = {e.attrname: e.value for e in p.events if e.kind == "store" and e.target[0] == "attr" and e.target[1] == me}
            cleared = sts.get("_task") == const(None) and sts.get("_can_answer_offers") == const(False)
    run.ob("F1", f"{stop.qual}:clears-may-answer-with-running-state", cleared, loc(stop),
           "stop() clears the may-answer flag together with the running state" if cleared else
           "stop() leaves the may-answer flag set: a stopped instance keeps answering FindService")
    setters = [(fi, e) for fi, r, e in scan.all() if e.kind == "store" and e.attrname == "_can_answer_offers" and e.value == const(True)]
    run.ob("F1", f"{INST}:may-answer-set-only-by-task", bool(setters) and all(fi.qual == ot.qual for fi, e in setters), loc(ot),
           f"the may-answer flag is set in {sorted({fi.qual for fi, e in setters})}")
    # "every running instance that has already sent its first offer" answers: a task that ends on its own (an instance
    # without cyclic offers, after its repetitions) leaves a *running* instance behind - the flag must survive that exit;
    # only a cancellation (stop) and stop() itself clear it
    ce = engine(prog, NoInline())
    ce.policy.cancel_at_await = True
    n_norm, lost = 0, None
    for p in ce.paths(ot, recv=INST):
        if not p.returns():
            continue
        sts = [e for e in p.events if e.kind == "store" and e.attrname == "_can_answer_offers" and e.target[1] == me]
        if not sts:
            continue
        n_norm += 1
        if sts[-1].value != const(True):
            lost = sts[-1]
    run.paths += n_norm
    run.ob("F1", f"{ot.qual}:may-answer-survives-normal-task-end", n_norm > 0 and lost is None, loc(ot, lost.node if lost is not None else None),
           f"on all {n_norm} path(s) on which the offer task ends without being cancelled the may-answer flag stays set" if lost is None else
           "the offer task clears the may-answer flag when it ends on its own (no cyclic offers configured): the instance is still "
           "running and offered, but no longer answers FindService")

    # ------------------------------------------------------------------ F2 / F3
    pol = InlineOnly(names=(), props=False, max_depth=0, unroll=3 if tier == "thorough" else 2)
    eng = engine(prog, pol)
    entp = P(hf, param_at(hf, 0, "entry"))
    addr = P(hf, param_at(hf, 1, "addr"))
    chan = P(hf, param_at(hf, 2, "received_over_multicast"))
    hpaths = eng.paths(hf, recv=ANN)
    run.paths += len(hpaths)
    annme = ("self", ANN)
    checked = 0
    probs = {}
    for p in hpaths:
        if not p.returns():
            probs.setdefault("F2:total", f"handle_findservice may raise {p.outcome[1]}")
            continue
        mcalls = calls_to(p, mf.qual)
        matched = []
        for c in mcalls:
            d = [v for cc, v, _, _ in p.conds if cc == c.result]
            if c.args[:2] != (entp, addr):
                probs.setdefault("F2:gate-arguments", f"matches_find called with ({', '.join(show(a) for a in c.args)}); expected (entry, addr)")
            if d and d[0]:
                matched.append(c.recv)
        scheds = [e for e in p.events if e.kind == "call" and e.sched]
        mc = [v for cc, v, _, _ in p.conds if cc == chan or cc == ("unop", "not", chan)]
        if matched:
            checked += 1
            targets = []
            for e in scheds:
                tg = sched_targets(eng, p, e, hf)
                if len(tg) != 1 or tg[0][0][0] != "bound" or tg[0][0][2] != so.qual:
                    probs.setdefault("F2:answer-target", f"schedules {show(e.cb)[:60]}, not the matching instance's offer sender")
                    continue
                cb, cargs, ckw = tg[0]
                targets.append(cb[1])
                dest = cargs[0] if cargs else dict(ckw).get("remote")
                extra = [k for k, v in ckw if k != "remote"] + list(cargs[1:])
                if dest != addr or extra:
                    probs.setdefault("F2:answer-destination", f"the answer is scheduled with arguments ({', '.join(show(a) for a in cargs)} {dict(ckw)}); must be the requester's address only")
            if sorted(map(repr, targets)) != sorted(map(repr, matched)):
                probs.setdefault("F2:one-answer-per-matching-instance",
                                 f"{len(matched)} instance(s) matched but answers were scheduled for {len(targets)} ({[show(t_)[:30] for t_ in targets]})")
            # channel -> delay
            chan_val = None
            for cc, v, _, _ in p.conds:
                if cc == chan:
                    chan_val = v
                elif cc == ("unop", "not", chan):
                    chan_val = not v
            if chan_val is None:
                probs.setdefault("F3:channel-decides", "the reception channel does not decide how the answer is scheduled")
            for e in scheds:
                if chan_val is True:
                    okd = e.sched == "later"
                    if okd:
                        try:
                            for V in TIMING_VALUATIONS:
                                d = eval_term(e.delay, timing_leaf(annme, valuation=V))
                                okd = okd and d == ("uniform", V["REQUEST_RESPONSE_DELAY_MIN"], V["REQUEST_RESPONSE_DELAY_MAX"])
                        except AnalysisError:
                            okd = False
                    if not okd:
                        probs.setdefault("F3:multicast-request-delayed", f"multicast request answered via {e.attrname}({show(e.delay) if e.delay else ''}); "
                                         "must be call_later(uniform(REQUEST_RESPONSE_DELAY_MIN, REQUEST_RESPONSE_DELAY_MAX))")
                elif chan_val is False:
                    if e.sched != "soon":
                        probs.setdefault("F3:unicast-request-immediate", f"unicast request answered via {e.attrname} (adds delay); must be call_soon")
        else:
            if scheds:
                probs.setdefault("F2:nobody-matched", "an answer is scheduled although no instance matched")
    for key in ("F2:total", "F2:gate-arguments", "F2:answer-target", "F2:answer-destination", "F2:one-answer-per-matching-instance", "F2:nobody-matched",
                "F3:channel-decides", "F3:multicast-request-delayed", "F3:unicast-request-immediate"):
        run.ob(key[:2], f"{hf.qual}:{key[3:]}", key not in probs, loc(hf), probs.get(key, f"holds on all {checked} answering paths (0, 1 and 2 instances, both channels)"))
    run.floor("F2-paths", checked, 2)
    # the instances asked are the announced ones
    it_ok = any(c.recv is not None and c.recv[0] == "elem" and c.recv[1] == ("attr", annme, "announcing_services") for p in hpaths for c in calls_to(p, mf.qual))
    # ... every one of them: the loop that asks the instances has no early exit (a `break` / `return` after the first match
    # silences every later instance that matches too - e.g. two instances that differ only in their version)
    import ast as _ast
    early = None
    for node in _ast.walk(hf.node):
        if isinstance(node, (_ast.For, _ast.While)) and any(isinstance(x, _ast.Attribute) and x.attr == mf.name for x in _ast.walk(node)):
            stack = list(node.body)
            while stack:
                x = stack.pop()
                if isinstance(x, (_ast.Break, _ast.Return)):
                    early = x
                    break
                if isinstance(x, (_ast.FunctionDef, _ast.AsyncFunctionDef, _ast.Lambda, _ast.For, _ast.While)):
                    continue
                stack.extend(_ast.iter_child_nodes(x))
    run.ob("F2", f"{hf.qual}:asks-every-announced-instance", it_ok and early is None, loc(hf, early),
           "every announced instance is asked" if it_ok and early is None else
           ("the loop over the announced instances is left early: instances after the first match are never asked although they may match as well"
            if early is not None else "the instances asked are not the announced ones"))
    # sd_message_received passes the channel
    smr = prog.lookup_method(PROTO, "sd_message_received")
    run.analysed(smr)
    mcp = P(smr, param_at(smr, 2, "multicast"))
    adp = P(smr, param_at(smr, 1, "addr"))
    okc = False
    n = 0
    for p in e0.paths(smr, recv=PROTO):
        for c in calls_to(p, hf.qual):
            n += 1
            okc = c.arg(2, "received_over_multicast") == mcp and c.arg(1, "addr") == adp and c.args[0][0] == "elem"
    run.ob("F3", f"{smr.qual}:passes-channel-and-sender", okc and n >= 1, loc(smr), "FindService entries are handed over with the sender address and the reception channel")

    # every entry handed to queue_send is transmitted exactly once (C15 rule set as supporting obligations)
    from .C15 import queue_exactly_once
    queue_exactly_once(run, prog, tier, "F5", timing=True)

    # ------------------------------------------------------------------ F4 / O4: the answer itself
    qs = prog.lookup_method(ANN, "queue_send")
    tps = e0.paths(so, recv=INST, args=(("param", "caller", "addr"),), kwargs=(), depth=1)
    run.paths += len(tps)
    sent = 0
    unguarded = False
    for p in tps:
        q = calls_to(p, qs.qual)
        if not q:
            continue
        sent += 1
        entt = q[0].args[0] if q[0].args else None
        okf = entt is not None and entt[0] == "call" and entt[1][0] == "bound" and entt[1][1] == ("attr", me, "service") and entt[1][2].endswith("create_offer_entry") \
            and entt[2] == (("attr", ("attr", me, "timings"), "ANNOUNCE_TTL"),) and q[0].arg(1, "remote") == ("param", "caller", "addr")
        run.ob("F4", f"{so.qual}:answer-is-own-offer-to-requester", okf, loc(so),
               f"answer = {show(entt)[:80]} queued for remote={show(q[0].arg(1, 'remote'))}" + ("" if okf else "; expected the instance's own offer entry with ANNOUNCE_TTL, remote = requester"))
        if not [c for c, v, _, _ in p.conds if contains(c, lambda s: s[0] == "attr" and s[1] == me and s[2] in ("_task", "_can_answer_offers"))]:
            unguarded = True
    run.floor("F4", sent, 1)
    run.ob("O4", f"{so.qual}:deferred-from-handle_findservice", not unguarded, loc(so),
           "the deferred answer re-checks the running state before transmitting" if not unguarded else
           "the answer scheduled by handle_findservice transmits without re-checking the running state: stop() in between is followed by an Offer after the StopOffer")
