"""C20 - decoding canonicalises: decode-encode-decode equals decode.

D1  retention: every wire position of every codec is either bound to a field through an invertible
    transform that the writer inverts at the same position, or ignored by the reader and written as a
    constant; raw information (unknown option type+payload, unknown flag bits, unknown protocol numbers,
    raw indexes/counts, unreferenced options) is re-emitted raw
D2  range closure: what a decoder can produce for a field fits where the encoder puts it (re-encoding
    cannot raise, bit fields cannot spill)
D3  SOME/IP: no position ignored, the only computed field (length) is recomputed from the payload whose
    length defined it  =>  rebuilt bytes == consumed bytes
D4  configuration option: reader split and writer join are inverse
"""
from __future__ import annotations

from .. import layout, report
from ..facts import AnalysisError
from ..terms import show
from ..util import loc
from . import C01
from .sdcodec import ENTRY, SD, range_closure


def check(run, prog, tier):
    from . import model as _model
    _model.audit(run, prog, 'C20')
    run.explanation = (
        "Reader->writer direction of the codec tables: for each codec the reader's binding table and the "
        "writer's layout term are compared per wire position (field, transform, inverse transform), ignored "
        "positions must be constants of the writer, and the value range derivable for each decoded field "
        "(format code width, shifts, masks) must be within what the writer position accepts.  Flag bytes are "
        "enumerated exhaustively (256 read, 256 written), configuration strings on representative bodies "
        "including non-canonical ones (non-zero reserved byte, bytes after the terminator)."
    )
    run.trusted += ["struct pack/unpack inverse on in-range values", "ASCII decode/encode preserve length and content",
                    "dataclass equality is field equality"]
    sd = SD(run, prog)
    sd.strict_guards = False  # how malformed input is rejected is C02/C03's business, not this property's
    with run.part("entry codec"):
        sd.entry_writer("D1")
        sd.entry_reader("D1", guards_rule="D1")
    with run.part("option header"):
        sd.option_header("D1")
    reg = sd.registered()
    with run.part("option bodies"):
        sd.option_bodies("D1", reg)
        sd.unknown_option("D1")
    with run.part("configuration option"):
        sd.config_option("D4", "D4")
    with run.part("SD header codec"):
        sd.sd_header_writer("D1", flags_rule="D1")
        sd.sd_header_reader("D1", flags_rule="D1")
    with run.part("range closure"):
        range_closure(sd, "D2")
    # unknown transport protocol numbers are kept as plain integers (not rejected)
    n = 0
    for q in sorted(reg):
        if not prog.is_subclass(q, "header.AbstractIPOption"):
            continue
        n += 1
        po = sd.m(q, "parse_option")
        raws = 0
        for p in sd.paths(po, q):
            if p.returns() and p.retval()[0] == "new":
                v = dict(p.retval()[2]).get("l4proto")
                us = layout.find_unpacks(sd.eng, p.retval())
                if v is not None and us and layout.r_descr(v, layout.item_pos(us[0]))[0] == "pos":
                    raws += 1
        run.ob("D1", f"{q}:unknown-protocol-kept", raws >= 1, loc(po),
               "a protocol number outside the enum is kept as the raw integer" if raws else "protocol numbers outside the enum are not kept raw")
    run.floor("D1-ip-options", n, 6)
    # D3: SOME/IP byte identity = C01's writer/reader tables and split (same machinery, reported here)
    sub = report.subrun(C01, "C01", prog, tier, run.seed)
    for o in sub.obs:
        if o.rule in ("L5", "OM") or ":guard[" in o.construct or o.construct.endswith(":specification-values"):
            continue  # the datagram loop, the rejection of malformed headers and the specification's byte values are not part of this property
        run.ob("D3", o.construct, o.ok, o.loc, o.msg, o.detail, o.nontrivial)
    run.paths += sub.paths
    run.abstract_cases += sub.abstract_cases
    run.functions |= sub.functions
