"""C13 - FindService is sent only for watched services not yet found, bounded in number.

N1  freshness: every transmitted list is built after the most recent await, as
    [watched.create_find_entry(FIND_TTL) for watched in watched_services if not found(watched)]
N2  bound and timing: first round after uniform(INITIAL_DELAY_MIN, MAX), round i after 2**i * base delay,
    rounds iterate range(REPETITIONS_MAX); an empty list ends the task for good
N3  destination / fields: sent without a remote (multicast group); entry fields see C19-W3
N4  start() creates one find task unless one is still running; 'found' uses matches_service on live entries
"""
from __future__ import annotations

import ast

from ..absint import eval_term
from ..facts import AnalysisError
from ..terms import const, contains, show, strip_sites, subterms
from ..util import InlineOnly, NoInline, P, calls_to, engine, loc, param_at
from .derived import cache_coherence
from .C10 import TIMING_VALUATIONS, sleep_arg, timing_leaf

DISC = "sd.ServiceDiscover"
PROTO = "sd.ServiceDiscoveryProtocol"


def check(run, prog, tier):
    from . import model as _model
    _model.audit(run, prog, 'C13')
    # "not yet found" must be answered from the live store, never from a copy that a change of the store does not reset
    cache_coherence(run, prog, "N5", ['sd.ServiceDiscover', 'sd.TimedStore'])
    _task_typestate(run, prog)
    from .derived import lifecycle_owner
    from ..util import Scan as _Scan
    with run.part("N7 generation state"):
        lifecycle_owner(run, prog, _Scan(prog), "N7", DISC)
    run.explanation = (
        "send_find_services is a coroutine with await points; the guarantee 'only services not found *now*' is a "
        "freshness fact: on every enumerated path the list handed to send_sd was computed after the last await "
        "that precedes the transmission (between two awaits nothing else can run).  The shape of the list "
        "(comprehension over the watched filters, negated found-test, create_find_entry(FIND_TTL)) is read from "
        "its term; the number and spacing of rounds from the sequence of sleeps and sends on each path, delays "
        "evaluated with distinct primes per timing constant."
    )
    run.trusted += ["between two awaits of a coroutine no other callback runs", "asyncio.sleep / random.uniform honour their arguments"]
    sf = prog.lookup_method(DISC, "send_find_services")
    found = prog.lookup_method(DISC, "_service_found")
    start = prog.lookup_method(DISC, "start")
    send_sd = prog.lookup_method(PROTO, "send_sd")
    cfe = prog.lookup_method("config.Service", "create_find_entry")
    ms = prog.lookup_method("config.Service", "matches_service")
    if not all((sf, start, send_sd, cfe, ms)):
        raise AnalysisError("find sending functions vanished")
    run.analysed(*[f for f in (sf, found, start) if f is not None])
    me = ("self", DISC)
    U = 3 if tier == "thorough" else 2
    # the test "already found" is read where it is applied - in the filter of the list that is sent - with the method it
    # may be written in analysed in place; the list stays one term (not enumerated element by element)
    eng = engine(prog, InlineOnly(names=((found.qual,) if found is not None else ()), props=False, max_depth=2, unroll=U))
    eng.policy.comp_symbolic = True

    def found_test(cnd, el):
        """cnd is `any(<el matches s / s matches el> for s in self.found_services.<live entries>)`"""
        if not (cnd[0] == "call" and cnd[1] == ("ext", "any") and len(cnd[2]) == 1 and cnd[2][0][0] == "comp" and len(cnd[2][0][3]) == 1):
            return False
        inner = cnd[2][0]
        s_el, s_it, s_conds = inner[3][0]
        return not s_conds and s_it[0] == "call" and s_it[1][0] == "bound" and s_it[1][1] == ("attr", me, "found_services") and not s_it[2] \
            and inner[2][0] == "call" and inner[2][1][0] == "bound" and inner[2][1][2] == ms.qual and len(inner[2][2]) == 1 \
            and {inner[2][1][1], inner[2][2][0]} == {el, s_el}
    found_ok = None
    paths = eng.paths(sf, recv=DISC)
    run.paths += len(paths)
    leaf = timing_leaf(me)
    probs = {}
    sends_seen = 0
    max_sends = 0
    for p in paths:
        if p.outcome[0] == "raise":
            probs.setdefault("N2:total", f"the find task may raise {p.outcome[1]}")
            continue
        last_await = None
        last_build = None
        pending_sleep = None
        n_sends = 0
        sleeps = []
        ended = False
        for here, e in enumerate(p.events):
            if e.kind == "await":
                a = sleep_arg(e)
                if a is None:
                    probs.setdefault("N2:unexpected-await", f"awaits {show(e.value)[:60]}")
                    continue
                last_await = here
                sleeps.append(a)
                if pending_sleep is not None:
                    probs.setdefault("N2:one-round-per-wait", "two waits without a round in between")
                pending_sleep = e
            elif e.kind == "call" and e.recv == ("attr", me, "found_services") and e.in_comp:
                last_build = here  # the live entries are read here
            elif e.kind == "call" and any(f.qual == send_sd.qual for f in e.targets):
                n_sends += 1
                sends_seen += 1
                if last_await is None:
                    probs.setdefault("N2:send-before-initial-wait", "a round is sent before the initial wait")
                if last_build is None or (last_await is not None and last_build < last_await):
                    probs.setdefault("N1:list-built-after-last-await",
                                     "the transmitted list was computed before the task last slept: services found meanwhile are still asked for")
                if pending_sleep is None:
                    probs.setdefault("N2:one-round-per-wait", "more than one transmission per wait")
                pending_sleep = None
                # shape of the list
                lst = e.args[0] if e.args else None
                okl = lst is not None and lst[0] == "comp" and lst[1] == "list" and len(lst[3]) == 1
                why = f"send_sd receives {show(lst)[:80] if lst else 'nothing'}"
                if okl:
                    el, it, conds = lst[3][0]
                    base = it[1][1] if (it[0] == "call" and it[1][0] == "attr" and it[1][2] == "keys") else it
                    okl = base == ("attr", me, "watched_services")
                    why = f"the list ranges over {show(it)[:60]}"
                    if okl:
                        okl = len(conds) == 1 and conds[0][0] == "unop" and conds[0][1] == "not"
                        why = f"the filter is {[show(c)[:60] for c in conds]}"
                        if okl:
                            ft = found_test(conds[0][2], el)
                            found_ok = ft if found_ok is None else (found_ok and ft)
                    if okl:
                        elt = lst[2]
                        okl = elt[0] == "call" and elt[1] == ("bound", el, cfe.qual) and \
                            (elt[2] == (("attr", ("attr", me, "timings"), "FIND_TTL"),) or dict(elt[3]).get("ttl") == ("attr", ("attr", me, "timings"), "FIND_TTL"))
                        why = f"each element is {show(elt)[:80]}"
                if not okl:
                    probs.setdefault("N1:list-is-unfound-watched-services", why + "; expected [s.create_find_entry(FIND_TTL) for s in watched_services if not found(s)]")
                rem = e.arg(1, "remote")
                if rem is not None and rem != const(None) and rem != ("attr", ("attr", me, "sd"), "default_addr"):
                    probs.setdefault("N3:multicast", f"FindService sent with remote {[show(a) for a in e.args[1:]]} {e.kwargs}; must go to the multicast group")
        max_sends = max(max_sends, n_sends)
        # delays
        for V in TIMING_VALUATIONS:
            lf = timing_leaf(me, valuation=V)
            vals = [eval_term(a, lf) for a in sleeps]
            if vals:
                if vals[0] != ("uniform", V["INITIAL_DELAY_MIN"], V["INITIAL_DELAY_MAX"]):
                    probs.setdefault("N2:initial-delay", f"first wait is {vals[0]!r} for timings {V}; expected uniform(INITIAL_DELAY_MIN, INITIAL_DELAY_MAX)")
                for i, sl in enumerate(vals[1:]):
                    if sl != (2 ** i) * V["REPETITIONS_BASE_DELAY"]:
                        probs.setdefault("N2:repetition-delays", f"wait before repetition {i} is {sl!r} with REPETITIONS_BASE_DELAY={V['REPETITIONS_BASE_DELAY']} "
                                         f"and FIND_TTL={V['FIND_TTL']}; expected 2**{i} * REPETITIONS_BASE_DELAY = {(2 ** i) * V['REPETITIONS_BASE_DELAY']}")
        # an empty list ends the task: after a cond deciding 'list empty' there is no further send
        seen_empty = False
        for c, v, node, _ in p.conds:
            pass
    # empty list => return: on paths where a build result was tested empty, the path ends without further rounds
    for p in paths:
        evs = p.events
        conds = p.conds
        for c, v, node, _ in conds:
            cc, vv = c, v
            if cc[0] == "unop" and cc[1] == "not":
                cc, vv = cc[2], not vv
            if cc[0] == "comp" and vv is False:
                # list was empty here: no send may follow this decision
                line = getattr(node, "lineno", 0)
                later = [e for e in evs if e.kind == "call" and any(f.qual == send_sd.qual for f in e.targets) and getattr(e.node, "lineno", 0) > line and e.seq > 0]
                # sends after the decision point in program order on this path
                idx = [i for i, e in enumerate(evs) if getattr(e.node, "lineno", 0) >= line]
                after = [e for e in later if evs.index(e) >= (idx[0] if idx else 0)]
                awaits_after = [e for e in evs if e.kind == "await" and getattr(e.node, "lineno", 0) > line]
                if p.returns() and not p.truncated and (awaits_after and any(a.seq > max((e.seq for e in evs if getattr(e.node, 'lineno', 0) == line), default=0) for a in awaits_after)):
                    probs.setdefault("N2:empty-list-ends-task", "after a round with nothing to ask for the task keeps waiting and asking")
    run.floor("N1-sends", sends_seen, 3)
    for key, rule in (("N1:list-built-after-last-await", "N1"), ("N1:list-is-unfound-watched-services", "N1"), ("N2:total", "N2"), ("N2:unexpected-await", "N2"),
                      ("N2:one-round-per-wait", "N2"), ("N2:send-before-initial-wait", "N2"), ("N2:initial-delay", "N2"), ("N2:repetition-delays", "N2"),
                      ("N2:empty-list-ends-task", "N2"), ("N3:multicast", "N3")):
        run.ob(rule, f"{sf.qual}:{key[3:]}", key not in probs, loc(sf), probs.get(key, "holds on every enumerated path"))
    # rounds bounded by REPETITIONS_MAX: sends inside the loop over range(REPETITIONS_MAX), exactly one before it
    rep_ok = False
    for p in paths:
        for e in p.events:
            if e.kind == "await" and sleep_arg(e) is not None:
                for s_ in subterms(sleep_arg(e)):
                    if s_[0] == "elem" and strip_sites(s_[1]) == ("call", ("ext", "range"), (("attr", ("attr", me, "timings"), "REPETITIONS_MAX"),), ()):
                        rep_ok = True
    outside = set()
    for p in paths:
        for e in p.events:
            if e.kind == "call" and any(f.qual == send_sd.qual for f in e.targets) and e.loopdepth == 0:
                outside.add(id(e.node))
    # decided on the path conditions about REPETITIONS_MAX (every iteration taken through range(REPETITIONS_MAX) and every
    # exit from it is a recorded decision): for N = 0..U the paths feasible for N transmit at most 1 + N times and one of
    # them exactly 1 + N times - whatever the loop structure looks like
    rmax = ("attr", ("attr", me, "timings"), "REPETITIONS_MAX")
    bound_ok = rep_ok
    detail = []
    for N in range(U + 1):
        def leafN(tm, N=N):
            if tm == rmax:
                return N
            raise AnalysisError(f"{sf.qual}: repetition bound compared with {show(tm)}")
        counts = []
        for p in paths:
            if p.truncated or not (p.returns() or p.outcome[0] == "fall"):
                continue
            rel = [(c, v) for c, v, _, _ in p.conds if contains(c, lambda s_: s_ == rmax)]
            if all(bool(eval_term(c, leafN)) == v for c, v in rel):
                counts.append(len(calls_to(p, send_sd.qual)))
        detail.append(f"N={N}: at most {max(counts) if counts else '?'}")
        if not counts or max(counts) != 1 + N:
            bound_ok = False
    run.ob("N2", f"{sf.qual}:rounds-bounded", bound_ok, loc(sf),
           f"one initial round plus at most REPETITIONS_MAX repetition rounds ({'; '.join(detail)} transmission(s))")
    # empty list => return (decided semantically: the path with the first list empty has no transmission)
    first_empty = [p for p in paths if p.returns() and not calls_to(p, send_sd.qual) and any(e.kind == "await" for e in p.events)]
    run.ob("N2", f"{sf.qual}:nothing-to-ask-nothing-sent", bool(first_empty), loc(sf), "when nothing is left to ask for, nothing is transmitted")
    later_empty = [p for p in paths if p.returns() and not p.truncated and len(calls_to(p, send_sd.qual)) == 1
                   and len([e for e in p.events if e.kind == "await"]) == 2]
    run.ob("N2", f"{sf.qual}:empty-round-is-terminal", bool(later_empty), loc(sf),
           "a repetition round with nothing to ask for ends the task (no further waits)" if later_empty else
           "no path on which an empty repetition round ends the task")

    # ------------------------------------------------------------------ N4
    e0 = engine(prog, NoInline())
    anchor = found if found is not None else sf
    run.ob("N4", f"{anchor.qual}:found-means-live-matching-entry", bool(found_ok), loc(anchor),
           "a watched service counts as found iff some live entry of found_services matches it (matches_service)" if found_ok else
           "the filter of the FindService list is not `not any(service matches s for s in the live entries of found_services)`")
    # "live entries" is what the store's entries() yields: every key of every per-address table, unfiltered (an entry without
    # an expiry timer - infinite TTL - is as live as one with a timer)
    ent = prog.lookup_method("sd.TimedStore", "entries")
    if ent is None:
        raise AnalysisError("sd.TimedStore.entries vanished")
    run.analysed(ent)
    oke, whye = True, "yields every stored key"
    eps = engine(prog, InlineOnly(names=(), props=False, max_depth=1)).paths(ent, recv="sd.TimedStore")
    run.paths += len(eps)
    for p in eps:
        rv = p.retval() if p.returns() else None
        filt = [c for c, _v, _n, _k in p.conds]
        comps = [t_ for t_ in subterms(rv) if t_[0] == "comp"] if rv is not None else []
        store_ = ("attr", ("self", "sd.TimedStore"), "store")
        reads = (rv is not None and contains(rv, lambda t_: t_ == store_)) or any(
            (e.recv is not None and contains(e.recv, lambda t_: t_ == store_)) or any(contains(a_, lambda t_: t_ == store_) for a_ in (e.args or ()))
            for e in p.events if e.kind == "call")
        is_gen = any(isinstance(n_, (ast.Yield, ast.YieldFrom)) for n_ in ast.walk(ent.node))
        if (rv is None and not is_gen) or filt or any(g_[2] for t_ in comps for g_ in t_[3]) or not reads:
            oke = False
            whye = ("leaves stored entries out (" + (show(filt[0])[:60] if filt else next((show(g_[2][0])[:60] for t_ in comps for g_ in t_[3] if g_[2]), "not built from self.store")) +
                    "): a found service that is dropped here is asked for again in every round")
    run.ob("N4", f"{ent.qual}:yields-every-stored-entry", oke, loc(ent), f"TimedStore.entries() {whye}")
    tp = e0.paths(start, recv=DISC)
    run.paths += len(tp)
    okst = False
    creates = 0
    for p in tp:
        t_ = [e for e in p.events if e.kind == "call" and e.sched == "task" and e.cb is not None and e.cb[-1] == sf.qual]
        creates = max(creates, len(t_))
        if t_:
            sts = [e for e in p.events if e.kind == "store" and e.attrname == "task"]
            okst = len(t_) == 1 and bool(sts)
    guard = any(not [e for e in p.events if e.kind == "call" and e.sched == "task"] and p.returns() for p in tp)
    run.ob("N4", f"{start.qual}:one-task", okst and guard and creates == 1, loc(start), "start() creates exactly one find task and keeps it; a running task is not duplicated")


def _task_typestate(run, prog):
    """N6 'after start' / 'no further FindService': start() launches the find task exactly when none is running, stop()
    cancels a running one and forgets it - decided on the three states of self.task {None, finished, running}"""
    from ..util import implied_atoms
    me = ("self", DISC)
    task = ("attr", me, "task")
    start = prog.lookup_method(DISC, "start")
    stop = prog.lookup_method(DISC, "stop")
    sf = prog.lookup_method(DISC, "send_find_services")
    if not all((start, stop, sf)):
        raise AnalysisError(f"{DISC}: start / stop / send_find_services vanished")
    run.analysed(start, stop)
    eng = engine(prog, NoInline())
    SENT = object()

    def leaf_for(state):
        def leaf(tm):
            if tm == task:
                return None if state == "none" else SENT
            if tm[0] == "call" and tm[1] == ("attr", task, "done") and not tm[2]:
                return state == "finished"
            raise AnalysisError(f"{DISC}: task typestate depends on {show(tm)}")
        return leaf

    for state in ("none", "finished", "running"):
        lf = leaf_for(state)
        hits = [p for p in eng.paths(start, recv=DISC) if all(bool(eval_term(c, lf)) == v for c, v, _, _ in p.conds)]
        run.paths += len(hits)
        if len(hits) != 1:
            raise AnalysisError(f"{start.qual}: {len(hits)} paths for task state '{state}'")
        p = hits[0]
        launched = [e for e in p.events if e.kind == "call" and e.sched == "task" and e.cb is not None and e.cb[0] == "bound" and e.cb[-1] == sf.qual]
        stored = [e for e in p.events if e.kind == "store" and e.target == task and launched and e.value == launched[0].result]
        want = state != "running"
        ok = p.returns() and (len(launched) == 1 and len(stored) == 1 if want else not launched)
        run.ob("N6", f"{start.qual}:task-{state}", ok, loc(start),
               (f"start() with task {state}: launches send_find_services {len(launched)}x and remembers it {len(stored)}x (expected once / once)" if want else
                f"start() while the find task runs: {len(launched)} further task(s) launched (expected none - a second task doubles every round)"))
    for state in ("none", "running"):
        lf = leaf_for(state)
        hits = [p for p in eng.paths(stop, recv=DISC) if all(bool(eval_term(c, lf)) == v for c, v, _, _ in p.conds)]
        run.paths += len(hits)
        if len(hits) != 1:
            raise AnalysisError(f"{stop.qual}: {len(hits)} paths for task state '{state}'")
        p = hits[0]
        cancels = [e for e in p.events if e.kind == "call" and e.attrname == "cancel" and e.recv == task]
        cleared = [e for e in p.events if e.kind == "store" and e.target == task and e.value == const(None)]
        ok = p.returns() and ((len(cancels) == 1 and len(cleared) == 1 and cancels[0].seq < cleared[0].seq) if state == "running" else not cancels)
        run.ob("N6", f"{stop.qual}:task-{state}", ok, loc(stop),
               f"stop() with task {state}: {len(cancels)} cancel(s), task forgotten {len(cleared)}x" +
               (" (expected: cancel once, then forget - a forgotten but running task keeps sending FindService, a remembered one blocks the next start())" if state == "running" else ""))
