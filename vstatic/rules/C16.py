"""C16 - method calls get exactly one correctly correlated reply.

R1  at most one transmission per path, none for multicast reception
R2  decision chain == specification table, in order (first failing check decides the return code),
    decided on all 288 combinations of {service, interface version, method known, message type, return
    code, handler outcome, channel}
R3  a positive reply iff the handler returned a payload and the message was a REQUEST
R4  correlation: replies are the request with only {message_type, return_code, payload} replaced, sent to
    the sender's address
R5  register_method is the only writer of the method table
"""
from __future__ import annotations

import itertools

from ..absint import eval_term
from ..facts import AnalysisError
from ..sym import enum_members
from ..terms import const, contains, show, strip_sites, subterms
from ..util import InlineOnly, NoInline, P, Scan, calls_to, engine, loc, param_at

SVC = "service.SimpleService"


def check(run, prog, tier):
    from . import model as _model
    _model.audit(run, prog, 'C16')
    run.explanation = (
        "message_received is loop-free: with the two reply builders spliced in, its complete path set (handler "
        "rejection injected) is enumerated; each of the 288 input classes selects exactly one path by evaluating "
        "the branch conditions, and that path's transmissions (count, destination, reply as a field-replacement "
        "term over the request) are compared with the specification table.  Because replies are built by "
        "dataclasses.replace on the request, the echo of all ids holds for every value."
    )
    run.trusted += ["dataclasses.replace copies all fields not named", "handlers reject only by raising MalformedMessageError"]
    mr = prog.lookup_method(SVC, "message_received")
    ser = prog.lookup_method(SVC, "send_error_response")
    spr = prog.lookup_method(SVC, "send_positive_response")
    reg = prog.lookup_method(SVC, "register_method")
    send = prog.lookup_method(SVC, "send")
    if not all((mr, ser, spr, reg, send)):
        raise AnalysisError(f"{SVC}: methods vanished")
    run.analysed(mr, ser, spr, reg)
    me = ("self", SVC)
    msg = P(mr, param_at(mr, 0, "someip_message"))
    addr = P(mr, param_at(mr, 1, "addr"))
    mc = P(mr, param_at(mr, 2, "multicast"))
    # every helper method the endpoint class itself defines is spliced in (reply builders and whatever they
    # delegate to); the transmission primitive `send` stays a call event
    # (... and so are the pure matching predicates of config.Service and the endpoint's own properties, should a check be
    # delegated to them: the decision must stay a formula over the message's fields and the endpoint's ids)
    own = lambda f: f.cls is not None and ((f.cls.qual == SVC and f.qual not in (send.qual, mr.qual) and f.kind == "method")
                                           or (f.cls.qual == "config.Service" and f.kind == "method" and f.name.startswith("matches_")))
    eng = engine(prog, InlineOnly(names=(ser.qual, spr.qual), pred=own, props=True, max_depth=4))
    paths = eng.paths(mr, recv=SVC)
    run.paths += len(paths)
    mt = enum_members(prog, "header.SOMEIPMessageType")
    rc = enum_members(prog, "header.SOMEIPReturnCode")
    HANDLER = object()
    build_q = prog.lookup_method("header.SOMEIPHeader", "build").qual

    def handler_calls(p):
        return [e for e in p.events if e.kind == "call" and e.fterm is not None and e.fterm[0] == "call" and e.fterm[1] == ("attr", ("attr", me, "methods"), "get")]

    # further per-method tables the decision may consult: what they hold for a method registered the documented way -
    # register_method(id, handler), every other parameter at its default - is read from register_method itself; an id
    # that was never registered has no entry.  (A table somebody else writes has unknown content.)
    scan0 = Scan(prog)
    ID_, H_ = ("var", "$registered-id"), ("var", "$registered-handler")
    table_writers = {}
    for fi_, _r, e_ in scan0.all():
        tgt = None
        if e_.kind == "store" and e_.target is not None and e_.target[0] == "item" and e_.target[1][0] == "attr" and e_.target[1][1][0] == "self" \
                and e_.target[1][1][1] == SVC:
            tgt = e_.target[1][2]
        elif e_.kind == "call" and e_.attrname in ("pop", "clear", "update", "setdefault", "popitem") and e_.recv is not None and e_.recv[0] == "attr" \
                and e_.recv[1] == me:
            tgt = e_.recv[2]
        if tgt is not None and fi_.name != "__init__":
            table_writers.setdefault(tgt, set()).add(fi_.qual)
    tables = {}
    for p_ in engine(prog, InlineOnly(names=(), pred=own, props=False, max_depth=3)).paths(reg, recv=SVC, args=(ID_, H_)):
        if not p_.returns() and p_.outcome[0] != "fall":
            continue
        for e_ in p_.events:
            if e_.kind == "store" and e_.target is not None and e_.target[0] == "item" and e_.target[2] == ID_ and e_.target[1][0] == "attr" \
                    and e_.target[1][1] == me and e_.target[1][2] != "methods":
                tables[e_.target[1][2]] = e_.value

    def table_lookup(tm):
        """(attribute, key, default) when tm is self.<table>.get(key[, default]) / self.<table>[key] on a per-method table"""
        if tm[0] == "call" and tm[1][0] == "attr" and tm[1][2] == "get" and tm[1][1][0] == "attr" and tm[1][1][1] == me and tm[1][1][2] != "methods" and tm[2]:
            return tm[1][1][2], tm[2][0], (tm[2][1] if len(tm[2]) > 1 else const(None))
        return None

    failures = {}
    cases = 0
    # state of the endpoint that the decision consults besides the documented inputs (e.g. a "warned once" flag):
    # the table must hold for every value of it
    free = []
    for p in paths:
        for c, _, _, _ in p.conds:
            for s_ in subterms(c):
                if s_[0] == "attr" and s_[1] == me and s_[2] not in ("service_id", "version_major", "methods", "log", "instance_id", "version_minor") and s_ not in free:
                    free.append(s_)
    # ... and fields of the request itself that the statement does not make the decision depend on (client id, session id,
    # payload length ...): the table must hold for every value of them, in particular 0 and the literals the code compares with
    free_msg = []
    for p in paths:
        for c, _, _, _ in p.conds:
            for s_ in subterms(c):
                if s_[0] == "attr" and s_[1] == msg and s_[2] not in ("service_id", "interface_version", "method_id", "message_type", "return_code") \
                        and s_ not in free_msg:
                    free_msg.append(s_)
    if len(free) > 3 or len(free_msg) > 2:
        raise AnalysisError(f"{mr.qual}: decision consults {len(free)} undocumented attributes {[show(f) for f in free + free_msg]}")
    # "another service" / "another interface version" are classes of values: besides a fresh representative every literal
    # the code itself compares the field with is a member (an undocumented wildcard value would otherwise go unnoticed)
    from ..absint import constants_compared
    allconds = [c for p in paths for c, _, _, _ in p.conds]
    other_sid = [0x2222] + sorted(v for v in constants_compared(allconds, lambda tm: tm == ("attr", msg, "service_id")) if isinstance(v, int) and v != 0x1111)[:3]
    other_iv = [4] + sorted(v for v in constants_compared(allconds, lambda tm: tm == ("attr", msg, "interface_version")) if isinstance(v, int) and v != 3)[:3]
    fm_dom = []
    for fmt_ in free_msg:
        lits = sorted(v for v in constants_compared(allconds, lambda tm, fmt_=fmt_: tm == fmt_) if isinstance(v, int))[:2]
        fm_dom.append(sorted(set([0, 0x1234] + lits)) if fmt_[2] != "payload" else [b"", b"req"])
    # what the handler returns is the reply's payload "for payloads of any length": besides an ordinary one the empty payload
    # and the lengths around every literal the code compares the result's length with are classes of their own
    def _is_result(tm):
        return tm[0] == "call" and tm[1][0] == "call" and tm[1][1] == ("attr", ("attr", me, "methods"), "get")
    res_lens = sorted(v for v in constants_compared(allconds, lambda tm: tm[0] == "call" and tm[1] == ("ext", "len") and len(tm[2]) == 1 and _is_result(tm[2][0]))
                      if isinstance(v, int) and 0 <= v <= 0x20000)[:3]
    payloads = [b"resp", b""] + [bytes([0x5A]) * n for L in res_lens for n in (L - 1, L, L + 1) if n > 0]
    for svc_v, iv_v, known, mtype, rcode, hres_, multi, fvals, mvals in itertools.product(
            [0x1111] + other_sid, [3] + other_iv, (True, False), tuple(mt), ("E_OK", "E_NOT_OK"),
            [("bytes", pl_) for pl_ in payloads] + [("none", None), ("malformed", None)], (False, True),
            list(itertools.product((False, True), repeat=len(free))), list(itertools.product(*fm_dom))):
        hres, hpay = hres_
        if hpay not in (None, b"resp") and not (svc_v == 0x1111 and iv_v == 3 and known and mtype == "REQUEST" and rcode == "E_OK"):
            continue  # the payload classes matter where the handler is called and answered
        cases += 1
        svc_ok, iv_ok = svc_v == 0x1111, iv_v == 3
        fmap = dict(zip(free, fvals))
        fmap.update(dict(zip(free_msg, mvals)))
        vals = {"service_id": svc_v, "interface_version": iv_v, "method_id": 7,
                "message_type": mt[mtype], "return_code": rc[rcode], "payload": b"req"}

        def leaf(tm):
            if tm == mc:
                return multi
            if tm in fmap and tm[0] == "attr" and tm[1] == msg:
                return fmap[tm]
            if tm[0] == "attr" and tm[1] == msg and tm[2] in vals:
                return vals[tm[2]]
            if tm == ("attr", me, "service_id"):
                return 0x1111
            if tm == ("attr", me, "version_major"):
                return 3
            if tm == ("attr", me, "instance_id"):
                return 0x0001
            if tm == ("attr", me, "version_minor"):
                return 0
            if tm in fmap:
                return fmap[tm]
            if tm[0] == "call" and tm[1] == ("attr", ("attr", me, "methods"), "get"):
                return HANDLER if known else None
            if tm[0] == "call" and tm[1][0] == "call" and tm[1][1] == ("attr", ("attr", me, "methods"), "get"):
                return hpay if hres == "bytes" else None
            tl = table_lookup(tm)
            if tl is not None and table_writers.get(tl[0], set()) <= {reg.qual} and eval_term(tl[1], leaf) == vals["method_id"]:
                if known and tl[0] in tables:
                    return eval_term(tables[tl[0]], lambda t_: vals["method_id"] if t_ == ID_ else (HANDLER if t_ == H_ else leaf(t_)))
                return eval_term(tl[2], leaf)
            raise AnalysisError(f"{mr.qual}: decision depends on {show(tm)}")

        hits = []
        for p in paths:
            hc = handler_calls(p)
            if hc:
                raised = hc[0].raised is not None
                if raised != (hres == "malformed"):
                    continue
                if raised and p.outcome[0] == "raise" and p.outcome[1] == "AnyException":
                    continue  # an exception other than MalformedMessageError: attributed to the user handler
            try:
                if all(bool(eval_term(c, leaf)) == v for c, v, _, _ in p.conds):
                    hits.append(p)
            except AnalysisError:
                raise
        if len(hits) != 1:
            raise AnalysisError(f"{mr.qual}: {len(hits)} paths for one input class")
        p = hits[0]
        # expected
        if multi:
            want = None
        elif not svc_ok:
            want = ("ERROR", "E_UNKNOWN_SERVICE")
        elif not iv_ok:
            want = ("ERROR", "E_WRONG_INTERFACE_VERSION")
        elif not known:
            want = ("ERROR", "E_UNKNOWN_METHOD")
        elif mtype not in ("REQUEST", "REQUEST_NO_RETURN"):
            want = ("ERROR", "E_WRONG_MESSAGE_TYPE")
        elif rcode != "E_OK":
            want = ("ERROR", "E_WRONG_MESSAGE_TYPE")
        elif hres == "malformed":
            want = ("ERROR", "E_MALFORMED_MESSAGE")
        elif hres == "bytes" and mtype == "REQUEST":
            want = ("RESPONSE", None)  # (whatever the length of the result, the empty one included)
        else:
            want = None
        sends = calls_to(p, send.qual)
        desc = f"service {'ok' if svc_ok else hex(svc_v)}, interface {'ok' if iv_ok else hex(iv_v)}, method {'known' if known else 'unknown'}, {mtype}, {rcode}, handler {hres}, {'multicast' if multi else 'unicast'}" \
            + "".join(f", {show(k)}={v}" for k, v in fmap.items())
        if not p.returns():
            failures.setdefault("R1:no-exception", f"{desc}: message_received raises {p.outcome[1]}")
            continue
        if len(sends) > 1:
            failures.setdefault("R1:at-most-one-reply", f"{desc}: {len(sends)} replies sent")
            continue
        if want is None:
            if sends:
                key = "R1:multicast-never-answered" if multi else "R3:no-reply-expected"
                failures.setdefault(key, f"{desc}: a reply is sent, none expected")
            continue
        if not sends:
            failures.setdefault(f"R2:reply-missing[{want[1] or 'RESPONSE'}]", f"{desc}: no reply, expected {want}")
            continue
        s = sends[0]
        if s.arg(1, "remote") != addr:
            failures.setdefault("R4:reply-to-sender", f"{desc}: reply goes to {show(s.arg(1, 'remote'))}, not to the sender")
        b = s.args[0] if s.args else None
        eff = None  # effective reply fields as terms
        if b is not None and b[0] == "call" and b[1][0] == "bound" and b[1][2] == build_q:
            obj = b[1][1]
            base = {f: ("attr", msg, f) for f in ("service_id", "method_id", "client_id", "session_id", "interface_version",
                                                  "protocol_version", "message_type", "return_code", "payload")}
            if obj[0] == "replace" and obj[1] == msg:
                eff = dict(base)
                eff.update(dict(obj[2]))
            elif obj[0] == "new" and obj[1] == "header.SOMEIPHeader":
                eff = {"protocol_version": const(1), "return_code": const(rc["E_OK"]), "payload": const(b"")}
                eff.update(dict(obj[2]))
        if eff is None:
            failures.setdefault("R4:reply-derived-from-request", f"{desc}: reply is {show(b)[:90]}, not a SOME/IP message derived from the request")
            continue
        for f in ("service_id", "method_id", "client_id", "session_id", "interface_version"):
            if eff.get(f) != ("attr", msg, f):
                failures.setdefault(f"R4:echo[{f}]", f"{desc}: reply {f} = {show(eff.get(f)) if eff.get(f) else '<missing>'}; must echo the request's {f} for every value")
        try:
            got_mt, got_rc, got_pl = eval_term(eff["message_type"], leaf), eval_term(eff["return_code"], leaf), eval_term(eff["payload"], leaf)
        except KeyError as exc:
            failures.setdefault("R4:reply-fields", f"{desc}: reply lacks {exc}")
            continue
        if want[0] == "ERROR":
            if got_mt != mt["ERROR"] or got_pl != b"":
                failures.setdefault("R4:error-reply-fields", f"{desc}: error reply has type {got_mt!r} and payload {got_pl!r}; expected ERROR with empty payload")
            if got_rc != rc[want[1]]:
                failures.setdefault(f"R2:return-code[{want[1]}]", f"{desc}: error reply carries {got_rc!r}; expected {want[1]}")
        else:
            if got_mt != mt["RESPONSE"] or got_rc != rc["E_OK"] or got_pl != hpay:
                failures.setdefault("R3:positive-reply-fields", f"{desc} ({len(hpay)} byte result): positive reply has type {got_mt!r}, return code {got_rc!r}, payload {str(got_pl)[:20]!r} ({len(got_pl) if isinstance(got_pl, (bytes, bytearray)) else '?'} bytes); expected RESPONSE / E_OK / the handler's payload")
    run.abstract_cases += cases
    run.exhaustive = True
    for k in sorted(failures):
        run.ob(k[:2], f"{mr.qual}:{k[3:]}", False, loc(mr), failures[k])
    for rule, label, text in (("R1", "at-most-one-reply", "at most one reply per message, none for multicast reception"),
                              ("R2", "decision-chain", "first failing check decides: unknown service, wrong interface version, unknown method, wrong message type (type or return code), malformed"),
                              ("R3", "positive-reply", "RESPONSE iff REQUEST and the handler returned a payload; never for REQUEST_NO_RETURN"),
                              ("R4", "correlation", "every reply is the request with only message_type/return_code/payload replaced, sent to the sender")):
        if not any(k.startswith(rule + ":") for k in failures):
            run.ob(rule, f"{mr.qual}:{label}", True, loc(mr), f"{cases} input classes: {text}")
    # the handler is called with (message, addr), only after all checks
    hc_ok = all(h.args == (msg, addr) for p in paths for h in handler_calls(p))
    run.ob("R2", f"{mr.qual}:handler-arguments", hc_ok, loc(mr), "the handler receives the request and the sender address")

    # ------------------------------------------------------------------ R5
    scan = Scan(prog)
    w = set()
    for fi, r, e in scan.all():
        if fi.name == "__init__":
            continue
        if e.kind == "store" and e.target is not None and contains(e.target, lambda s: s[0] == "attr" and s[2] == "methods" and s[1][0] == "self"):
            w.add(fi.qual)
        if e.kind == "call" and e.attrname in ("pop", "clear", "update", "setdefault") and e.recv is not None and e.recv[0] == "attr" and e.recv[2] == "methods":
            w.add(fi.qual)
    run.ob("R5", f"{SVC}:only-register_method-writes-methods", w == {reg.qual}, loc(reg), f"the method table is written by {sorted(w)}")
