"""Shared analysis of the SOME/IP-SD codecs (entries, options, SD header) used by C02 and C20."""
from __future__ import annotations

import ast
import itertools
import struct as _struct  # library semantics for evaluating *extracted unpack terms*, no repo code runs
import typing as t

from .. import layout
from ..absint import eval_term
from ..facts import AnalysisError, dotted
from ..sym import EnumVal, enum_members
from ..terms import const, contains, is_const, show, strip_sites, subterms
from ..util import InlineOnly, NoInline, P, Scan, calls_to, engine, loc, param_at

ENTRY = "header.SOMEIPSDEntry"
OPTION = "header.SOMEIPSDOption"
ABSOPT = "header.SOMEIPSDAbstractOption"
UNKNOWN = "header.SOMEIPSDUnknownOption"
SDHDR = "header.SOMEIPSDHeader"
ETYPE = "header.SOMEIPSDEntryType"
PARSE_ERR = "header.ParseError"

# SOME/IP-SD entry, wire position -> (width bytes, writer descriptor)
ENTRY_W = [
    (1, ("enum", "sd_type")), (1, ("field", "option_index_1")), (1, ("field", "option_index_2")),
    (1, ("bits", ((("field", "num_options_1"), 4), (("field", "num_options_2"), 0)))),
    (2, ("field", "service_id")), (2, ("field", "instance_id")), (1, ("field", "major_version")),
    (1, ("shr", ("field", "ttl"), 16)), (2, ("mask", ("field", "ttl"), 0xFFFF)), (4, ("field", "minver_or_counter")),
]
# field -> reader descriptor over wire positions
ENTRY_R = {
    "sd_type": ("enumconv", ETYPE, ("pos", 0)), "option_index_1": ("pos", 1), "option_index_2": ("pos", 2),
    "num_options_1": ("shr", ("pos", 3), 4), "num_options_2": ("mask", ("pos", 3), 0x0F),
    "service_id": ("pos", 4), "instance_id": ("pos", 5), "major_version": ("pos", 6),
    "ttl": ("bits", ((("pos", 7), 16), (("pos", 8), 0))), "minver_or_counter": ("pos", 9),
}


def _pure_method(obj, name, args):
    """library semantics of a few pure bytes/str methods appearing in decoder formulas"""
    if name == "find" and isinstance(obj, (bytes, bytearray)):
        return obj.find(*args)
    if name == "rfind" and isinstance(obj, (bytes, bytearray)):
        return obj.rfind(*args)
    if name == "index" and isinstance(obj, (bytes, bytearray)):
        return obj.index(*args)
    if name == "decode" and isinstance(obj, (bytes, bytearray)):
        return bytes(obj).decode(*args)
    if name == "encode" and isinstance(obj, str):
        return obj.encode(*args)
    if name == "partition" and isinstance(obj, (bytes, bytearray)):
        return obj.partition(*args)
    if name == "split" and isinstance(obj, (bytes, bytearray)):
        return tuple(obj.split(*args))
    raise AnalysisError(f"method .{name} on {type(obj).__name__} is not modelled")


class SD:
    def __init__(self, run, prog):
        self.run = run
        self.prog = prog
        pol = InlineOnly(names=("header._unpack", "header.SOMEIPSDOption.build_option"), props=True, max_depth=3)
        pol.fork_uncaught = True
        self.eng = engine(prog, pol)
        self.types = enum_members(prog, ETYPE)
        if not self.types:
            raise AnalysisError(f"{ETYPE} has vanished")
        # False: only what happens to *accepted* input is checked (C20); True: rejections too (C02)
        self.strict_guards = True

    # ------------------------------------------------------------------ helpers
    def m(self, cls, name):
        fi = self.prog.lookup_method(cls, name)
        if fi is None:
            raise AnalysisError(f"{cls}.{name} has vanished")
        self.run.analysed(fi)
        return fi

    def place_fn(self):
        """the function that places one option run in the shared array: the callee assign_option_index hands
        (self.options_k, <the shared list>) to - found by role, so that it may be a staticmethod, a method or a
        module function under any name"""
        if getattr(self, "_place_fn", None) is not None:
            return self._place_fn
        if getattr(self, "_place_inline", False):
            return None
        ai = self.m(ENTRY, "assign_option_index")
        me = ("self", ENTRY)
        lp = P(ai, param_at(ai, 0, "options"))
        pol = InlineOnly(names=(), props=True, max_depth=1)
        pol.transparent_helpers = False
        pol.inline_properties = True
        cands = {}
        for p in engine(self.prog, pol).paths(ai, recv=ENTRY):
            for e in p.events:
                if e.kind == "call" and e.targets and len(e.args) >= 2 and e.args[1] == lp \
                        and contains(e.args[0], lambda s_: s_[0] == "attr" and s_[1] == me and s_[2] in ("options_1", "options_2")):
                    # (what exactly is handed over as the run - the whole of options_k - is judged by X1 pairs-stored)
                    cands[e.targets[0].qual] = e.targets[0]
        if not cands:
            self._place_fn = None  # no callee gets (run, shared list): the placement is written out in assign_option_index
            self._place_inline = True
            return None
        if len(cands) != 1:
            raise AnalysisError(f"{ai.qual}: cannot identify the function that places an option run in the shared array ({sorted(cands)})")
        self._place_fn = next(iter(cands.values()))
        self.run.analysed(self._place_fn)
        return self._place_fn

    def paths(self, fi, recv=None, eng=None):
        ps = (eng or self.eng).paths(fi, recv=recv)
        self.run.paths += len(ps)
        return ps

    def fmt_size_leaf(self, tm):
        if tm[0] == "attr" and tm[2] == "size":
            fm = layout.struct_fmt(self.eng, tm[1])
            if fm is not None:
                return fm.size
        return None

    def unpack_value(self, tm, leaf):
        """value of an unpack call term under a valuation of its buffer"""
        uc = layout.unpack_call(self.eng, tm)
        if uc is None:
            return None
        fm, b = uc
        data = eval_term(b, leaf)
        return _struct.unpack(fm.text, bytes(data))

    # ================================================================== entries
    def entry_writer(self, rule):
        run, eng = self.run, self.eng
        build = self.m(ENTRY, "build")
        me = ("self", ENTRY)
        rets = [p for p in self.paths(build, ENTRY) if p.returns()]
        if not rets:
            raise AnalysisError(f"{build.qual}: no encoding path")
        for p in rets:
            segs = layout.segments(eng, p.retval())
            if len(segs) != 1 or segs[0][0] != "pack":
                raise AnalysisError(f"{build.qual}: entry is not encoded by one pack call ({[s[0] for s in segs]})")
            _, fm, args = segs[0]
            ok = fm.big_endian and fm.signature() == [("u", w) for w, _ in ENTRY_W]
            run.ob(rule, f"{build.qual}:format", ok, loc(build),
                   f"entry packed as {fm.text!r}; SOME/IP-SD entry is big-endian widths {[w for w, _ in ENTRY_W]}")
            if len(args) != len(ENTRY_W):
                run.ob(rule, f"{build.qual}:arity", False, loc(build), f"{len(args)} values packed into a {len(ENTRY_W)}-field entry")
                continue
            for i, ((w, want), a) in enumerate(zip(ENTRY_W, args)):
                d = layout.w_descr(a, me)
                ok = d == want or (want[0] == "enum" and d == ("field", want[1]))
                run.ob(rule, f"{build.qual}:position[{i}]", ok, loc(build),
                       f"wire position {i} carries {show(a)}" + ("" if ok else f"; the SD entry layout puts {want} there"))
        return build, rets

    def entry_bits(self, rule):
        """B1: a run count that does not fit its nibble must make build() fail"""
        run = self.run
        build = self.m(ENTRY, "build")
        me = ("self", ENTRY)
        paths = self.paths(build, ENTRY)

        def case(no1, no2):
            vals = {"option_index_1": 0, "option_index_2": 0, "num_options_1": no1, "num_options_2": no2}

            def leaf(tm):
                if tm[0] == "attr" and tm[1] == me and tm[2] in vals:
                    return vals[tm[2]]
                if tm[0] == "attr" and tm[1] == me:
                    return 1
                raise AnalysisError(f"{build.qual}: guard depends on {show(tm)}")
            hits = [p for p in paths if all(bool(eval_term(c, leaf)) == v for c, v, _, _ in p.conds)]
            if len(hits) != 1:
                raise AnalysisError(f"{build.qual}: {len(hits)} paths for counts ({no1},{no2})")
            p = hits[0]
            if not p.returns():
                return "error"
            segs = layout.segments(self.eng, p.retval())
            packed = eval_term(segs[0][2][3], leaf)
            # struct range check of the one-byte field (library fact): values outside 0..255 raise struct.error
            if not (0 <= packed <= 255):
                return "error"
            return (packed >> 4, packed & 0x0F)

        for no1, no2 in ((0, 15), (15, 15), (15, 0), (3, 2)):
            got = case(no1, no2)
            run.ob(rule, f"{build.qual}:counts({no1},{no2})-encodable", got == (no1, no2), loc(build),
                   f"run counts ({no1},{no2}) encode to nibbles {got}")
        for no1, no2 in ((0, 16), (1, 16), (0, 17), (16, 0), (0, 255), (0, -1)):
            got = case(no1, no2)
            run.ob(rule, f"{build.qual}:run-count-overflow", got == "error", loc(build),
                   f"run counts ({no1},{no2}) do not fit the 4-bit fields: build() must raise" if got == "error" else
                   f"run counts ({no1},{no2}) are encoded without error and decode as {got} - the second count overflows into the first nibble")
        run.abstract_cases += 10

    def entry_reader(self, rule, guards_rule=None):
        run, eng = self.run, self.eng
        parse = self.m(ENTRY, "parse")
        buf = P(parse, param_at(parse, 0, "buf"))
        nopt = P(parse, param_at(parse, 1, "num_options"))
        paths = self.paths(parse, ENTRY)
        rets = [p for p in paths if p.returns()]
        if not rets:
            raise AnalysisError(f"{parse.qual}: no returning path")
        unp = None
        for p in rets:
            rv = p.retval()
            if rv[0] != "tuple" or len(rv[1]) != 2 or rv[1][0][0] != "new" or rv[1][0][1] != ENTRY:
                raise AnalysisError(f"{parse.qual}: does not return (SOMEIPSDEntry, rest)")
            us = layout.find_unpacks(eng, rv[1][0])
            if len(us) != 1:
                raise AnalysisError(f"{parse.qual}: {len(us)} unpack calls feed the entry")
            unp = us[0]
            fm, ub = layout.unpack_call(eng, unp)
            ok = fm.big_endian and fm.signature() == [("u", w) for w, _ in ENTRY_W]
            run.ob(rule, f"{parse.qual}:format", ok, loc(parse), f"entry unpacked as {fm.text!r}")
            isit = layout.item_pos(unp)
            fields = dict(rv[1][0][2])
            for f, want in ENTRY_R.items():
                d = layout.r_descr(fields[f], isit) if f in fields else ("missing",)
                run.ob(rule, f"{parse.qual}:{f}", d == want, loc(parse),
                       f"decoded {f} = {show(fields[f]) if f in fields else '<default>'}" + ("" if d == want else f"; layout demands {want}"))
            extra = set(fields) - set(ENTRY_R)
            run.ob(rule, f"{parse.qual}:options-unresolved", not extra, loc(parse),
                   "a decoded entry carries raw indexes/counts and no resolved option runs" if not extra else f"decoder presets {sorted(extra)}")
        if guards_rule is None:
            return parse, unp
        # ---- guards at representative points
        fm, _ = layout.unpack_call(eng, unp)
        tvals = {int(v): v for v in self.types.values()}
        bad_t = next(x for x in range(256) if x not in tvals)
        sub_like = [int(v) for k, v in self.types.items() if k in ("Subscribe", "SubscribeAck")]
        svc_like = [int(v) for k, v in self.types.items() if k in ("FindService", "OfferService")]
        failures = {}
        cases = 0
        for blen, ty, oi1, no1, oi2, no2, num, val in itertools.product(
                (fm.size - 1, fm.size, fm.size + 3), sorted(tvals) + [bad_t], (0, 2), (0, 1, 15), (0, 3), (0, 2, 15),
                (0, 3, 5, 17, 18), (0, 0x000FFFFF, 0x00100000, 0xFFFFFFFF)):
            cases += 1
            data = bytes((i * 11 + 5) % 253 for i in range(blen))
            U = (ty, oi1, oi2, (no1 << 4) | no2, 0x1111, 0x2222, 0x33, 0x01, 0x0203, val)

            def leaf(tm):
                if tm == buf:
                    return data
                if tm == nopt:
                    return num
                if tm == unp:
                    return U
                sz = self.fmt_size_leaf(tm)
                if sz is not None:
                    return sz
                if tm[0] == "call" and tm[1] == ("cls", ETYPE) and len(tm[2]) == 1:
                    return tvals[eval_term(tm[2][0], leaf)]
                raise AnalysisError(f"{parse.qual}: guard depends on {show(tm)}")

            def consistent(p):
                for e in p.events:
                    if e.kind == "call" and e.ext == "enumconv:" + ETYPE and e.args and not is_const(e.args[0]):
                        if (eval_term(e.args[0], leaf) in tvals) != (e.raised is None):
                            return False
                return all(bool(eval_term(c, leaf)) == v for c, v, _, _ in p.conds)

            hits = []
            for p in paths:
                try:
                    if consistent(p):
                        hits.append(p)
                except (KeyError, IndexError, _struct.error):
                    pass
            if len(hits) != 1:
                raise AnalysisError(f"{parse.qual}: {len(hits)} paths consistent with one guard case")
            p = hits[0]
            if blen < fm.size:
                want, why = "reject", "short-buffer"
            elif ty not in tvals:
                want, why = "reject", "bad-entry-type"
            elif oi1 + no1 > num:
                want, why = "reject", "run1-out-of-range"
            elif oi2 + no2 > num:
                want, why = "reject", "run2-out-of-range"
            elif ty in sub_like and (val & 0xFFF00000):
                want, why = "reject", "reserved-bits-set"
            else:
                want, why = "accept", "valid"
            got = "accept" if p.returns() else ("reject" if p.outcome[0] == "raise" and eng.exc.is_sub(p.outcome[1], PARSE_ERR) else f"raises {p.outcome[1]}")
            if got != want and not self.strict_guards:
                continue
            if got != want:
                failures.setdefault(f"{parse.qual}:guard[{why}]",
                                    f"type {ty}, run1 {oi1}+{no1}, run2 {oi2}+{no2}, {num} options, value {val:#x}, {blen} bytes: "
                                    f"entry decoder {got}s, expected {want}")
            elif want == "accept":
                rest = eval_term(p.retval()[1][1], leaf)
                if rest != data[fm.size:]:
                    failures.setdefault(f"{parse.qual}:rest", f"{blen} byte buffer: unconsumed rest has {len(rest)} bytes, expected {blen - fm.size}")
        run.abstract_cases += cases
        for k, msg in failures.items():
            run.ob(guards_rule, k, False, loc(parse), msg)
        if not failures:
            run.ob(guards_rule, f"{parse.qual}:guards", True, loc(parse),
                   f"{cases} boundary cases: rejects short buffers, unknown types, runs beyond the option array and reserved bits; consumes exactly {fm.size} bytes")
        return parse, unp

    # ================================================================== option header
    def option_header(self, rule):
        run, eng = self.run, self.eng
        bo = self.m(OPTION, "build_option")
        me = ("self", OPTION)
        tp = P(bo, param_at(bo, 0, "type_b"))
        bp = P(bo, param_at(bo, 1, "buf"))
        for p in [p for p in self.paths(bo, OPTION) if p.returns()]:
            segs = layout.segments(eng, p.retval())
            ok = len(segs) == 2 and segs[0][0] == "pack" and segs[1] == ("bytes", bp)
            if ok:
                fm, args = segs[0][1], segs[0][2]
                ok = fm.big_endian and fm.signature() == [("u", 2), ("u", 1)] and len(args) == 2 \
                    and layout.lin_eq(args[0], ("call", ("ext", "len"), (bp,), (), None)) is False
                # compare modulo call sites
                la = layout.linear(args[0])
                lenatoms = [a for a in (la[0] if la else {}) if a[0] == "call" and a[1] == ("ext", "len") and a[2] == (bp,)]
                ok = fm.big_endian and fm.signature() == [("u", 2), ("u", 1)] and len(args) == 2 and la is not None \
                    and len(la[0]) == 1 and len(lenatoms) == 1 and la[0][lenatoms[0]] == 1 and la[1] == 0 and args[1] == tp
            run.ob(rule, f"{bo.qual}:length16-type8-body", ok, loc(bo),
                   "option = pack('!HB', len(body), type) + body (length counts the body incl. its reserved byte)" if ok
                   else f"option header built as {show(p.retval())}")
        parse = self.m(OPTION, "parse")
        buf = P(parse, param_at(parse, 0, "buf"))
        paths = self.paths(parse, OPTION)
        rets = [p for p in paths if p.returns()]
        unps = []
        for p in paths:
            for e in p.events:
                if e.kind == "call" and e.result is not None and layout.unpack_call(eng, e.result) and e.result not in unps:
                    unps.append(e.result)
        if len(unps) != 1:
            raise AnalysisError(f"{parse.qual}: {len(unps)} unpack calls")
        unp = unps[0]
        fm, _ = layout.unpack_call(eng, unp)
        run.ob(rule, f"{parse.qual}:format", fm.big_endian and fm.signature() == [("u", 2), ("u", 1)], loc(parse), f"option header unpacked as {fm.text!r}")
        # representative points: length vs available bytes
        failures = {}
        cases = 0
        reg = self.registered()
        known_types = {v["type"] for v in reg.values()}
        unk_t = next(x for x in range(256) if x not in known_types)
        any_known = sorted(known_types)[0]
        for blen, ln, ty in itertools.product((0, 2, 3, 4, 7, 9), (0, 1, 4, 5, 6, 0xFFFF), (unk_t, any_known)):
            cases += 1
            data = bytes((i * 13 + 1) % 251 for i in range(blen))
            U = (ln, ty)

            def leaf(tm):
                if tm == buf:
                    return data
                if tm == unp:
                    return U
                sz = self.fmt_size_leaf(tm)
                if sz is not None:
                    return sz
                if tm[0] == "call" and tm[1][0] == "attr" and tm[1][2] == "get" and tm[1][1][0] == "classconst":
                    t_ = eval_term(tm[2][0], leaf)
                    return ("registered-class", t_) if t_ in known_types else None
                raise AnalysisError(f"{parse.qual}: guard depends on {show(tm)}")
            hits = []
            for p in paths:
                try:
                    if all(bool(eval_term(c, leaf)) == v for c, v, _, _ in p.conds):
                        hits.append(p)
                except (KeyError, IndexError):
                    pass
            if len(hits) != 1:
                raise AnalysisError(f"{parse.qual}: {len(hits)} paths for one header case")
            p = hits[0]
            want = "reject" if blen < fm.size or blen - fm.size < ln else "accept"
            got = "accept" if p.returns() else ("reject" if p.outcome[0] == "raise" and eng.exc.is_sub(p.outcome[1], PARSE_ERR) else f"raises {p.outcome[1]}")
            if got != want and not self.strict_guards:
                continue
            if got != want:
                failures.setdefault(f"{parse.qual}:guard[{'short' if want == 'reject' else 'valid'}]",
                                    f"{blen} bytes, length field {ln}: option decoder {got}s, expected {want}")
                continue
            if want == "accept":
                rv = p.retval()
                rest = eval_term(rv[1][1], leaf)
                if rest != data[fm.size + ln:]:
                    failures.setdefault(f"{parse.qual}:rest", f"{blen} bytes, length {ln}: rest has {len(rest)} bytes, expected {blen - fm.size - ln}")
                opt = rv[1][0]
                body = data[fm.size:fm.size + ln]
                if ty == unk_t:
                    okf = opt[0] == "new" and opt[1] == UNKNOWN
                    if okf:
                        d = dict(opt[2])
                        okf = set(d) == {"type", "payload"} and eval_term(d["type"], leaf) == ty and eval_term(d["payload"], leaf) == body
                    if not okf:
                        failures.setdefault(f"{parse.qual}:unknown-fallback",
                                            f"unregistered type {ty:#x}: decoder returns {show(opt)[:120]}; expected SOMEIPSDUnknownOption(type, body) taken from the wire")
                else:
                    okd = opt[0] == "call" and opt[1][0] == "attr" and opt[1][2] == "parse_option" and len(opt[2]) == 1 \
                        and eval_term(opt[2][0], leaf) == body and eval_term(opt[1][1], leaf) == ("registered-class", ty)
                    if not okd:
                        failures.setdefault(f"{parse.qual}:dispatch", f"registered type {ty:#x}: decoder returns {show(opt)[:120]}; expected <registered class>.parse_option(body)")
        run.abstract_cases += cases
        for k, msg in failures.items():
            run.ob(rule, k, False, loc(parse), msg)
        if not failures:
            run.ob(rule, f"{parse.qual}:framing", True, loc(parse),
                   f"{cases} cases: body = next `length` bytes after the 3 byte header, rest follows, unknown types fall back to (type, body)")

    # ================================================================== registry
    def registered(self) -> t.Dict[str, dict]:
        out = {}
        for q, ci in self.prog.classes.items():
            if any(d.split(".")[-1] == "register" for d in ci.decorators):
                c = self.prog.lookup_const(q, "type")
                tv = c[1].value if c and isinstance(c[1], ast.Constant) else None
                out[q] = {"type": tv, "cls": ci}
        return out

    def registry(self, rule):
        run, prog, eng = self.run, self.prog, self.eng
        reg = self.registered()
        run.floor(rule + "-registered", len(reg), 8)
        seen = {}
        for q, info in sorted(reg.items()):
            ci = info["cls"]
            tv = info["type"]
            ok = isinstance(tv, int) and 0 <= tv <= 255 and tv not in seen
            run.ob(rule, f"{q}:distinct-type", ok, loc(self.m(q, "build"), ci.node),
                   f"option type {tv!r}" + ("" if ok else f" clashes with {seen.get(tv)} or is not a byte literal"))
            seen[tv] = q
            po = prog.lookup_method(q, "parse_option")
            bd = prog.lookup_method(q, "build")
            run.ob(rule, f"{q}:has-codec", po is not None and bd is not None and po.cls.qual != ABSOPT and bd.cls.qual != OPTION, loc(bd or po, ci.node),
                   "parse_option and build are implemented")
            # build passes its own type to build_option
            for p in [p for p in self.paths(bd, q) if p.returns()]:
                segs = layout.segments(eng, p.retval())
                okb = bool(segs) and segs[0][0] == "pack" and len(segs[0][2]) == 2 and segs[0][2][1] == const(tv)
                run.ob(rule, f"{q}:build-uses-own-type", okb, loc(bd),
                       f"type byte written is {show(segs[0][2][1]) if segs and segs[0][0] == 'pack' and len(segs[0][2]) == 2 else '?'}; registered type is {tv}")
                break
        # the option type bytes and the entry type bytes are fixed by the SOME/IP-SD specification: an independent decoder reads
        # the class from them
        SPEC_OPT = {"header.SOMEIPSDConfigOption": 0x01, "header.SOMEIPSDLoadBalancingOption": 0x02, "header.IPv4EndpointOption": 0x04,
                    "header.IPv6EndpointOption": 0x06, "header.IPv4MulticastOption": 0x14, "header.IPv6MulticastOption": 0x16,
                    "header.IPv4SDEndpointOption": 0x24, "header.IPv6SDEndpointOption": 0x26}
        wrong = {q: reg[q]["type"] for q in SPEC_OPT if q in reg and reg[q]["type"] != SPEC_OPT[q]}
        absent = sorted(q for q in SPEC_OPT if q not in reg)
        run.ob(rule, f"{OPTION}:specification-type-values", not wrong and not absent, loc(self.m(OPTION, "parse")),
               f"{len(SPEC_OPT)} option classes carry their SOME/IP-SD type byte" if not wrong and not absent else
               f"option type bytes deviate from SOME/IP-SD: {({k.split('.')[-1]: hex(v) if isinstance(v, int) else v for k, v in wrong.items()})} {('not registered: ' + str(absent)) if absent else ''}")
        SPEC_ENT = {"FindService": 0x00, "OfferService": 0x01, "Subscribe": 0x06, "SubscribeAck": 0x07}
        wrong_e = {n: int(v) for n, v in self.types.items() if n in SPEC_ENT and int(v) != SPEC_ENT[n]}
        absent_e = sorted(set(SPEC_ENT) - set(self.types))
        run.ob(rule, f"{ETYPE}:specification-values", not wrong_e and not absent_e, loc(self.m(ENTRY, "parse"), prog.cls(ETYPE).node),
               "the four entry types carry their SOME/IP-SD byte values (0, 1, 6, 7)" if not wrong_e and not absent_e else
               f"entry type bytes deviate from SOME/IP-SD: {({n: hex(v) for n, v in wrong_e.items()})} {('missing ' + str(absent_e)) if absent_e else ''}")
        l4 = enum_members(prog, "header.L4Protocols") or {}
        okl4 = int(l4.get("TCP", -1)) == 6 and int(l4.get("UDP", -1)) == 17
        run.ob(rule, "header.L4Protocols:specification-values", okl4, loc(self.m(OPTION, "parse"), prog.cls("header.L4Protocols").node),
               "transport protocol numbers are the IANA ones (TCP 6, UDP 17)" if okl4 else f"L4Protocols = {({n: int(v) for n, v in l4.items()})}; SOME/IP-SD uses TCP 6 / UDP 17")
        # register() stores under the class' type
        regm = self.m(OPTION, "register")
        oc = P(regm, param_at(regm, 0, "option_cls"))
        okr = False
        for p in self.paths(regm, OPTION):
            for e in p.events:
                if e.kind == "store" and e.target[0] == "item" and e.target[2] == ("attr", oc, "type") and e.value == oc:
                    okr = p.returns() and p.retval() == oc
        run.ob(rule, f"{regm.qual}:keyed-by-type", okr, loc(regm), "register() files the class under its `type` and returns it")
        # family triples
        fams = {"header.AbstractIPv4Option": (4, "ipaddress.IPv4Address", "socket.AF_INET"),
                "header.AbstractIPv6Option": (16, "ipaddress.IPv6Address", "socket.AF_INET6")}
        for q, (alen, atype, fam) in fams.items():
            ci = prog.cls(q)
            fmt = layout.struct_fmt(eng, ("classconst", q, "_format")) if "_format" in ci.consts else None
            a = dotted(ci.consts.get("_address_type")) if ci.consts.get("_address_type") is not None else None
            f = dotted(ci.consts.get("_family")) if ci.consts.get("_family") is not None else None
            ok = fmt is not None and fmt.big_endian and fmt.items == [("B", 1), ("s", alen), ("B", 1), ("B", 1), ("H", 2)] \
                and prog.expand_alias(ci.module, a or "") == atype and prog.expand_alias(ci.module, f or "") == fam
            run.ob(rule, f"{q}:format-address-family", ok, loc(self.m(q, "build"), ci.node),
                   f"format {fmt.text if fmt else None!r}, address type {a}, family {f}"
                   + ("" if ok else f"; expected reserved:8 | {alen} address bytes | reserved:8 | protocol:8 | port:16 with {atype}/{fam}"))
        return reg

    # ================================================================== fixed-size option bodies
    def option_bodies(self, rule, reg):
        run, prog, eng = self.run, self.prog, self.eng
        n = 0
        for q in sorted(reg):
            if q == "header.SOMEIPSDConfigOption":
                continue
            n += 1
            bd = self.m(q, "build")
            po = self.m(q, "parse_option")
            me = ("self", q)
            wp = [p for p in self.paths(bd, q) if p.returns()]
            if len(wp) != 1:
                raise AnalysisError(f"{bd.qual}[{q}]: {len(wp)} encoding paths")
            segs = layout.segments(eng, wp[0].retval())
            # [pack(len(body), type), body...]
            if not segs or segs[0][0] != "pack":
                raise AnalysisError(f"{bd.qual}[{q}]: not built through build_option")
            body = segs[1:]
            if len(body) != 1 or body[0][0] != "pack":
                raise AnalysisError(f"{bd.qual}[{q}]: body is not one packed struct")
            wf, wargs = body[0][1], body[0][2]
            wtab = {}  # offset -> (code,width,descr)
            for off, (code, w), a in zip(wf.offsets(), wf.items, wargs):
                wtab[off] = (code, w, layout.w_descr(a, me))
            run.ob(rule, f"{q}:body-big-endian", wf.big_endian and len(wargs) == len(wf.items), loc(bd), f"body packed as {wf.text!r} with {len(wargs)} values")
            buf = P(po, param_at(po, 0, "buf"))
            rps = self.paths(po, q)
            rets = [p for p in rps if p.returns()]
            fields_decl = [f.name for f in prog.all_fields(q)]
            # length guard at points
            for L in (wf.size - 1, wf.size, wf.size + 1, 0):
                def leaf(tm, L=L):
                    if tm == buf:
                        return bytes(L)
                    sz = self.fmt_size_leaf(tm)
                    if sz is not None:
                        return sz
                    if tm[0] == "call" and layout.unpack_call(eng, tm):
                        return self.unpack_value(tm, leaf)
                    if tm[0] == "call" and tm[1][0] in ("cls", "classconst", "ext"):
                        return 0
                    raise AnalysisError(f"{po.qual}: guard depends on {show(tm)}")
                hits = []
                for p in rps:
                    try:
                        if all(bool(eval_term(c, leaf)) == v for c, v, _, _ in p.conds):
                            hits.append(p)
                    except (_struct.error, IndexError):
                        pass
                acc = any(p.returns() for p in hits)
                rej = hits and all(p.outcome[0] == "raise" and eng.exc.is_sub(p.outcome[1], PARSE_ERR) for p in hits)
                want_acc = L == wf.size
                if not self.strict_guards:
                    continue
                run.ob(rule, f"{q}:body-length[{'exact' if want_acc else 'wrong'}]", (acc and not rej) if want_acc else bool(rej), loc(po),
                       f"body of {L} bytes (encoder writes {wf.size}): " + ("accepted" if acc else "rejected with ParseError" if rej else "neither cleanly accepted nor rejected"))
                run.abstract_cases += 1
            for p in rets:
                rv = p.retval()
                if rv[0] != "new" or rv[1] != q:
                    raise AnalysisError(f"{po.qual}[{q}]: returns {show(rv)[:80]}, not an instance of the registered class")
                us = layout.find_unpacks(eng, rv)
                if len(us) != 1:
                    raise AnalysisError(f"{po.qual}[{q}]: {len(us)} unpack calls")
                rf, rb = layout.unpack_call(eng, us[0])
                base = 0
                if rb == buf:
                    base = 0
                elif rb[0] == "slice" and rb[1] == buf and (rb[2] is None or is_const(rb[2])) and (rb[3] is None or is_const(rb[3])):
                    base = rb[2][1] if rb[2] is not None else 0
                else:
                    raise AnalysisError(f"{po.qual}[{q}]: unpack source {show(rb)} not modelled")
                roff = {i: base + o for i, o in enumerate(rf.offsets())}
                isit = layout.item_pos(us[0])
                got = dict(rv[2])
                for f in fields_decl:
                    if f not in got:
                        run.ob(rule, f"{q}:{f}-decoded", False, loc(po), f"decoder never sets {f}")
                        continue
                    d = layout.r_descr(got[f], isit)
                    # descriptor -> (position, transform)
                    tr, pos = "id", None
                    if d[0] == "pos":
                        pos = d[1]
                    elif d[0] in ("enumconv", "conv") and d[2][0] == "pos":
                        tr, pos = d[0], d[2][1]
                    if pos is None:
                        run.ob(rule, f"{q}:{f}-decoded", False, loc(po), f"{f} decoded as {show(got[f])}; not a wire field")
                        continue
                    off = roff[pos]
                    w = wtab.get(off)
                    okw = w is not None and w[1] == rf.items[pos][1] and w[0] == rf.items[pos][0]
                    if okw:
                        wd = w[2]
                        okw = wd == ("field", f) or (wd == ("packed", f) and tr == "conv") or (wd == ("enum", f) and tr == "enumconv")
                        if wd == ("packed", f) and tr == "conv":
                            # address bytes <-> address class of the family
                            conv = got[f][1]
                            if conv[0] == "classconst":
                                cnode = prog.cls(conv[1]).consts.get(conv[2])
                                cname = prog.expand_alias(prog.cls(conv[1]).module, dotted(cnode) or "")
                                okw = cname in ("ipaddress.IPv4Address", "ipaddress.IPv6Address")
                    run.ob(rule, f"{q}:{f}@offset{off}", bool(okw), loc(po),
                           f"{f} is read from body offset {off} ({rf.items[pos][1]} bytes); the encoder writes {w[2] if w else 'nothing'} there")
                # bytes the reader ignores must be constants of the writer
                used = set()
                for f in fields_decl:
                    if f in got:
                        for s in subterms(got[f]):
                            i = isit(s)
                            if i is not None:
                                used.add(roff[i])
                for off, (code, w, d) in wtab.items():
                    if off not in used:
                        run.ob(rule, f"{q}:reserved@offset{off}", d[0] == "const" and d[1] == 0, loc(bd),
                               f"body offset {off} is not decoded; encoder writes {d} (must be the reserved constant 0)")
        run.floor(rule + "-fixed-bodies", n, 7)

    def unknown_option(self, rule):
        run, eng = self.run, self.eng
        bd = self.m(UNKNOWN, "build")
        me = ("self", UNKNOWN)
        for p in [p for p in self.paths(bd, UNKNOWN) if p.returns()]:
            segs = layout.segments(eng, p.retval())
            ok = len(segs) == 2 and segs[0][0] == "pack" and len(segs[0][2]) == 2 and segs[0][2][1] == ("attr", me, "type") \
                and segs[1] == ("bytes", ("attr", me, "payload"))
            run.ob(rule, f"{bd.qual}:raw-type-and-payload", ok, loc(bd),
                   "an unknown option is re-emitted with its own type byte and raw payload" if ok else f"unknown option built as {show(p.retval())[:140]}")

    # ================================================================== configuration option
    def config_option(self, rule_w, rule_r):
        run, eng, prog = self.run, self.eng, self.prog
        q = "header.SOMEIPSDConfigOption"
        bd = self.m(q, "build")
        po = self.m(q, "parse_option")
        me = ("self", q)
        # ---------------- writer: evaluate the build formulas on representative config tuples
        e2 = engine(prog, InlineOnly(names=("header.SOMEIPSDOption.build_option",), props=False, max_depth=2, unroll=3))
        wps = [p for p in self.paths(bd, q, eng=e2)]
        samples = [(), (("a", None),), (("key", "v"),), (("k", "a=b"),), (("x", None), ("yy", "zz")), (("p", ""), ("q", None)),
                   # string lengths at the codec boundaries: 0x7F / 0x80 (a length byte that is not ASCII), 0xFF (the largest)
                   (("k" * 127, None),), (("k" * 128, None),), (("k" * 100, "v" * 154),), (("a", None), ("k" * 200, "v"))]
        wfail = {}
        for cfg in samples:
            want_body = b"\x00" + b"".join(
                bytes([len(k) + (0 if v is None else len(v) + 1)]) + k.encode() + (b"" if v is None else b"=" + v.encode()) for k, v in cfg) + b"\x00"
            try:
                got = self._eval_config_build(bd, wps, me, cfg)
            except (UnicodeError, ValueError, OverflowError) as exc:
                wfail.setdefault(f"{bd.qual}:layout", f"configs {str(cfg)[:60]!r} (string lengths {[len(k) + (0 if v is None else len(v) + 1) for k, v in cfg]}) "
                                 f"cannot be encoded: the build formula raises {type(exc).__name__} - every string of up to 255 bytes has a length-prefixed encoding")
                continue
            if got is None:
                continue  # needs deeper unrolling than enumerated
            if got != _struct.pack("!HB", len(want_body), 1) + want_body:
                wfail.setdefault(f"{bd.qual}:layout", f"configs {str(cfg)[:60]!r} encode to {bytes(got).hex()}; SOME/IP-SD configuration option is {(_struct.pack('!HB', len(want_body), 1) + want_body).hex()}")
        run.abstract_cases += len(samples)
        for k, msg in wfail.items():
            run.ob(rule_w, k, False, loc(bd), msg)
        if not wfail:
            run.ob(rule_w, f"{bd.qual}:layout", True, loc(bd),
                   "reserved byte, then per item <len><key>[=<value>], terminated by a zero length (0/1/2 items, with and without values, '=' inside a value)")
        # ---------------- reader at representative points
        e3 = engine(prog, InlineOnly(names=(), props=False, max_depth=1, unroll=3))
        e3.policy.fork_uncaught = True
        e3.policy.load_raises = ()  # out-of-range indexing shows up when the formulas are evaluated
        buf = P(po, param_at(po, 0, "buf"))
        rps = self.paths(po, q, eng=e3)

        def body(items, tail=b"", reserved=0):
            return bytes([reserved]) + b"".join(bytes([len(s)]) + s for s in items) + b"\x00" + tail

        good = [([], b""), ([b"a"], b""), ([b"key=v"], b""), ([b"k=a=b"], b""), ([b"x", b"yy=zz"], b""), ([b"p="], b""),
                ([b"a"], b"\x07garbage"), ([], b"\x01"), ([b"=v"], b"")]
        rfail = {}
        for items, tail in good:
            for reserved in (0, 0x5A):
                data = body(items, tail, reserved)
                want = tuple((s.decode(), None) if b"=" not in s else (s[:s.find(b"=")].decode(), s[s.find(b"=") + 1:].decode()) for s in items)
                res = self._eval_config_parse(po, rps, buf, data, q)
                if res == "deeper":
                    continue
                if res != ("ok", want):
                    rfail.setdefault(f"{po.qual}:decode", f"body {data.hex()} decodes to {res!r}; expected configs {want!r}")
        bad = [b"", b"\x00", b"\x00\x05ab", b"\x00\x01a", b"\x00\x02a\x00", b"\x00\x01"]
        for data in (bad if self.strict_guards else []):
            res = self._eval_config_parse(po, rps, buf, data, q)
            if res == "deeper":
                continue
            if res[0] != "raise" or not eng.exc.is_sub(res[1], PARSE_ERR):
                rfail.setdefault(f"{po.qual}:malformed", f"malformed body {data.hex()!r} gives {res!r}; expected ParseError")
        # text outside ASCII: whatever the decoder accepts must survive decode - encode - decode (a multi-byte codec whose
        # length prefix counts characters emits bytes that decode to something else, or not at all)
        for items in ([b"\xc3\xa9a"], [b"k=\xc3\xbc"], [b"\xd6"], [b"\xc3\xa9" + b"k" * 3, b"z"]):
            data = body(items)
            try:
                res = self._eval_config_parse(po, rps, buf, data, q)
            except (UnicodeDecodeError, UnicodeEncodeError):
                continue  # rejected while decoding the text
            if res == "deeper" or res[0] != "ok":
                continue  # rejected (UnicodeDecodeError / ParseError): nothing to re-encode
            try:
                again = self._eval_config_build(bd, wps, me, res[1])
            except Exception as exc:  # the writer refuses what the reader accepted
                rfail.setdefault(f"{po.qual}:non-ascii-text-cycle", f"body {data.hex()} decodes to {res[1]!r}, which cannot be encoded again ({type(exc).__name__})")
                continue
            if again is None:
                continue
            try:
                res2 = self._eval_config_parse(po, rps, buf, bytes(again)[3:], q)
            except (UnicodeDecodeError, UnicodeEncodeError) as exc:
                res2 = ("raise", type(exc).__name__)
            if res2 != res:
                rfail.setdefault(f"{po.qual}:non-ascii-text-cycle",
                                 f"body {data.hex()} decodes to {res[1]!r}; re-encoded as {bytes(again)[3:].hex()} it decodes to {res2!r}: "
                                 "the length prefix does not count the encoded bytes")
        run.abstract_cases += len(good) * 2 + len(bad) + 4
        for k, msg in rfail.items():
            run.ob(rule_r, k, False, loc(po), msg)
        if not rfail:
            run.ob(rule_r, f"{po.qual}:decode", True, loc(po),
                   "length-prefixed strings are split at the first '=', the reserved byte and bytes after the terminator are ignored, truncated bodies raise ParseError")

    def _eval_config_build(self, bd, wps, me, cfg):
        """evaluate build()'s returned layout term for a concrete configs tuple"""
        items = list(cfg)

        def leaf(tm):
            if tm == ("attr", me, "configs"):
                return tuple(items)
            if tm == ("attr", me, "type"):
                return 1
            if tm[0] == "elem" and tm[1] == ("attr", me, "configs"):
                return items[tm[3]]
            if tm[0] == "call" and tm[1][0] == "attr" and tm[1][2] in ("encode",):
                return _pure_method(eval_term(tm[1][1], leaf), tm[1][2], [eval_term(a, leaf) for a in tm[2]])
            if tm[0] == "attr" and tm[1][0] == "mod" and tm[1][1] in self.prog.modules:
                # a module constant computed from other constants (e.g. SEPARATOR.decode(ENCODING))
                mi_ = self.prog.modules[tm[1][1]]
                if tm[2] in mi_.consts and tm[2] not in mi_.rebound:
                    v_ = self.eng._eval_in_module(mi_.consts[tm[2]], mi_)
                    if v_ != tm and v_[0] != "unknown":
                        return eval_term(v_, leaf)
            raise AnalysisError(f"{bd.qual}: formula depends on {show(tm)}")

        hits = []
        for p in wps:
            terms = [c for c, _, _, _ in p.conds] + ([p.retval()] if p.returns() else [])
            used = {s_[3] for t_ in terms for s_ in subterms(t_) if s_[0] == "elem" and s_[1] == ("attr", me, "configs")}
            whole = any(s_[0] == "comp" and any(g_[1] == ("attr", me, "configs") for g_ in s_[3]) for t_ in terms for s_ in subterms(t_))
            if used != set(range(len(items))) and not whole:  # (a comprehension over configs covers every length)
                continue
            try:
                if all(bool(eval_term(c, leaf)) == v for c, v, _, _ in p.conds):
                    hits.append(p)
            except IndexError:
                continue
        if not hits:
            return None
        if len(hits) != 1:
            raise AnalysisError(f"{bd.qual}: {len(hits)} paths for one configs tuple")
        p = hits[0]
        if not p.returns():
            return ("raise", p.outcome[1])
        out = bytearray()
        for sg in layout.segments(self.eng, p.retval()):
            if sg[0] == "pack":
                out += _struct.pack(sg[1].text, *[self._eval_len(a, leaf) for a in sg[2]])
            elif sg[0] == "lit":
                out += sg[1]
            elif sg[0] == "u8s":
                out += bytes(eval_term(x, leaf) for x in sg[1])
            else:
                out += eval_term(sg[1], leaf)
        return bytes(out)

    def _eval_len(self, tm, leaf):
        """integer argument of a pack call; len(<bytes expression>) is evaluated through its segments"""
        def rewrite(t_):
            if not isinstance(t_, tuple) or not t_ or not isinstance(t_[0], str):
                return t_
            if t_[0] == "call" and t_[1] == ("ext", "len") and len(t_[2]) == 1:
                return const(len(self._eval_bytes_term(t_[2][0], leaf)))
            if t_[0] in ("binop", "unop", "cmp"):
                return tuple(rewrite(x) if isinstance(x, tuple) else x for x in t_)
            return t_
        return eval_term(rewrite(tm), leaf)

    def _eval_bytes_term(self, tm, leaf):
        out = bytearray()
        for sg in layout.segments(self.eng, tm):
            if sg[0] == "pack":
                out += _struct.pack(sg[1].text, *[self._eval_len(a, leaf) for a in sg[2]])
            elif sg[0] == "lit":
                out += sg[1]
            elif sg[0] == "u8s":
                out += bytes(eval_term(x, leaf) for x in sg[1])
            else:
                out += eval_term(sg[1], leaf)
        return bytes(out)

    def _eval_config_parse(self, po, rps, buf, data, q):
        eng = self.eng

        def leaf(tm):
            if tm == buf:
                return data
            if tm[0] == "call" and tm[1][0] == "attr" and tm[1][2] in ("find", "rfind", "decode", "index", "partition", "split"):
                return _pure_method(eval_term(tm[1][1], leaf), tm[1][2], [eval_term(a, leaf) for a in tm[2]])
            raise AnalysisError(f"{po.qual}: formula depends on {show(tm)}")
        hits = []
        for p in rps:
            try:
                if all(bool(eval_term(c, leaf)) == v for c, v, _, _ in p.conds):
                    hits.append(p)
            except IndexError:
                # the formulas themselves index out of range: the code would raise IndexError here
                hits.append(("index", p))
        real = [h for h in hits if not isinstance(h, tuple)]
        if len(real) == 1 and len(hits) == 1:
            p = real[0]
            if p.outcome[0] == "cut" or (p.truncated and p.outcome[0] != "raise"):
                return "deeper"
            if not p.returns():
                return ("raise", p.outcome[1])
            rv = p.retval()
            if rv[0] != "new" or rv[1] != q:
                raise AnalysisError(f"{po.qual}: returns {show(rv)[:80]}")
            try:
                cfg = eval_term(dict(rv[2])["configs"], leaf)
            except UnicodeDecodeError:
                return ("raise", "UnicodeDecodeError")
            return ("ok", tuple(tuple(x) for x in cfg))
        if not real and hits:
            return ("raise", "IndexError")
        if not hits:
            return "deeper"
        raise AnalysisError(f"{po.qual}: {len(hits)} paths for one body")

    # ================================================================== SD header
    def sd_header_writer(self, rule, flags_rule=None):
        run, eng = self.run, self.eng
        bd = self.m(SDHDR, "build")
        me = ("self", SDHDR)
        paths = [p for p in self.paths(bd, SDHDR, eng=engine(self.prog, NoInline())) if p.returns()]
        ebuild = self.m(ENTRY, "build").qual
        obuild = self.m(OPTION, "build").qual
        shape_ok = True
        why = ""
        flag_terms = []
        for p in paths:
            segs = layout.segments(eng, p.retval())
            kinds = [s[0] for s in segs]
            if kinds != ["u8s", "pack", "bytes", "pack", "bytes"]:
                shape_ok, why = False, f"segments {kinds}"
                break
            u8 = segs[0][1]
            if len(u8) != 4 or u8[1:] != (const(0), const(0), const(0)):
                shape_ok, why = False, "flags byte is not followed by three zero reserved bytes"
                break
            flag_terms.append((p, u8[0]))
            for (lp, bs, attr, bq) in ((segs[1], segs[2], "entries", ebuild), (segs[3], segs[4], "options", obuild)):
                fm, args = lp[1], lp[2]
                joined = bs[1]
                good = fm.big_endian and fm.signature() == [("u", 4)] and len(args) == 1 \
                    and strip_sites(args[0]) == strip_sites(("call", ("ext", "len"), (joined,), (), None))
                # joined = b"".join(x.build() for x in self.<attr>)
                if good:
                    good = joined[0] == "call" and joined[1] == ("attr", const(b""), "join") and len(joined[2]) == 1 and joined[2][0][0] == "comp"
                if good:
                    comp = joined[2][0]
                    gens = comp[3]
                    elt = comp[2]
                    good = len(gens) == 1 and gens[0][1] == ("attr", me, attr) and not gens[0][2] \
                        and elt[0] == "call" and elt[1][0] == "bound" and elt[1][1] == gens[0][0] and elt[1][2].endswith(".build") and not elt[2]
                if not good:
                    shape_ok, why = False, f"{attr} array is not <len32><every element's build() in order>: {show(lp[2][0])[:80]} / {show(joined)[:80]}"
                    break
            if not shape_ok:
                break
        run.ob(rule, f"{bd.qual}:flags-reserved-len32-entries-len32-options", shape_ok and bool(paths), loc(bd),
               "flags:8 reserved:24 | len32 + all entries in order | len32 + all options in order" if shape_ok else why)
        if flags_rule and shape_ok:
            bad = None
            n = 0
            for reboot, unicast, unk in itertools.product((False, True), (False, True), range(64)):
                n += 1
                vals = {"flag_reboot": reboot, "flag_unicast": unicast, "flags_unknown": unk}

                def leaf(tm):
                    if tm[0] == "attr" and tm[1] == me and tm[2] in vals:
                        return vals[tm[2]]
                    raise AnalysisError(f"{bd.qual}: flags depend on {show(tm)}")
                hits = [(p, ft) for p, ft in flag_terms if all(bool(eval_term(c, leaf)) == v for c, v, _, _ in p.conds)]
                if len(hits) != 1:
                    raise AnalysisError(f"{bd.qual}: {len(hits)} paths for one flag combination")
                got = eval_term(hits[0][1], leaf)
                want = unk | (0x80 if reboot else 0) | (0x40 if unicast else 0)
                if got != want and bad is None:
                    bad = f"reboot={reboot} unicast={unicast} unknown bits={unk:#04x}: flags byte {got:#04x}, expected {want:#04x}"
            run.abstract_cases += n
            run.exhaustive = True
            run.ob(flags_rule, f"{bd.qual}:flags-byte", bad is None, loc(bd), bad or f"all {n} combinations of reboot/unicast/unknown bits give reboot<<7 | unicast<<6 | unknown")

    def sd_header_reader(self, rule, flags_rule=None):
        run, eng = self.run, self.eng
        parse = self.m(SDHDR, "parse")
        e2 = engine(self.prog, InlineOnly(names=(), props=False, max_depth=1, unroll=2))
        e2.policy.fork_uncaught = True
        e2.policy.load_raises = ()
        buf = P(parse, param_at(parse, 0, "buf"))
        paths = self.paths(parse, SDHDR, eng=e2)
        oparse = self.m(OPTION, "parse").qual
        eparse = self.m(ENTRY, "parse").qual
        # ---- loop shapes: options first (all of them), then entries with the final option count
        shape_fail = None
        best = None
        for p in paths:
            oc = [e for e in calls_to(p, oparse) if e.raised is None]
            ec = [e for e in calls_to(p, eparse) if e.raised is None]
            if p.returns() and len(oc) == 2 and len(ec) == 2:
                best = p
        if best is None:
            raise AnalysisError(f"{parse.qual}: no path decoding two options and two entries")
        p = best
        oc = calls_to(p, oparse)
        ec = calls_to(p, eparse)
        rv = p.retval()
        if rv[0] != "tuple" or len(rv[1]) != 2 or rv[1][0][0] != "new" or rv[1][0][1] != SDHDR:
            raise AnalysisError(f"{parse.qual}: does not return (SOMEIPSDHeader, rest)")
        fields = dict(rv[1][0][2])
        o_first = oc[0].args[0] if oc and oc[0].args else None
        e_first = ec[0].args[0] if ec and ec[0].args else None
        probs = []
        if not (oc[1].args[:1] == (("item", oc[0].result, const(1)),)):
            probs.append("second option is not decoded from the rest of the first")
        if not (ec[1].args[:1] == (("item", ec[0].result, const(1)),)):
            probs.append("second entry is not decoded from the rest of the first")
        want_opts = ("tuple", (("item", oc[0].result, const(0)), ("item", oc[1].result, const(0))))
        want_ents = ("tuple", (("item", ec[0].result, const(0)), ("item", ec[1].result, const(0))))
        if fields.get("options") != want_opts:
            probs.append(f"decoded options are {show(fields.get('options'))[:80]}, not all parsed options in wire order")
        if fields.get("entries") != want_ents:
            probs.append(f"decoded entries are {show(fields.get('entries'))[:80]}, not all parsed entries in wire order")
        for e in ec:
            if max(o.seq for o in oc) > e.seq:
                probs.append("an entry is decoded before all options are known")
            n = e.arg(1, "num_options")
            if n != const(2) and strip_sites(n) != strip_sites(("call", ("ext", "len"), (("list", want_opts[1]),), (), None)):
                probs.append(f"entries are bounds-checked against {show(n)[:60]}, not the number of decoded options")
        # loops must run until their buffer is empty
        for calls, nm in ((oc, "options"), (ec, "entries")):
            last = ("item", calls[-1].result, const(1))
            if [v for c, v, _, _ in p.conds if c == last] != [False]:
                probs.append(f"the {nm} loop does not run until its buffer is empty")
        run.ob(rule, f"{parse.qual}:arrays-in-wire-order", not probs, loc(parse), "; ".join(dict.fromkeys(probs)) or
               "options are decoded to exhaustion first, entries afterwards against the full option count, both in wire order")
        # ---- framing at representative points (uses the path with no options / no entries decoded)
        failures = {}
        cases = 0
        for el, ol, tail, cut in itertools.product((0, 16, 32), (0, 12, 19), (0, 1, 5), (0, 1, 4, 9)):
            cases += 1
            ents = bytes((i * 3 + 7) % 250 + 1 for i in range(el))
            opts = bytes((i * 5 + 9) % 250 + 1 for i in range(ol))
            full = bytes([0xC3, 9, 8, 7]) + _struct.pack("!I", el) + ents + _struct.pack("!I", ol) + opts + bytes(range(1, tail + 1))
            data = full[: len(full) - cut] if cut else full
            complete = cut <= tail
            exp_tail = full[len(full) - tail: len(full) - cut] if complete else None

            def leaf(tm):
                if tm == buf:
                    return data
                if tm[0] == "call" and layout.unpack_call(eng, tm):
                    return self.unpack_value(tm, leaf)
                raise AnalysisError(f"{parse.qual}: framing depends on {show(tm)}")
            # which path prefix? evaluate only the framing conditions (those not about loop buffers)
            res = self._frame(parse, paths, leaf, oparse, eparse)
            if res[0] == "raise":
                got = "reject" if eng.exc.is_sub(res[1], PARSE_ERR) else f"raises {res[1]}"
            else:
                got = "accept"
            want = "accept" if complete else "reject"
            if got != want and not self.strict_guards:
                continue
            if got != want:
                failures.setdefault(f"{parse.qual}:framing-guard", f"SD payload with entries {el}B, options {ol}B, {tail}B trailing, cut by {cut}B: decoder {got}s, expected {want}")
                continue
            if want == "accept":
                _, ebuf, obuf, rest, flags = res
                if ebuf != ents or obuf != opts or rest != exp_tail:
                    failures.setdefault(f"{parse.qual}:framing-slices",
                                        f"entries {el}B/options {ol}B/trailing {tail - cut}B: decoder sees entries {len(ebuf)}B, options {len(obuf)}B, rest {len(rest)}B")
                if flags != 0xC3:
                    failures.setdefault(f"{parse.qual}:flags-source", f"flags taken as {flags!r}, first byte is 0xc3")
        run.abstract_cases += cases
        for k, msg in failures.items():
            run.ob(rule, k, False, loc(parse), msg)
        if not failures:
            run.ob(rule, f"{parse.qual}:framing", True, loc(parse), f"{cases} framing cases: len32-delimited entry and option arrays, trailing bytes returned, truncation rejected")
        # ---- flag bits, exhaustively
        if flags_rule:
            p0 = next((p for p in paths if p.returns()), None)
            flds = dict(p0.retval()[1][0][2])
            bad = None
            for b in range(256):
                def leaf(tm, b=b):
                    if tm == ("item", buf, const(0)):
                        return b
                    raise AnalysisError(f"{parse.qual}: flags depend on {show(tm)}")
                got = (eval_term(flds["flag_reboot"], leaf), eval_term(flds["flag_unicast"], leaf), eval_term(flds["flags_unknown"], leaf))
                want = (bool(b & 0x80), bool(b & 0x40), b & 0x3F)
                if got != want and bad is None:
                    bad = f"flags byte {b:#04x} decodes to reboot/unicast/unknown {got}, expected {want}"
            run.abstract_cases += 256
            run.ob(flags_rule, f"{parse.qual}:flag-bits", bad is None, loc(parse), bad or "all 256 flag bytes: reboot = bit 7, unicast = bit 6, the other six bits kept in flags_unknown")

    def _frame(self, parse, paths, leaf, oparse, eparse):
        """evaluate the framing part of SOMEIPSDHeader.parse: pick the path that decodes nothing
        (both loops skipped) or raises before the loops, under the valuation"""
        cands = []
        for p in paths:
            if calls_to(p, oparse) or calls_to(p, eparse):
                continue
            if any(e.raised and e.kind == "call" and e.ext in ("struct.unpack", "struct.unpack_from") for e in p.events):
                continue  # whether unpack fails is decided by evaluating the formulas below
            cands.append(p)
        hits = []
        crashed = None
        for p in cands:
            okp = True
            loop_conds = []
            for c, v, node, _ in p.conds:
                if isinstance(node, ast.While):
                    loop_conds.append((c, v))
                    continue
                try:
                    if bool(eval_term(c, leaf)) != v:
                        okp = False
                        break
                except IndexError:
                    crashed = "IndexError"
                    okp = False
                    break
                except _struct.error:
                    crashed = "struct.error"
                    okp = False
                    break
            if okp:
                hits.append((p, loop_conds))
        if not hits and crashed:
            return ("raise", crashed)
        if len(hits) != 1:
            raise AnalysisError(f"{parse.qual}: {len(hits)} framing paths for one buffer")
        p, loop_conds = hits[0]
        if not p.returns():
            return ("raise", p.outcome[1])
        if len(loop_conds) != 2:
            raise AnalysisError(f"{parse.qual}: expected two decoding loops, found {len(loop_conds)}")
        obuf = eval_term(loop_conds[0][0], leaf)
        ebuf = eval_term(loop_conds[1][0], leaf)
        rv = p.retval()
        rest = eval_term(rv[1][1], leaf)
        flds = dict(rv[1][0][2])
        # recover the raw flags byte: reboot/unicast/unknown recombined
        fb = (0x80 if eval_term(flds["flag_reboot"], leaf) else 0) | (0x40 if eval_term(flds["flag_unicast"], leaf) else 0) | eval_term(flds["flags_unknown"], leaf)
        return ("ok", bytes(ebuf), bytes(obuf), bytes(rest), fb)

    # ================================================================== index assignment / resolution
    def resolve_assign(self, rule):
        run, prog = self.run, self.prog
        eng = engine(prog, InlineOnly(names=(), props=True, max_depth=1))
        me = ("self", ENTRY)
        # ---- entry.resolve_options
        ro = self.m(ENTRY, "resolve_options")
        op = P(ro, param_at(ro, 0, "options"))
        rets = [p for p in self.paths(ro, ENTRY, eng=eng) if p.returns()]
        if not rets:
            raise AnalysisError(f"{ro.qual}: no returning path")
        for p in rets:
            rv = p.retval()
            ok = rv[0] == "replace" and rv[1] == me
            d = dict(rv[2]) if ok else {}
            for k in ("1", "2"):
                s = d.get(f"options_{k}")
                good = ok and s is not None and s[0] == "slice" and s[1] == op and s[2] == ("attr", me, f"option_index_{k}") \
                    and s[3] is not None and layout.lin_eq(s[3], ("binop", "+", ("attr", me, f"option_index_{k}"), ("attr", me, f"num_options_{k}")))
                run.ob(rule, f"{ro.qual}:run{k}-slice", bool(good), loc(ro),
                       f"run {k} resolves to {show(s) if s else '?'}" + ("" if good else f"; must be options[index_{k} : index_{k} + count_{k}]"))
            cleared = ok and all(d.get(f) == const(None) for f in ("option_index_1", "option_index_2", "num_options_1", "num_options_2"))
            run.ob(rule, f"{ro.qual}:indexes-cleared", bool(cleared), loc(ro), "resolved entries drop their raw indexes and counts")
        # ---- header.resolve_options
        hro = self.m(SDHDR, "resolve_options")
        hme = ("self", SDHDR)
        for p in [p for p in self.paths(hro, SDHDR, eng=engine(prog, NoInline())) if p.returns()]:
            rv = p.retval()
            ok = rv[0] == "replace" and rv[1] == hme and set(dict(rv[2])) == {"entries"}
            if ok:
                ent = dict(rv[2])["entries"]
                comp = ent[2][0] if ent[0] == "call" and ent[1] == ("ext", "tuple") and ent[2] else ent
                ok = comp[0] == "comp" and len(comp[3]) == 1 and comp[3][0][1] == ("attr", hme, "entries") and not comp[3][0][2] \
                    and comp[2][0] == "call" and comp[2][1] == ("bound", comp[3][0][0], ro.qual) and comp[2][2] == (("attr", hme, "options"),)
            run.ob(rule, f"{hro.qual}:every-entry-against-shared-array", bool(ok), loc(hro),
                   "every entry, in order, is resolved against the message's option array" if ok else f"returns {show(rv)[:140]}")
        # ---- the run-placing function (_assign_option)
        ao = self.place_fn()
        if ao is None:
            self._placement_in_place(rule)
            self._assign_all(rule)
            return
        eo = P(ao, param_at(ao, 0, "entry_options"))
        ho = P(ao, param_at(ao, 1, "hdr_options"))
        find = prog.functions.get("header._find")
        aps = self.paths(ao, None, eng=engine(prog, NoInline()))
        kinds = set()
        for p in aps:
            if not p.returns():
                run.ob(rule, f"{ao.qual}:total", False, loc(ao), f"may raise {p.outcome[1]}")
                continue
            rv = p.retval()
            ntv = self.eng.namedtuple_values(rv) if rv is not None else None
            if ntv is not None:
                self._pair_names = [f.name for f in prog.all_fields(rv[1])][:2]
                rv = ("tuple", tuple(ntv))  # a (index, count) NamedTuple is the pair
            ext = [e for e in p.events if e.kind == "call" and e.attrname in ("extend", "append", "insert") and e.recv == ho]
            empty = any((c == ("unop", "not", eo) or c == eo) and (v == (c[0] == "unop")) for c, v, _, _ in p.conds)
            srch = [e for e in p.events if e.kind == "call" and ((find and any(f.qual == find.qual for f in e.targets)))]
            if empty:
                kinds.add("empty")
                run.ob(rule, f"{ao.qual}:empty-run", rv == ("tuple", (const(0), const(0))) and not ext, loc(ao), f"an empty run gets {show(rv)} (must be (0, 0), nothing appended)")
                continue
            if rv[0] != "tuple" or len(rv[1]) != 2:
                raise AnalysisError(f"{ao.qual}: returns {show(rv)}")
            oi, no = rv[1]
            okn = strip_sites(no) == strip_sites(("call", ("ext", "len"), (eo,), (), None))
            if ext:
                kinds.add("append")
                lens = [e for e in p.events if e.kind == "call" and e.ext == "len" and e.args == (ho,) and e.result == oi]
                ok = okn and len(ext) == 1 and ext[0].attrname == "extend" and ext[0].args == (eo,) and bool(lens) and lens[0].seq < ext[0].seq
                run.ob(rule, f"{ao.qual}:append-run", ok, loc(ao),
                       "a run that is not shared is appended and indexed by the array length taken *before* appending" if ok else
                       f"appending path returns ({show(oi)[:50]}, {show(no)[:30]}) with {len(ext)} mutation(s); the index must be len(shared) evaluated before extend(run)")
            else:
                kinds.add("found")
                ok = okn and len(srch) == 1 and srch[0].args == (ho, eo) and oi == srch[0].result
                run.ob(rule, f"{ao.qual}:shared-run", ok, loc(ao),
                       "a shared run is indexed by the position the search reported" if ok else f"found path returns ({show(oi)[:60]}, {show(no)[:30]})")
        run.ob(rule, f"{ao.qual}:cases", kinds == {"empty", "append", "found"}, loc(ao), f"cases present: {sorted(kinds)} (need empty / found / append)")
        # ---- assign_option_index
        ai = self.m(ENTRY, "assign_option_index")
        lp = P(ai, param_at(ai, 0, "options"))
        pol_ai = InlineOnly(names=(), props=True, max_depth=1)
        pol_ai.opaque = {ao.qual}  # the placing function is analysed on its own above: its call stays a call
        for p in [p for p in self.paths(ai, ENTRY, eng=engine(prog, pol_ai)) if p.returns()]:
            rv = p.retval()
            calls = calls_to(p, ao.qual)
            if not calls:
                run.ob(rule, f"{ai.qual}:already-assigned", rv[0] == "replace" and rv[1] == me and not rv[2], loc(ai),
                       "entries that already carry raw indexes are copied unchanged", nontrivial=False)
                continue
            # typestate: an entry either carries its option runs (resolved) or raw (index, count) pairs with empty runs.
            # Placing the runs of an entry that is in the second state stores (0, 0) for both and the encoded entry decodes
            # without its options: the runs may be read only where the path has established the first state.
            idx_fields = ("option_index_1", "option_index_2", "num_options_1", "num_options_2")

            def says_resolved(c, v):
                if c[0] == "cmp" and c[1] in ("is", "==", "is not", "!=") and c[3] == const(None) and c[2][0] == "attr" and c[2][1] == me \
                        and c[2][2] in idx_fields:
                    return v == (c[1] in ("is", "=="))
                return False
            known = True
            for p2 in self.paths(ai, ENTRY, eng=engine(prog, InlineOnly(names=(), props=True, max_depth=1))):
                # (helpers of the state test analysed in place; the placing function may then be in place as well)
                places = [e for e in p2.events if e.kind == "call" and (any(f.qual == ao.qual for f in e.targets) or getattr(e, "helper", None) is ao)]
                if places and not any(says_resolved(c, v) for c, v, _, _ in p2.conds):
                    known = False
            run.ob(rule, f"{ai.qual}:places-only-resolved-entries", known, loc(ai),
                   "the runs are placed only after the entry was found to be resolved (an index field is None)" if known else
                   "the option runs are placed without establishing that the entry is resolved: an entry that already carries raw "
                   "indexes (empty runs) is re-assigned (0, 0) and is encoded without its options")
            d = dict(rv[2]) if rv[0] == "replace" and rv[1] == me else {}
            ok = len(calls) == 2
            if ok:
                by_run = {}
                for c in calls:
                    if c.args[1:2] != (lp,):
                        ok = False
                    for k in ("1", "2"):
                        a0 = c.args[0] if c.args else None
                        while a0 is not None and a0[0] == "call" and a0[1][0] == "ext" and a0[1][1] in ("tuple", "list") and len(a0[2]) == 1:
                            a0 = a0[2][0]  # tuple(self.options_k): the same run
                        if a0 == ("attr", me, f"options_{k}"):
                            by_run[k] = c
                ok = ok and set(by_run) == {"1", "2"}
                if ok:
                    names = getattr(self, "_pair_names", None) or [None, None]
                    for k, c in by_run.items():
                        ok = ok and d.get(f"option_index_{k}") in (("item", c.result, const(0)), ("attr", c.result, names[0])) \
                            and d.get(f"num_options_{k}") in (("item", c.result, const(1)), ("attr", c.result, names[1]))
                    ok = ok and d.get("options_1") == ("tuple", ()) and d.get("options_2") == ("tuple", ())
            run.ob(rule, f"{ai.qual}:pairs-stored", bool(ok), loc(ai),
                   "(index, count) of run k come from placing options_k in the shared array and are stored in the fields the resolver reads" if ok else
                   f"assign_option_index returns {show(rv)[:160]}")
        self._assign_all(rule)

    def _placement_in_place(self, rule):
        """the placement of the two runs written out in assign_option_index (no placing function): the same obligations, read
        from the events of its own paths - per run k: empty -> (0, 0) and nothing appended; found -> the search result for
        (shared, options_k), nothing appended; otherwise options_k is appended with extend() and indexed by len(shared)
        evaluated before that extend (and after the extend of an earlier run)"""
        run, prog = self.run, self.prog
        me = ("self", ENTRY)
        ai = self.m(ENTRY, "assign_option_index")
        lp = P(ai, param_at(ai, 0, "options"))
        eng = engine(prog, InlineOnly(names=(), props=True, max_depth=1, unroll=2))
        idx_fields = ("option_index_1", "option_index_2", "num_options_1", "num_options_2")

        def unwrap(tm):
            while tm is not None and tm[0] == "call" and tm[1][0] == "ext" and tm[1][1] in ("tuple", "list") and len(tm[2]) == 1:
                tm = tm[2][0]
            return tm
        kinds = set()
        probs = {}
        searchers = set()
        n_paths = 0
        for p in self.paths(ai, ENTRY, eng=eng):
            if not p.returns():
                probs.setdefault("total", f"may raise {p.outcome[1]}")
                continue
            rv = p.retval()
            d = dict(rv[2]) if rv[0] == "replace" and rv[1] == me else {}
            if not d:
                continue  # copied unchanged (already assigned)
            n_paths += 1
            resolved = any(c[0] == "cmp" and c[1] in ("is", "==", "is not", "!=") and c[3] == const(None) and c[2][0] == "attr" and c[2][1] == me
                           and c[2][2] in idx_fields and v == (c[1] in ("is", "==")) for c, v, _, _ in p.conds)
            if not resolved:
                probs.setdefault("places-only-resolved-entries", "the option runs are placed without establishing that the entry is resolved")
            if d.get("options_1") != ("tuple", ()) or d.get("options_2") != ("tuple", ()):
                probs.setdefault("pairs-stored", "the assigned entry keeps resolved option runs")
            pos = {id(e): i for i, e in enumerate(p.events)}
            exts = [e for e in p.events if e.kind == "call" and e.attrname in ("extend", "append", "insert") and e.recv == lp]
            for k in ("1", "2"):
                runk = ("attr", me, f"options_{k}")
                oi, no = d.get(f"option_index_{k}"), d.get(f"num_options_{k}")
                empty = [v for c, v, _, _ in p.conds if unwrap(c) == runk or (c[0] == "unop" and c[1] == "not" and unwrap(c[2]) == runk)]
                is_empty = any((v is False) if (unwrap(c) == runk) else (v is True) for c, v, _, _ in p.conds
                               if unwrap(c) == runk or (c[0] == "unop" and c[1] == "not" and unwrap(c[2]) == runk))
                my_ext = [e for e in exts if e.args and unwrap(e.args[0]) == runk]
                finds = [e for e in p.events if e.kind == "call" and e.targets and len(e.args) >= 2 and e.args[0] == lp and unwrap(e.args[1]) == runk]
                for f_ in finds:
                    searchers.add(f_.targets[0].qual)
                if is_empty:
                    kinds.add("empty")
                    if not (oi == const(0) and no == const(0) and not my_ext):
                        probs.setdefault("empty-run", f"an empty run {k} gets ({show(oi)[:30]}, {show(no)[:30]}) / is appended")
                    continue
                okn = no is not None and no[0] == "call" and no[1] == ("ext", "len") and len(no[2]) == 1 and unwrap(no[2][0]) == runk
                if my_ext:
                    kinds.add("append")
                    e_ = my_ext[0]
                    lens = [x for x in p.events if x.kind == "call" and x.ext == "len" and x.args == (lp,) and x.result == oi]
                    ok = okn and len(my_ext) == 1 and e_.attrname == "extend" and bool(lens) and pos[id(lens[0])] < pos[id(e_)] \
                        and not any(pos[id(lens[0])] < pos[id(x)] < pos[id(e_)] for x in exts if x is not e_)
                    if not ok:
                        probs.setdefault("append-run", f"run {k} is appended but indexed by {show(oi)[:50]} with count {show(no)[:30]}; "
                                         "the index must be len(shared) evaluated just before extend(run)")
                else:
                    kinds.add("found")
                    ok = okn and len(finds) == 1 and oi == finds[0].result
                    if not ok:
                        probs.setdefault("shared-run", f"run {k} is not appended but indexed by {show(oi)[:60]}: must be the position the search reported")
        for key in ("total", "empty-run", "append-run", "shared-run", "pairs-stored", "places-only-resolved-entries"):
            run.ob(rule, f"{ai.qual}:{key}", key not in probs, loc(ai), probs.get(key, f"{key}: holds on all {n_paths} assigning path(s) (placement written out in place)"))
        run.ob(rule, f"{ai.qual}:cases", kinds == {"empty", "append", "found"}, loc(ai), f"cases present: {sorted(kinds)} (need empty / found / append)")
        self._searchers = searchers

    def _assign_all(self, rule):
        run, prog = self.run, self.prog
        hme = ("self", SDHDR)
        ai = self.m(ENTRY, "assign_option_index")
        # ---- header.assign_option_indexes
        ha = self.m(SDHDR, "assign_option_indexes")
        for p in [p for p in self.paths(ha, SDHDR, eng=engine(prog, NoInline())) if p.returns()]:
            rv = p.retval()
            d = dict(rv[2]) if rv[0] == "replace" and rv[1] == hme else {}
            ent = d.get("entries")
            opt = d.get("options")
            ok = ent is not None and opt is not None
            if ok:
                comp = ent[2][0] if ent[0] == "call" and ent[1] == ("ext", "tuple") and ent[2] else ent
                ok = comp[0] == "comp" and len(comp[3]) == 1 and comp[3][0][1] == ("attr", hme, "entries") and not comp[3][0][2] \
                    and comp[2][0] == "call" and comp[2][1] == ("bound", comp[3][0][0], ai.qual) and len(comp[2][2]) == 1
                if ok:
                    shared = comp[2][2][0]
                    # the shared list starts from the message's own options and is read back after all entries
                    okl = shared[0] == "call" and shared[1] == ("ext", "list") and shared[2] == (("attr", hme, "options"),)
                    fin = [e for e in p.events if e.kind == "call" and e.ext == "tuple" and e.args == (shared,)]
                    comp_events = [e for e in p.events if e.in_comp]
                    ok = okl and opt[0] == "call" and opt[1] == ("ext", "tuple") and opt[2] == (shared,) and bool(fin) \
                        and (not comp_events or fin[-1].seq > max(e.seq for e in comp_events))
            run.ob(rule, f"{ha.qual}:shared-array-collected", bool(ok), loc(ha),
                   "entries are placed in order into one list that starts with the message's own options and becomes the option array afterwards" if ok
                   else f"returns {show(rv)[:160]}")

    # ================================================================== search certificate
    def find_certificate(self, rule):
        run, prog = self.run, self.prog
        fi = prog.functions.get("header._find")
        ao = self.place_fn()
        # which function does _assign_option search with?
        eng0 = engine(prog, NoInline())
        targets = set()
        if ao is None:
            targets = set(getattr(self, "_searchers", None) or ())
            if not targets:
                # not analysed yet in this run: find the call (shared, options_k) directly
                ai_ = self.m(ENTRY, "assign_option_index")
                lp_ = P(ai_, param_at(ai_, 0, "options"))
                for p in engine(prog, InlineOnly(names=(), props=True, max_depth=1)).paths(ai_, recv=ENTRY):
                    for e in p.events:
                        if e.kind == "call" and e.targets and len(e.args) >= 2 and e.args[0] == lp_:
                            targets.add(e.targets[0].qual)
        else:
            for p in eng0.paths(ao):
                for e in p.events:
                    if e.kind == "call" and e.targets and e.args[:2] == (P(ao, param_at(ao, 1, "hdr")), P(ao, param_at(ao, 0, "run"))):
                        targets.add(e.targets[0].qual)
        if len(targets) != 1:
            raise AnalysisError(f"{(ao or self.m(ENTRY, 'assign_option_index')).qual}: cannot identify the search helper ({sorted(targets)})")
        fi = prog.func(targets.pop())
        run.analysed(fi)
        hay = P(fi, param_at(fi, 0, "haystack"))
        ndl = P(fi, param_at(fi, 1, "needle"))
        eng = engine(prog, InlineOnly(names=(), props=False, max_depth=0, unroll=2))
        paths = eng.paths(fi)
        run.paths += len(paths)
        n_t = ("call", ("ext", "len"), (ndl,), ())
        checked = 0
        problems = []
        for p in paths:
            if p.outcome[0] == "cut":
                continue  # scan loop cut by the unrolling bound: no value returned on this prefix
            if not p.returns():
                problems.append(f"search may raise {p.outcome[1]}")
                continue
            rv = p.retval()
            if rv == const(None) or (is_const(rv) and rv[1] == -1):
                continue
            # equalities established after the last mismatch on this path
            eqs = []
            for c, v, node, _ in p.conds:
                cc, vv = c, v
                if cc[0] == "unop" and cc[1] == "not":
                    cc, vv = cc[2], not vv
                if cc[0] == "cmp" and cc[1] in ("!=", "==") and {cc[2][0], cc[3][0]} <= {"item", "slice"}:
                    equal = (cc[1] == "==") == vv
                    sides = [cc[2], cc[3]]
                    hs = [s for s in sides if s[1] == hay]
                    ns = [s for s in sides if s[1] == ndl]
                    if len(hs) == 1 and len(ns) == 1:
                        if equal:
                            eqs.append((hs[0], ns[0]))
                        else:
                            eqs = []
                elif cc[0] == "cmp" and cc[1] in ("!=", "==") and cc[2][0] == "slice" and cc[2][1] == hay and cc[3] == ndl:
                    if (cc[1] == "==") == vv:
                        eqs.append((cc[2], ("slice", ndl, None, None)))
                    else:
                        eqs = []
                elif cc[0] == "call" and cc[1] in (("ext", "all"), ("ext", "any")) and len(cc[2]) == 1 and cc[2][0][0] == "comp" \
                        and cc[2][0][2][0] == "cmp" and cc[2][0][2][1] in ("==", "!=") and {cc[2][0][2][2][0], cc[2][0][2][3][0]} <= {"item"} \
                        and len(cc[2][0][3]) == 1 and not cc[2][0][3][0][2]:
                    # all(h[f(j)] == n[g(j)] for j in range(..)) / not any(h[f(j)] != n[g(j)] for j in range(..)): the element-wise
                    # comparison loop written as a reduction; same obligations as the explicit loop
                    el = cc[2][0][2]
                    sides = [el[2], el[3]]
                    hs = [x for x in sides if x[1] == hay]
                    ns = [x for x in sides if x[1] == ndl]
                    all_equal = (cc[1][1] == "all" and el[1] == "==" and vv) or (cc[1][1] == "any" and el[1] == "!=" and not vv)
                    if len(hs) == 1 and len(ns) == 1:
                        if all_equal:
                            eqs.append((hs[0], ns[0]))
                        else:
                            eqs = []
                elif cc[0] == "call" and cc[1] == ("ext", "all") and len(cc[2]) == 1 and cc[2][0][0] == "comp" and vv:
                    # all(a == b for a, b in zip(haystack[i:...], needle)): zip stops at the shorter operand, so the
                    # comparison covers the whole run only if at least len(needle) elements remain after i
                    comp = cc[2][0]
                    gens = comp[3]
                    z = gens[0][1] if len(gens) == 1 else None
                    if z is not None and z[0] == "call" and z[1] == ("ext", "zip") and len(z[2]) == 2:
                        hs_, ns_ = z[2]
                        if ns_ == hay or (ns_[0] == "slice" and ns_[1] == hay):
                            hs_, ns_ = ns_, hs_
                        if hs_[0] == "slice" and hs_[1] == hay and ns_ == ndl and hs_[2] is not None:
                            start = layout.linear(strip_sites(hs_[2]))
                            if start != layout.linear(strip_sites(rv)):
                                problems.append(f"zip comparison starts at {show(hs_[2])[:30]} but {show(rv)[:30]} is returned")
                            # elements available: len(haystack) - i >= len(needle)?  i is a loop variable over range(E)
                            enough = False
                            if hs_[3] is not None:
                                enough = False  # bounded slice still may be short
                            for el in [x for x in subterms(hs_[2]) if x[0] == "elem"]:
                                it = strip_sites(el[1])
                                if it[0] == "call" and it[1] == ("ext", "range") and len(it[2]) == 1:
                                    bound = layout.linear(it[2][0])
                                    lh = strip_sites(("call", ("ext", "len"), (hay,), (), None))
                                    ln_ = strip_sites(n_t)
                                    # i <= bound-1 ; need len(h) - i >= len(n)  <=  len(h) - (bound-1) >= len(n)
                                    if bound is not None and bound[0].get(lh, 0) == 1 and bound[0].get(ln_, 0) == -1 and bound[1] <= 1 and len(bound[0]) == 2:
                                        enough = True
                            zipeq = True
                            checked += 1
                            if not enough:
                                problems.append("the run is compared with zip(haystack[i:], needle), which stops at the end of the shared array: a run whose "
                                                "head matches the array's tail is reported as found although it does not fit (partial overlap)")
                            eqs.append(("zip", None))
            if not eqs:
                # no comparison executed: only possible when the comparison loop ran zero times,
                # i.e. for an empty run (every index is an occurrence of the empty sequence)
                continue
            if all(h == "zip" for h, _ in eqs):
                continue
            checked += 1
            R = layout.linear(strip_sites(rv))
            for hs, ns in eqs:
                if hs == "zip":
                    continue
                if hs[0] == "slice":
                    lo = layout.linear(strip_sites(hs[2])) if hs[2] is not None else ({}, 0)
                    hi = layout.linear(strip_sites(hs[3])) if hs[3] is not None else None
                    n_lin = layout.linear(strip_sites(("binop", "+", hs[2] or const(0), n_t)))
                    if lo != R or hi != n_lin:
                        problems.append(f"slice {show(hs)[:60]} compared with the run, but {show(rv)[:40]} is returned")
                    continue
                A = layout.linear(strip_sites(hs[2]))
                B = layout.linear(strip_sites(ns[2]))
                if A is None or B is None or R is None:
                    problems.append("index expressions are not linear")
                    continue
                # a negative needle index -k-1 means n-1-k
                if B[1] < 0:
                    B = (dict(B[0]), B[1])
                    B[0][strip_sites(n_t)] = B[0].get(strip_sites(n_t), 0) + 1
                    B = ({k: v for k, v in B[0].items() if v}, B[1])
                diff = {k: A[0].get(k, 0) - R[0].get(k, 0) for k in set(A[0]) | set(R[0])}
                diff = ({k: v for k, v in diff.items() if v}, A[1] - R[1])
                if diff != B:
                    problems.append(f"matched haystack[{show(hs[2])[:40]}] against needle[{show(ns[2])[:30]}] but returns {show(rv)[:40]}: offsets disagree")
            # the comparison loop must cover range(len(needle)): the loop variable is the elem atom of
            # the needle index
            for hs, ns in eqs:
                if hs == "zip" or ns is None or ns[0] != "item":
                    continue
                B0 = layout.linear(ns[2])
                loopvars = [a for a in (B0[0] if B0 else {}) if a[0] == "elem"]
                if len(loopvars) != 1 or abs(B0[0][loopvars[0]]) != 1:
                    problems.append(f"needle index {show(ns[2])[:40]} is not +-(loop variable) + constant")
                    continue
                it = strip_sites(loopvars[0][1])
                if not (it[0] == "call" and it[1] == ("ext", "range") and it[2] == (strip_sites(n_t),)):
                    problems.append(f"comparison loop runs over {show(it)[:50]}, not over every element of the run")
                # start of the bijection: k=0 maps to needle[0] or needle[n-1]
                c0 = B0[1]
                if not ((B0[0][loopvars[0]] == 1 and c0 == 0) or (B0[0][loopvars[0]] == -1 and c0 == -1)
                        or (B0[0][loopvars[0]] == -1 and c0 == -1 + 0 and True)):
                    lin_n = strip_sites(n_t)
                    if not (B0[0][loopvars[0]] == -1 and B0[0].get(lin_n, 0) == 1 and c0 == -1):
                        problems.append(f"needle index {show(ns[2])[:40]} does not enumerate the run's positions exactly once")
        self._search_advances(rule, fi)
        if not problems and checked == 0:
            raise AnalysisError(f"{fi.qual}: the search helper has a shape the occurrence certificate does not recognise")
        run.ob(rule, f"{fi.qual}:reported-index-is-an-occurrence", not problems and checked > 0, loc(fi),
               "; ".join(dict.fromkeys(problems)) or
               f"every returned index r satisfies haystack[r+k] == needle[k] for all k (checked on {checked} returning path shapes as a linear identity)")
        return fi

    def _search_advances(self, rule, fi):
        """encoding must terminate: every `while` loop of the search helper moves its index forward by at least one
        position per iteration.  Recognised steps: a positive literal, or `table.get(key, default)` with a default bound to
        a length and a table built by `{key: V for i in range(R)}` whose smallest value (V is linear in i) is >= 1."""
        import ast as _ast
        run = self.run
        fn = fi.node

        def lin(node, env):
            """node -> ({name: coeff}, const) or None"""
            if isinstance(node, _ast.Constant) and isinstance(node.value, int):
                return ({}, node.value)
            if isinstance(node, _ast.Name):
                if node.id in env:
                    return env[node.id]
                return ({node.id: 1}, 0)
            if isinstance(node, _ast.UnaryOp) and isinstance(node.op, _ast.USub):
                a = lin(node.operand, env)
                return None if a is None else ({k: -v for k, v in a[0].items()}, -a[1])
            if isinstance(node, _ast.BinOp) and isinstance(node.op, (_ast.Add, _ast.Sub)):
                a, b = lin(node.left, env), lin(node.right, env)
                if a is None or b is None:
                    return None
                sgn = 1 if isinstance(node.op, _ast.Add) else -1
                d = dict(a[0])
                for k, v in b[0].items():
                    d[k] = d.get(k, 0) + sgn * v
                return ({k: v for k, v in d.items() if v}, a[1] + sgn * b[1])
            return None

        lengths = set()   # names bound to len(..)
        len_of = {}       # sequence name -> the name holding its length
        tables = {}       # name -> DictComp
        for st in _ast.walk(fn):
            if isinstance(st, _ast.Assign) and len(st.targets) == 1 and isinstance(st.targets[0], _ast.Name):
                if isinstance(st.value, _ast.Call) and isinstance(st.value.func, _ast.Name) and st.value.func.id == "len":
                    lengths.add(st.targets[0].id)
                    if len(st.value.args) == 1 and isinstance(st.value.args[0], _ast.Name):
                        len_of[st.value.args[0].id] = st.targets[0].id
                if isinstance(st.value, _ast.DictComp):
                    tables[st.targets[0].id] = st.value
        n_loops = 0
        for loop in [x for x in _ast.walk(fn) if isinstance(x, _ast.While)]:
            n_loops += 1
            idx = loop.test.left.id if isinstance(loop.test, _ast.Compare) and isinstance(loop.test.left, _ast.Name) else None
            steps = [x for x in _ast.walk(loop) if isinstance(x, _ast.AugAssign) and isinstance(x.op, _ast.Add) and isinstance(x.target, _ast.Name) and x.target.id == idx]
            if idx is None or not steps:
                raise AnalysisError(f"{fi.qual}: a while loop of the search helper has no recognisable index step")
            why = None
            for stp in steps:
                v = stp.value
                if isinstance(v, _ast.Constant) and isinstance(v.value, int):
                    if v.value < 1:
                        why = f"`{idx} += {v.value}` does not advance"
                    continue
                if isinstance(v, _ast.Call) and isinstance(v.func, _ast.Attribute) and v.func.attr == "get" and isinstance(v.func.value, _ast.Name) \
                        and v.func.value.id in tables and len(v.args) == 2:
                    dflt = v.args[1]
                    if not ((isinstance(dflt, _ast.Name) and dflt.id in lengths) or (isinstance(dflt, _ast.Constant) and isinstance(dflt.value, int) and dflt.value >= 1)):
                        why = f"the default step {_ast.unparse(dflt)} is not known to be >= 1"
                        continue
                    dc = tables[v.func.value.id]
                    g = dc.generators[0]
                    ivar, R = None, None
                    if len(dc.generators) == 1 and not g.ifs and isinstance(g.iter, _ast.Call) and isinstance(g.iter.func, _ast.Name):
                        if g.iter.func.id == "range" and len(g.iter.args) == 1 and isinstance(g.target, _ast.Name):
                            ivar, R = g.target.id, lin(g.iter.args[0], {})
                        elif g.iter.func.id == "enumerate" and len(g.iter.args) == 1 and isinstance(g.target, _ast.Tuple) \
                                and len(g.target.elts) == 2 and isinstance(g.target.elts[0], _ast.Name):
                            # for pos, elem in enumerate(seq) / enumerate(seq[:-k]): pos ranges over the length of the operand
                            sq = g.iter.args[0]
                            cut = 0
                            if isinstance(sq, _ast.Subscript) and isinstance(sq.slice, _ast.Slice) and sq.slice.lower is None and sq.slice.step is None \
                                    and isinstance(sq.slice.upper, _ast.UnaryOp) and isinstance(sq.slice.upper.op, _ast.USub) \
                                    and isinstance(sq.slice.upper.operand, _ast.Constant) and isinstance(sq.slice.upper.operand.value, int):
                                cut = sq.slice.upper.operand.value
                                sq = sq.value
                            if isinstance(sq, _ast.Name) and sq.id in len_of:
                                ivar, R = g.target.elts[0].id, ({len_of[sq.id]: 1}, -cut)
                        elif g.iter.func.id == "zip" and g.iter.args and isinstance(g.target, _ast.Tuple) and len(g.target.elts) == len(g.iter.args):
                            # for pos, elem in zip(range(E), seq): pos stays within range(E) (zip ends with its shortest operand)
                            for t_, a_ in zip(g.target.elts, g.iter.args):
                                if isinstance(t_, _ast.Name) and isinstance(a_, _ast.Call) and isinstance(a_.func, _ast.Name) and a_.func.id == "range" \
                                        and len(a_.args) == 1:
                                    ivar, R = t_.id, lin(a_.args[0], {})
                                    break
                    if ivar is None:
                        raise AnalysisError(f"{fi.qual}: skip table of an unrecognised shape")
                    V = lin(dc.value, {})
                    if R is None or V is None:
                        raise AnalysisError(f"{fi.qual}: skip table values are not linear")
                    ci = V[0].get(ivar, 0)
                    # smallest value of V over i in [0, R-1]
                    at = ({}, 0) if ci >= 0 else ({k: v_ for k, v_ in R[0].items()}, R[1] - 1)
                    mn = dict(V[0])
                    mn.pop(ivar, None)
                    for k, v_ in at[0].items():
                        mn[k] = mn.get(k, 0) + ci * v_
                    mn = ({k: v_ for k, v_ in mn.items() if v_}, V[1] + ci * at[1])
                    ok_min = (not mn[0] and mn[1] >= 1) or (all(k in lengths and v_ > 0 for k, v_ in mn[0].items()) and mn[1] >= 1)
                    if not ok_min:
                        why = f"the smallest step in the skip table is {' + '.join([f'{v_}*{k}' for k, v_ in mn[0].items()] + [str(mn[1])])} (must be >= 1): the search loop stops advancing"
                    continue
                raise AnalysisError(f"{fi.qual}: index step {_ast.unparse(v)[:50]} of an unrecognised shape")
            run.ob(rule, f"{fi.qual}:search-loop-advances", why is None, loc(fi, loop),
                   "every iteration of the search loop moves the index forward by at least one position" if why is None else
                   why + " - encoding a message whose option runs hit that case never returns")
        if n_loops == 0:
            run.ob(rule, f"{fi.qual}:search-loop-advances", True, loc(fi), "the search helper has no while loop (bounded for-loops only)", nontrivial=False)

    # ================================================================== pipeline
    def pipeline(self, rule):
        run, prog = self.run, self.prog
        PROTO = "sd.ServiceDiscoveryProtocol"
        eng = engine(prog, NoInline())
        send_sd = self.m(PROTO, "send_sd")
        ent = P(send_sd, param_at(send_sd, 0, "entries"))
        ha = self.m(SDHDR, "assign_option_indexes").qual
        hb = self.m(SDHDR, "build").qual
        raw = self.m(PROTO, "send").qual
        ok_any = False
        for p in self.paths(send_sd, PROTO, eng=eng):
            sends = calls_to(p, raw)
            if not sends:
                continue
            ok_any = True
            bufarg = sends[0].arg(0, "buf")
            hdrs = [t_ for t_ in subterms(bufarg) if t_[0] == "new" and t_[1] == "header.SOMEIPHeader"]
            ok = len(hdrs) == 1
            why = "no SOME/IP header around the SD payload"
            if ok:
                pay = dict(hdrs[0][2]).get("payload")
                # payload = <SOMEIPSDHeader(entries=tuple(entries))>.assign_option_indexes().build()
                ok = pay is not None and pay[0] == "call" and pay[1][0] == "bound" and pay[1][2] == hb
                why = f"payload is {show(pay)[:100]}"
                if ok:
                    inner = pay[1][1]
                    ok = inner[0] == "call" and inner[1][0] == "bound" and inner[1][2] == ha and inner[1][1][0] == "new" and inner[1][1][1] == SDHDR
                    if ok:
                        e_ = dict(inner[1][1][2]).get("entries")
                        ok = e_ in (ent, ("call", ("ext", "tuple"), (ent,), ())) or strip_sites(e_) == strip_sites(("call", ("ext", "tuple"), (ent,), (), None))
                        why = f"entries sent are {show(e_)[:80]}"
            run.ob(rule, f"{send_sd.qual}:assign-then-build", bool(ok), loc(send_sd),
                   "send_sd transmits SOMEIPSDHeader(entries).assign_option_indexes().build() with the caller's entries in order" if ok else why)
        if not ok_any:
            raise AnalysisError(f"{send_sd.qual}: no transmitting path")
        mr = self.m(PROTO, "message_received")
        hp = self.m(SDHDR, "parse").qual
        hr = self.m(SDHDR, "resolve_options").qual
        smr = self.m(PROTO, "sd_message_received").qual
        msg = P(mr, param_at(mr, 0, "someip_message"))
        seen = False
        for p in self.paths(mr, PROTO, eng=eng):
            d = calls_to(p, smr)
            if not d:
                continue
            seen = True
            a = d[0].args[0] if d[0].args else None
            ok = a is not None and a[0] == "call" and a[1][0] == "bound" and a[1][2] == hr
            if ok:
                src = a[1][1]
                ok = src[0] == "item" and src[2] == const(0) and src[1][0] == "call" and src[1][1][0] == "bound" and src[1][1][2] == hp \
                    and src[1][2] == (("attr", msg, "payload"),)
            run.ob(rule, f"{mr.qual}:parse-then-resolve", bool(ok), loc(mr),
                   "received payload is decoded by SOMEIPSDHeader.parse and its options resolved before dispatch" if ok else f"dispatches {show(a)[:120]}")
        if not seen:
            raise AnalysisError(f"{mr.qual}: no dispatching path")


# ====================================================================== range closure (C20-D2)
def _bits_of_reader(d, widths) -> int:
    """upper bound (in bits) of the values a reader descriptor can produce"""
    if d[0] == "pos":
        return widths[d[1]] * 8
    if d[0] in ("enumconv", "conv", "bool"):
        return _bits_of_reader(d[-1], widths)
    if d[0] == "shr":
        return max(0, _bits_of_reader(d[1], widths) - d[2])
    if d[0] == "mask":
        return min(_bits_of_reader(d[1], widths), int(d[2]).bit_length())
    if d[0] == "bits":
        return max(_bits_of_reader(p, widths) + sh for p, sh in d[1])
    if d[0] == "const":
        return int(d[1]).bit_length()
    raise AnalysisError(f"range of reader descriptor {d} not modelled")


def _capacity_of_writer(d, width_bits, field) -> t.Optional[int]:
    """how many bits of `field` the writer expression `d` (packed into width_bits) can take without
    raising or corrupting a neighbour; None when the field does not occur in d"""
    if d == ("field", field) or d == ("enum", field) or d == ("packed", field):
        return width_bits
    if d[0] == "shr" and d[1] == ("field", field):
        return width_bits + d[2]
    if d[0] == "mask" and d[1] == ("field", field):
        return 10 ** 6  # the masked low part never raises; the complementary high part bounds the field
    if d[0] == "bits":
        parts = list(d[1])  # sorted by decreasing shift
        for i, (pd, sh) in enumerate(parts):
            if pd == ("field", field):
                upper = parts[i - 1][1] if i > 0 else width_bits
                return upper - sh
    return None


def range_closure(sd: "SD", rule: str):
    """every value a decoder can produce for a field fits where the encoder puts that field"""
    run, eng = sd.run, sd.eng
    build = sd.m(ENTRY, "build")
    widths = [w for w, _ in ENTRY_W]
    p = [p for p in sd.paths(build, ENTRY) if p.returns()][0]
    segs = layout.segments(eng, p.retval())
    wargs = [layout.w_descr(a, ("self", ENTRY)) for a in segs[0][2]]
    parse, unp = sd.entry_reader.__func__(sd, rule + "-tables") if False else (sd.m(ENTRY, "parse"), None)
    rets = [q for q in sd.paths(parse, ENTRY) if q.returns()]
    rv = rets[0].retval()
    us = layout.find_unpacks(eng, rv[1][0])
    isit = layout.item_pos(us[0])
    rf, _ = layout.unpack_call(eng, us[0])
    rwidths = [w for _, w in rf.items]
    decoded_bits = {}
    for f, tm in dict(rv[1][0][2]).items():
        try:
            bits = _bits_of_reader(layout.r_descr(tm, isit), rwidths)
            decoded_bits[f] = bits
        except AnalysisError:
            run.ob(rule, f"{ENTRY}:{f}-range", False, loc(parse), f"decoded {f} = {show(tm)[:80]}: value range not derivable")
            continue
        caps = [c for c in (_capacity_of_writer(d, widths[i] * 8, f) for i, d in enumerate(wargs) if i < len(widths)) if c is not None]
        cap = min(caps) if caps else None
        ok = cap is not None and bits <= cap
        run.ob(rule, f"{ENTRY}:{f}-range", ok, loc(build),
               f"decoder yields up to {bits} bits for {f}; encoder accepts {cap if cap is not None else 'nothing (field not emitted)'} bits there")
    # ... and the encoder's own refusals (explicit raise statements of build()) do not hit a decoded entry: every raising
    # path's condition is evaluated over the box of decoded field ranges (corner and boundary points; the conditions are
    # linear comparisons of the fields with constants) - a satisfiable one is an accepted input that cannot be encoded again
    from ..absint import constants_compared, order_points
    import itertools as _it
    me = ("self", ENTRY)
    et = enum_members(sd.prog, "header.SOMEIPSDEntryType")
    raising = [q for q in sd.paths(build, ENTRY) if q.outcome[0] == "raise" and not any(e.raised is not None for e in q.events if e.kind == "call" and e.ext in ("struct.pack",))]
    hit = None
    n_eval = 0
    for q in raising:
        conds = [c for c, _, _, _ in q.conds]
        used = sorted({x[2] for c in conds for x in subterms(c) if x[0] == "attr" and x[1] == me})
        ints = [f for f in used if f in decoded_bits and f != "sd_type"]
        other = [f for f in used if f not in ints]
        if any(f not in ("sd_type", "options_1", "options_2") for f in other):
            continue  # depends on something the decoder does not produce from bytes
        consts = constants_compared(conds, lambda tm: True)
        doms = [order_points(0, (1 << decoded_bits[f]) - 1, consts)[:12] + [(1 << decoded_bits[f]) - 1] for f in ints]
        types = list(et.values()) if "sd_type" in other else [None]
        for ty in types:
            for combo in _it.product(*doms) if doms else [()]:
                vals = dict(zip(ints, combo))
                n_eval += 1

                def leaf(tm, vals=vals, ty=ty):
                    if tm[0] == "attr" and tm[1] == me:
                        if tm[2] in vals:
                            return vals[tm[2]]
                        if tm[2] == "sd_type":
                            return ty
                        if tm[2] in ("options_1", "options_2"):
                            return ()
                    raise AnalysisError("other")
                try:
                    if all(bool(eval_term(c, leaf)) == v for c, v, _, _ in q.conds):
                        hit = hit or (q, dict(vals))
                except (AnalysisError, TypeError, ValueError):
                    continue
    run.abstract_cases += n_eval
    run.ob(rule, f"{build.qual}:refuses-no-decoded-entry", hit is None, loc(build),
           f"none of the {len(raising)} refusing path(s) of build() is reachable with field values the decoder produces ({n_eval} points)" if hit is None else
           f"build() raises {hit[0].outcome[1]} for an entry the decoder accepts, e.g. {hit[1]}: a decoded message cannot be encoded again")


def codec_keeps(run, prog, tier, rule, picks, what):
    """supporting obligations taken from C02's codec rules: what send_sd hands to SOMEIPSDHeader(..).assign_option_indexes()
    .build() - and what parse() / resolve_options() hand to the receive path - is the same header: same flags, same
    entries in the same order"""
    from .. import report
    from . import C02
    sub = report.subrun(C02, "C02", prog, tier, run.seed)
    n = 0
    for o in sub.obs:
        if o.rule != "OM" and any(k in o.construct for k in picks):
            n += 1
            run.ob(rule, o.construct, o.ok, o.loc, o.msg + ("" if o.ok else f" [{what}]"), o.detail, o.nontrivial)
    run.floor(rule, n, len(picks))
    run.paths += sub.paths
