"""C03 - malformed or foreign input is rejected cleanly and changes nothing.

E1  exception-escape analysis: every decoder lets only ParseError (incl. IncompleteReadError) out, plus
    UnicodeDecodeError solely from the configuration option's text; the receive paths of the discovery
    endpoint and of the service endpoint (and their deferred continuations) let nothing out
T1  termination: every `while` loop of a decoder / receive path strictly consumes its buffer per iteration
G1  guard-dominates-effects: a message that is not a decodable SD notification reaches no state change,
    notification, scheduling or transmission; entries of a message without the unicast flag are ignored;
    multicast Subscribes and multicast service requests are dropped
"""
from __future__ import annotations

import ast
import itertools

from .. import report
from ..absint import eval_term
from ..facts import AnalysisError
from ..raises import Escapes, EscapePolicy
from ..sym import Engine, enum_members
from ..terms import const, contains, is_const, show, strip_sites, subterms
from ..util import InlineOnly, NoInline, P, Scan, calls_to, engine, field_of, loc, param_at, sched_targets

PROTO = "sd.ServiceDiscoveryProtocol"
BASE = "sd.SOMEIPDatagramProtocol"
SVC = "service.SimpleService"
PARSE_ERR = "header.ParseError"
CONFIG_PO = "header.SOMEIPSDConfigOption.parse_option"
NOT_BYTE_DEPENDENT = ("sd.format_address", f"{PROTO}.send_sd", f"{BASE}.send")


def _mk_escapes(prog, exclude=()):
    return Escapes(prog, inline_names=("header._unpack",),
                   inline_pred=lambda f: f.kind == "property" or f.name in ("_parse_header",), exclude=exclude)


def check(run, prog, tier):
    from . import model as _model
    _model.audit(run, prog, 'C03')
    run.explanation = (
        "Interprocedural may-raise analysis: explicit raises, a frozen table of library operations (struct "
        "unpack, bytes indexing, enum conversion, .decode, dict/list lookups) and callee summaries, filtered by "
        "the except clauses on the way up.  A library operation does not raise when the path's length facts "
        "(linear lower bounds on len(buffer) derived from the guards and slices) exclude its failure - that is "
        "how 'unpack after the length guard' is told from 'unpack before it' for every input length.  Guards of "
        "message_received are decided on all 32 combinations of the five header fields; termination is a "
        "strict-consumption rule on every while loop of the decoders."
    )
    run.trusted += ["struct.unpack raises only when the buffer length differs from the format size",
                    "exceptions raised by user supplied listeners / method handlers are attributed to the user",
                    "format_address() and the encoder side (send_sd/send) depend on local configuration and the OS-supplied sender address, not on received bytes"]
    et = enum_members(prog, "header.SOMEIPSDEntryType")

    # ================================================================== E1 decoders
    es = _mk_escapes(prog)
    decoders = [("header.SOMEIPHeader", "parse"), ("header.SOMEIPSDEntry", "parse"), ("header.SOMEIPSDOption", "parse"), ("header.SOMEIPSDHeader", "parse")]
    for q, ci in sorted(prog.classes.items()):
        if any(d.split(".")[-1] == "register" for d in ci.decorators):
            decoders.append((q, "parse_option"))
    n_dec = 0
    for cq, name in decoders:
        fi = prog.lookup_method(cq, name)
        if fi is None:
            raise AnalysisError(f"decoder {cq}.{name} has vanished")
        run.analysed(fi)
        n_dec += 1
        esc = es.escapes(fi, recv=cq)
        bad = {}
        for exc, where in esc.items():
            if es_is_sub(es, prog, exc, PARSE_ERR):
                continue
            if exc == "UnicodeDecodeError" and CONFIG_PO in where:
                continue
            bad[exc] = where
        run.ob("E1", f"{cq}.{name}:escape-set", not bad, loc(fi),
               f"only {sorted(esc) or 'nothing'} can leave this decoder" if not bad else
               "; ".join(f"{exc} escapes (raised at {where})" for exc, where in bad.items()) + " - decoders may only raise ParseError (UnicodeDecodeError only for configuration text)")
    run.floor("E1-decoders", n_dec, 12)
    rd = prog.lookup_method("header.SOMEIPHeader", "read")
    esc = es.escapes(rd, recv="header.SOMEIPHeader")
    bad = {e: w for e, w in esc.items() if not es_is_sub(es, prog, e, PARSE_ERR) and e != "asyncio.IncompleteReadError"}
    run.ob("E1", f"{rd.qual}:escape-set", not bad, loc(rd), f"stream decoder raises only {sorted(esc)} (+ readexactly's IncompleteReadError)" if not bad else str(bad))
    run.analysed(rd)

    # ================================================================== E1 supporting facts
    facts = _supporting_facts(run, prog, tier)

    # ================================================================== E1 receive paths
    esr = _mk_escapes(prog, exclude=NOT_BYTE_DEPENDENT)

    def guarded(fi, p, exc):
        idx_cond = any(contains(c, lambda s: s[0] == "attr" and s[2] in ("option_index_1", "num_options_1")) for c, v, _, _ in p.conds)
        if fi.qual == "header.SOMEIPSDEntry.resolve_options" and exc == "ValueError" and idx_cond and facts["parse-sets-indexes"]:
            return "entries handed to resolve_options come from SOMEIPSDEntry.parse, which always sets the four index fields"
        if fi.qual == "config.Service.from_offer_entry" and exc == "ValueError" and idx_cond and facts["resolve-clears-indexes"] and facts["dispatch-after-resolve"]:
            return "entries reach the handlers only after resolve_options(), which clears the four index fields"
        if fi.qual == "sd.SendCollector.append" and exc == "RuntimeError" and facts["append-only-while-open"]:
            return "queue_send appends only to a collector it just created or just tested 'not done' (C15-U1)"
        return None

    esr.guarded_raise = guarded
    dr = prog.lookup_method(BASE, "datagram_received")
    for recv in (PROTO, SVC):
        esc = esr.escapes(dr, recv=recv)
        run.ob("E1", f"{dr.qual}[{recv}]:nothing-escapes", not esc, loc(dr),
               "no byte-dependent exception can leave the receive path" if not esc else
               "; ".join(f"{exc} escapes the receive path (raised at {where})" for exc, where in sorted(esc.items())))
    # deferred continuations of a datagram run under the event loop's exception handler
    pol = EscapePolicy(esr, names=esr.inline_names, pred=esr.inline_pred)
    eng = Engine(prog, pol)
    seen = set()
    for q, recv in ((f"{PROTO}.sd_message_received", PROTO), ("sd.ServiceAnnouncer.handle_findservice", "sd.ServiceAnnouncer")):
        fi = prog.func(q)
        for p in eng.paths(fi, recv=recv):
            for e in p.events:
                if e.kind == "call" and e.sched in ("soon", "later") and e.cb is not None:
                  for cb_, ca_, ck_ in sched_targets(eng, p, e, fi):
                    if cb_[0] != "bound":
                        continue
                    tgt = prog.functions.get(cb_[2])
                    if tgt is None or (tgt.qual, e.sched) in seen:
                        continue
                    seen.add((tgt.qual, e.sched))
                    ty = eng.typer.type_of(cb_[1])
                    rc = ty[1] if ty and ty[0] == "cls" else None
                    known = {k: v for k, v in (e.known or {}).items() if isinstance(k, tuple) and k and k[0] == "$eq"}
                    esc = esr.escapes(tgt, recv=rc, args=tuple(ca_), kwargs=tuple(ck_), recv_term=cb_[1], known=known)
                    run.ob("E1", f"{tgt.qual}:deferred-continuation-raises-nothing", not esc, loc(fi, e.node),
                           f"{tgt.name} (scheduled by {fi.name}) lets nothing out" if not esc else
                           "; ".join(f"{exc} reaches the event loop's exception handler (raised at {where})" for exc, where in sorted(esc.items())))
    run.floor("E1-continuations", len(seen), 2)
    run.paths += es.paths_enumerated + esr.paths_enumerated
    run.functions |= es.functions | esr.functions
    run.extra["discharged_by_supporting_fact"] = sorted({f"{q}: {exc} - {why}" for q, exc, why in esr.discharged})
    run.extra["assumed_not_byte_dependent"] = list(NOT_BYTE_DEPENDENT)

    # ================================================================== T1 termination
    with run.part("T1 termination"):
        _termination(run, prog)

    # ================================================================== G1 guards dominate effects
    with run.part("G1 guards"):
        _guards(run, prog, et)

    # ================================================================== G2 the filter judges the wire header
    # G1 decides the filter on the *decoded* header fields; "a message with the wrong service id / method id / message type
    # ... changes nothing" is about the bytes received: each field the filter compares must be the wire field of that name,
    # decoded exactly (C01's reader table L3) - a decoder that masks or maps a field lets foreign bytes pass as discovery
    with run.part("G2 filter fields are the wire fields"):
        from . import C01
        mr = prog.lookup_method(PROTO, "message_received")
        msg = P(mr, param_at(mr, 0, "someip_message"))
        compared = set()
        for p in engine(prog, InlineOnly(names=(), props=True, max_depth=2)).paths(mr, recv=PROTO):
            for c, _v, _n, _k in p.conds:
                for st in subterms(c):
                    if st[0] == "attr" and st[1] == msg:
                        compared.add(st[2])
        compared.discard("payload")
        sub = report.subrun(C01, "C01", prog, tier, run.seed)
        n = 0
        for o in sub.obs:
            if o.rule == "L3" and "<-position[" in o.construct and o.construct.split(":")[-1].split("<-")[0] in compared | {"protocol_version"}:
                n += 1
                run.ob("G2", o.construct, o.ok, o.loc, o.msg, o.detail, o.nontrivial)
        run.floor("G2", n, 4)
        run.paths += sub.paths
        run.abstract_cases += sub.abstract_cases


def es_is_sub(es, prog, exc, base):
    from ..sym import ExcHierarchy
    return ExcHierarchy(prog).is_sub(exc, base)


# ----------------------------------------------------------------------------------------------
def _supporting_facts(run, prog, tier):
    facts = {}
    e0 = engine(prog, InlineOnly(names=("header._unpack",), props=True, max_depth=2))
    ep = prog.lookup_method("header.SOMEIPSDEntry", "parse")
    ok = True
    n = 0
    for p in e0.paths(ep, recv="header.SOMEIPSDEntry"):
        if p.returns():
            n += 1
            d = dict(p.retval()[1][0][2]) if p.retval()[0] == "tuple" and p.retval()[1][0][0] == "new" else {}
            for f in ("option_index_1", "option_index_2", "num_options_1", "num_options_2"):
                if f not in d or d[f] == const(None) or not contains(d[f], lambda s: s[0] == "item"):
                    ok = False
    facts["parse-sets-indexes"] = ok and n > 0
    run.ob("E1", "header.SOMEIPSDEntry.parse:sets-raw-indexes", facts["parse-sets-indexes"], loc(ep),
           "supporting fact: a decoded entry always carries its four raw index/count fields (so resolve_options' 'already resolved' error is unreachable for received entries)")
    ro = prog.lookup_method("header.SOMEIPSDEntry", "resolve_options")
    ok = False
    for p in engine(prog, InlineOnly(names=(), props=True, max_depth=1)).paths(ro, recv="header.SOMEIPSDEntry"):
        if p.returns() and p.retval()[0] == "replace":
            d = dict(p.retval()[2])
            ok = all(d.get(f) == const(None) for f in ("option_index_1", "option_index_2", "num_options_1", "num_options_2"))
    facts["resolve-clears-indexes"] = ok
    run.ob("E1", "header.SOMEIPSDEntry.resolve_options:clears-raw-indexes", ok, loc(ro),
           "supporting fact: resolved entries carry no raw indexes (Service.from_offer_entry's 'must have resolved options' error is unreachable after resolution)")
    mr = prog.lookup_method(PROTO, "message_received")
    smr = prog.lookup_method(PROTO, "sd_message_received")
    hr = prog.lookup_method("header.SOMEIPSDHeader", "resolve_options")
    ok = False
    for p in engine(prog, NoInline()).paths(mr, recv=PROTO):
        d = calls_to(p, smr.qual)
        if d:
            a = d[0].args[0] if d[0].args else None
            ok = a is not None and a[0] == "call" and a[1][0] == "bound" and a[1][2] == hr.qual
    facts["dispatch-after-resolve"] = ok
    run.ob("E1", f"{mr.qual}:dispatches-resolved-message", ok, loc(mr), "supporting fact: entries are dispatched only after resolve_options()")
    # C15-U1
    from . import C15
    sub = report.subrun(C15, "C15", prog, tier, run.seed, without=("U6",))
    u1 = [o for o in sub.obs if o.rule == "U1" and ("append-targets-open-collector" in o.construct or "only-queue_send-appends" in o.construct
                                                    or "done-before-flush" in o.construct or "new-only-if-none-or-done" in o.construct)]
    facts["append-only-while-open"] = bool(u1) and all(o.ok for o in u1)
    run.ob("E1", "sd.SendCollector.append:only-while-open", facts["append-only-while-open"], loc(prog.func("sd.SendCollector.append")),
           "supporting fact (C15-U1): entries are appended only to a collector that is open, so append() cannot raise on the receive path")
    return facts


# ----------------------------------------------------------------------------------------------
def _termination(run, prog):
    """every while loop in a decoder / receive function strictly shrinks a buffer per iteration"""
    n = 0
    # every function of the codec module (decoders and whatever helpers / generators they delegate to) and the receive
    # functions of the endpoints
    # the decoders and whatever they (transitively) call inside the codec module - by name, an over-approximation of the call
    # graph - plus the receive functions of the endpoints.  Loops that only the encoders reach (the option search) are the
    # subject of C02-X2.
    hdr_fns = [fi for fi in prog.functions.values() if fi.module.short == "header"]
    by_name = {}
    for fi in hdr_fns:
        by_name.setdefault(fi.name, []).append(fi)
    roots = [fi for fi in hdr_fns if fi.name in ("parse", "parse_option", "read", "at_eof", "_unpack")]
    reach, todo = {fi.qual for fi in roots}, list(roots)
    while todo:
        cur = todo.pop()
        for n_ in ast.walk(cur.node):
            if isinstance(n_, ast.Call):
                nm = n_.func.id if isinstance(n_.func, ast.Name) else n_.func.attr if isinstance(n_.func, ast.Attribute) else None
                for g in by_name.get(nm, []) if nm and nm not in ("build", "build_option", "__str__") else []:
                    if g.qual not in reach:
                        reach.add(g.qual)
                        todo.append(g)
            elif isinstance(n_, (ast.Name, ast.Attribute)):
                # a function handed over as a value (X.parse passed to a loop helper)
                nm = n_.id if isinstance(n_, ast.Name) else n_.attr
                for g in by_name.get(nm, []) if nm in ("parse", "parse_option", "_unpack") else []:
                    if g.qual not in reach:
                        reach.add(g.qual)
                        todo.append(g)
    targets = [fi for fi in prog.functions.values()
               if fi.qual in reach
               or fi.qual in (f"{BASE}.datagram_received", f"{PROTO}.message_received", f"{PROTO}.sd_message_received", f"{SVC}.message_received")]
    for fi in targets:
        for node in ast.walk(fi.node):
            if not isinstance(node, ast.While):
                continue
            n += 1
            ok, why = _consumes(node, fi.node, fi.module.tree)
            run.ob("T1", f"{fi.qual}:while@{_loop_key(node)}", ok, loc(fi, node), why)
    run.floor("T1", n, 1)


def _loop_key(node: ast.While) -> str:
    return ast.unparse(node.test)[:40].replace(" ", "")


def _byte_valued(name: str, fn) -> bool:
    """every assignment to `name` in the function takes a single element out of a buffer (x = b[i], x, y = b[i], ...):
    a byte value, hence >= 0"""
    seen = False
    for st in ast.walk(fn):
        if isinstance(st, ast.NamedExpr) and isinstance(st.target, ast.Name) and st.target.id == name:
            seen = True
            if not (isinstance(st.value, ast.Subscript) and not isinstance(st.value.slice, ast.Slice)):
                return False
            continue
        if not isinstance(st, ast.Assign) or len(st.targets) != 1:
            continue
        tg, val = st.targets[0], st.value
        pairs = []
        if isinstance(tg, ast.Tuple) and isinstance(val, ast.Tuple) and len(tg.elts) == len(val.elts):
            pairs = list(zip(tg.elts, val.elts))
        elif isinstance(tg, ast.Name):
            pairs = [(tg, val)]
        elif isinstance(tg, ast.Tuple) and any(isinstance(e, ast.Name) and e.id == name for e in tg.elts):
            return False
        for t_, v_ in pairs:
            if isinstance(t_, ast.Name) and t_.id == name:
                seen = True
                if not (isinstance(v_, ast.Subscript) and not isinstance(v_.slice, ast.Slice)):
                    return False
    return seen


def _parser_parameter(name: str, fn, tree) -> bool:
    """`name` is a parameter of fn and every call of fn in the module passes a decoder (`X.parse` / `_unpack`) for it"""
    if fn is None or tree is None:
        return False
    params = [a.arg for a in fn.args.posonlyargs + fn.args.args]
    if name not in params:
        return False
    idx = params.index(name)
    sites = 0
    for n in ast.walk(tree):
        if isinstance(n, ast.Call) and ((isinstance(n.func, ast.Name) and n.func.id == fn.name) or
                                        (isinstance(n.func, ast.Attribute) and n.func.attr == fn.name)):
            off = 1 if (isinstance(n.func, ast.Attribute) and params and params[0] in ("self", "cls")) else 0
            a = n.args[idx - off] if 0 <= idx - off < len(n.args) else next((k.value for k in n.keywords if k.arg == name), None)
            if isinstance(a, ast.Lambda) and a.args.args and isinstance(a.body, ast.Call) and isinstance(a.body.func, ast.Attribute) \
                    and a.body.func.attr in ("parse", "_unpack") and a.body.args and isinstance(a.body.args[0], ast.Name) \
                    and a.body.args[0].id == a.args.args[0].arg:
                a = a.body.func  # lambda b: X.parse(b, ...)
            if isinstance(a, ast.Call) and ast.unparse(a.func).split(".")[-1] == "partial" and a.args and isinstance(a.args[0], ast.Attribute):
                a = a.args[0]  # functools.partial(X.parse, n=..): still X.parse applied to the buffer first
            if not (isinstance(a, ast.Attribute) and a.attr in ("parse", "_unpack")):
                return False
            sites += 1
    return sites >= 1


def _linear(node, env):
    """AST integer expression -> ({name: coeff}, const) over +, with names substituted from env; None if not of that form"""
    if isinstance(node, ast.Constant) and isinstance(node.value, int) and not isinstance(node.value, bool):
        return {}, node.value
    if isinstance(node, ast.Name):
        if node.id in env:
            return env[node.id]
        return {node.id: 1}, 0
    if isinstance(node, ast.BinOp) and isinstance(node.op, ast.Add):
        a, b = _linear(node.left, env), _linear(node.right, env)
        if a is None or b is None:
            return None
        d = dict(a[0])
        for k, v in b[0].items():
            d[k] = d.get(k, 0) + v
        return d, a[1] + b[1]
    if isinstance(node, ast.Call) and isinstance(node.func, ast.Name) and node.func.id == "len" and len(node.args) == 1:
        return {"len(" + ast.unparse(node.args[0]) + ")": 1}, 0
    return None


def _offset_advances(loop: ast.While, fn):
    """decoding by a running offset: some local P indexes a buffer (B[P]) in the loop test or on the body's spine, and the
    straight-line spine of the body rebinds P to P + k with k >= 1 (k: constants, byte values, lengths - all >= 0, the
    constant part >= 1).  Then P grows on every iteration and B[P] past the end raises IndexError: the loop ends."""
    if fn is None:
        return None
    indexed = set()
    for n in [loop.test] + [x for st in loop.body for x in ast.walk(st)]:
        for x in ast.walk(n):
            if isinstance(x, ast.Subscript) and not isinstance(x.slice, ast.Slice) and isinstance(x.slice, ast.Name):
                indexed.add(x.slice.id)
    env = {}
    for st in loop.body:
        if any(isinstance(x, (ast.Continue,)) for x in ast.walk(st)):
            return None
        tg, val = None, None
        if isinstance(st, ast.Assign) and len(st.targets) == 1 and isinstance(st.targets[0], ast.Name):
            tg, val = st.targets[0].id, st.value
        elif isinstance(st, ast.AugAssign) and isinstance(st.op, ast.Add) and isinstance(st.target, ast.Name):
            tg, val = st.target.id, ast.BinOp(left=ast.Name(id=st.target.id, ctx=ast.Load()), op=ast.Add(), right=st.value)
        elif any(isinstance(x, (ast.Assign, ast.AugAssign, ast.NamedExpr)) and any(
                isinstance(y, ast.Name) and isinstance(y.ctx, ast.Store) and y.id in indexed for y in ast.walk(x)) for x in ast.walk(st)):
            return None  # the offset is (also) assigned inside a nested statement
        if tg is None:
            continue
        lin = _linear(val, env)
        if lin is None:
            env.pop(tg, None)
            if tg in indexed:
                return None
            continue
        env[tg] = lin
    for p_ in sorted(indexed):
        if p_ not in env:
            continue
        coeffs, c0 = env[p_]
        if coeffs.get(p_) != 1 or c0 < 1:
            continue
        others = {k: v for k, v in coeffs.items() if k != p_}
        if all(v > 0 and (k.startswith("len(") or _byte_valued(k, fn)) for k, v in others.items()):
            plus = " + ".join([str(c0)] + sorted(others))
            return f"the offset `{p_}` grows by {plus} >= {c0} on every iteration and indexing the buffer past its end raises IndexError"
    return None


def _consumes(loop: ast.While, fn=None, tree=None):
    """(ok, explanation): some buffer name is rebound, on the straight-line spine of the body, to a strict suffix of
    itself: `x, B = P.parse(B, ...)` (parser rest) or `B = B[k:]` / `.., B = .., B[k:]` with constant k >= 1"""
    best = None
    for st in loop.body:
        if isinstance(st, (ast.Continue, ast.Break)):
            break
        # stream decoders: every iteration first awaits reader.readexactly(<header size>), which draws that many bytes from
        # the stream or ends the loop with IncompleteReadError at the end of the stream
        v0 = st.value if isinstance(st, (ast.Assign, ast.Expr, ast.AnnAssign)) else None
        if isinstance(v0, ast.Await) and isinstance(v0.value, ast.Call) and isinstance(v0.value.func, ast.Attribute) \
                and v0.value.func.attr == "readexactly" and len(v0.value.args) == 1:
            a0 = v0.value.args[0]
            if (isinstance(a0, ast.Constant) and isinstance(a0.value, int) and a0.value >= 1) or (isinstance(a0, ast.Attribute) and a0.attr == "size"):
                return True, f"every iteration draws {ast.unparse(a0)} byte(s) from the stream with readexactly (or ends at the end of the stream)"
        # ... or delegates to the stream decoder of a message (X.read(reader)), which reads at least a header
        if isinstance(v0, ast.Await) and isinstance(v0.value, ast.Call) and isinstance(v0.value.func, ast.Attribute) \
                and v0.value.func.attr == "read" and len(v0.value.args) == 1 and "reader" in ast.unparse(v0.value.args[0]):
            return True, f"every iteration decodes one message from the stream with {ast.unparse(v0.value.func)} (at least a header is consumed, or the stream ends)"
        if any(isinstance(x, ast.Continue) for x in ast.walk(st)) and best is None and not isinstance(st, ast.Assign):
            # a `continue` before the consuming statement would skip it
            return False, "an iteration can `continue` before the buffer is consumed"
        if not isinstance(st, ast.Assign) or len(st.targets) != 1:
            continue
        tg, val = st.targets[0], st.value
        pairs = []
        if isinstance(tg, ast.Tuple) and isinstance(val, ast.Tuple) and len(tg.elts) == len(val.elts):
            pairs = list(zip(tg.elts, val.elts))
        elif isinstance(tg, ast.Tuple) and isinstance(val, ast.Call):
            # x, B = Parser.parse(B, ...)
            f = val.func
            if isinstance(f, ast.Attribute) and f.attr in ("parse", "_unpack") and val.args and isinstance(val.args[0], ast.Name) and len(tg.elts) == 2 \
                    and isinstance(tg.elts[1], ast.Name) and tg.elts[1].id == val.args[0].id:
                return True, f"`{tg.elts[1].id}` is rebound to the unconsumed rest returned by {ast.unparse(f)} (which consumes at least its fixed header)"
            if isinstance(f, ast.Name) and val.args and isinstance(val.args[0], ast.Name) and len(tg.elts) == 2 and isinstance(tg.elts[1], ast.Name) \
                    and tg.elts[1].id == val.args[0].id and _parser_parameter(f.id, fn, tree):
                return True, f"`{tg.elts[1].id}` is rebound to the rest returned by the decoder passed as `{f.id}` (every caller passes a parse function)"
        elif isinstance(tg, ast.Name):
            pairs = [(tg, val)]
        for t_, v_ in pairs:
            if isinstance(t_, ast.Name) and isinstance(v_, ast.Subscript) and isinstance(v_.value, ast.Name) and v_.value.id == t_.id \
                    and isinstance(v_.slice, ast.Slice) and v_.slice.upper is None and v_.slice.step is None:
                lo = v_.slice.lower
                if isinstance(lo, ast.Constant) and isinstance(lo.value, int) and lo.value >= 1:
                    return True, f"`{t_.id}` loses at least {lo.value} byte(s) per iteration"
                # b = b[n + k:] with k >= 1 and n a byte value
                if isinstance(lo, ast.BinOp) and isinstance(lo.op, ast.Add) and fn is not None:
                    a, b_ = lo.left, lo.right
                    if isinstance(a, ast.Constant):
                        a, b_ = b_, a
                    if isinstance(b_, ast.Constant) and isinstance(b_.value, int) and b_.value >= 1 and isinstance(a, ast.Name) \
                            and _byte_valued(a.id, fn):
                        return True, f"`{t_.id}` loses `{a.id}` + {b_.value} >= {b_.value} byte(s) per iteration"
                # b = b[n:] inside `while n != 0` / `while n > 0` / `while n` with n a length byte
                tst = loop.test
                if isinstance(lo, ast.Name) and ((isinstance(tst, ast.Name) and tst.id == lo.id) or (
                        isinstance(tst, ast.Compare) and isinstance(tst.left, ast.Name) and tst.left.id == lo.id and len(tst.ops) == 1
                        and isinstance(tst.ops[0], (ast.NotEq, ast.Gt)) and isinstance(tst.comparators[0], ast.Constant) and tst.comparators[0].value == 0)):
                    return True, f"`{t_.id}` loses `{lo.id}` >= 1 byte(s) per iteration (the loop runs only while {lo.id} is non-zero)"
                best = t_.id
    adv = _offset_advances(loop, fn)
    if adv is not None:
        return True, adv
    if isinstance(loop.test, ast.Constant) and loop.test.value:
        return False, "`while True` in a decoder"
    return False, "no buffer is strictly shortened on every iteration: a crafted input could make decoding loop forever"


# ----------------------------------------------------------------------------------------------
class _ParseMayFail(NoInline):
    """decoders may reject: a call of a header-module parse() can raise ParseError"""

    def may_raise(self, ev, eng):
        if ev.kind == "call" and ev.targets and ev.targets[0].module.short == "header" and ev.targets[0].name == "parse":
            return ["header.ParseError"]
        return super().may_raise(ev, eng)


def _guards(run, prog, et, accept_rule=None):
    """accept_rule=None: the rejection half (this property).  accept_rule='Sx': only the acceptance half - a decodable SD
    notification reaches the reboot check and the entry dispatch on every path - reported under that rule name (C04
    relies on it: a message that is silently dropped cannot make two stacks converge)."""
    e0 = engine(prog, _ParseMayFail())
    e0.policy.unroll = 1
    mr = prog.lookup_method(PROTO, "message_received")
    run.analysed(mr)
    msg = P(mr, param_at(mr, 0, "someip_message"))
    paths = e0.paths(mr, recv=PROTO)
    run.paths += len(paths)
    mt = enum_members(prog, "header.SOMEIPMessageType")
    rc = enum_members(prog, "header.SOMEIPReturnCode")
    hp = prog.lookup_method("header.SOMEIPSDHeader", "parse")
    sd_vals = {"service_id": 0xFFFF, "method_id": 0x8100, "interface_version": 1, "return_code": rc["E_OK"], "message_type": mt["NOTIFICATION"]}
    other = {"service_id": 0x1234, "method_id": 0x8101, "interface_version": 2, "return_code": rc["E_NOT_OK"], "message_type": mt["REQUEST"]}
    consts = {"SD_SERVICE": 0xFFFF, "SD_METHOD": 0x8100, "SD_INTERFACE_VERSION": 1}
    for name, want in consts.items():
        node = prog.modules["header"].consts.get(name)
        run.ob("G1", f"header.{name}:value", getattr(node, "value", None) == want, loc(mr), f"header.{name} = {getattr(node, 'value', None)!r}; SOME/IP-SD uses {want:#x}")

    def effectful(e):
        if e.kind == "store" and e.target is not None and e.target[0] in ("attr", "item") and contains(e.target, lambda s: s[0] == "self"):
            return True
        if e.kind != "call":
            return False
        if e.sched:
            return True
        if e.targets:
            q = e.targets[0].qual
            if e.inlined:
                return False  # an extracted helper analysed in place: its body's events are on the path
            if q in ("sd.format_address", hp.qual) or e.targets[0].module.short == "header" and e.targets[0].name in ("parse",):
                return False
            return True
        return False

    cases = 0
    bad = {}
    free_state = set()
    smr_q = prog.lookup_method(PROTO, "sd_message_received").qual
    for combo in itertools.product((True, False), repeat=5):
        for parse_ok in (True, False):
            cases += 1
            vals = {k: (sd_vals[k] if ok else other[k]) for k, ok in zip(sd_vals, combo)}

            def leaf(tm):
                if tm[0] == "attr" and tm[1] == msg and tm[2] in vals:
                    return vals[tm[2]]
                if tm[0] == "attr" and tm[1] == ("mod", "header") and tm[2] in consts:
                    return consts[tm[2]]
                if tm[0] == "call" and tm[1][0] == "bound" and tm[1][2].endswith("check_received"):
                    return False
                if tm[0] == "item" and tm[1][0] == "call" and tm[1][1][0] == "bound" and tm[1][1][2] == hp.qual:
                    return b"" if tm[2] == const(1) else object()
                raise AnalysisError(f"{mr.qual}: filter depends on {show(tm)}")
            hits = []
            for p in paths:
                pc = calls_to(p, hp.qual)
                if pc and (pc[0].raised is None) != parse_ok:
                    continue
                ok_path = True
                for c, v, _, _ in p.conds:
                    try:
                        if bool(eval_term(c, leaf)) != v:
                            ok_path = False
                            break
                    except AnalysisError:
                        # a decision about state of the endpoint itself (a cache, a counter, a flag): a free dimension -
                        # the filter has to be right for either outcome
                        if contains(c, lambda s_: s_[0] == "attr" and s_[1] == ("self", PROTO)):
                            free_state.add(show(c)[:80])
                            continue
                        # ... or about the content of the decoded message (its flags, its entries): what is done with a
                        # message that passed the filter is not this rule's subject - either outcome is explored
                        if contains(c, lambda s_: s_[0] == "call" and s_[1][0] == "bound" and s_[1][2] == hp.qual):
                            free_state.add(show(c)[:80])
                            continue
                        raise
                if ok_path:
                    hits.append(p)
            if all(combo) and not parse_ok:
                hits = [p for p in hits if calls_to(p, hp.qual)]
            if not hits:
                raise AnalysisError(f"{mr.qual}: no path for one header combination")
            if len(hits) != 1 and not free_state:
                if not all(combo):
                    hits = hits[:1] if hits and all(not [e for e in h.events if effectful(e)] for h in hits) else hits
                if len(hits) != 1:
                    raise AnalysisError(f"{mr.qual}: {len(hits)} paths for one header combination")
            accept = all(combo) and parse_ok
            for p in hits:
                eff = [e for e in p.events if effectful(e)]
                if not accept and eff:
                    wrong = [k for k, ok in zip(sd_vals, combo) if not ok] or ["undecodable payload"]
                    bad.setdefault("+".join(wrong), f"message with foreign {', '.join(wrong)} still reaches {eff[0]!r}")
                if not accept and p.outcome[0] == "raise":
                    bad.setdefault("raises", f"rejected message makes message_received raise {p.outcome[1]}")
                if accept and not (calls_to(p, smr_q) and [e for e in p.events if e.kind == "call" and e.attrname == "check_received"]):
                    bad.setdefault("accept", "a well-formed SD notification is not handed to the reboot check and the entry dispatch on the path ["
                                   + p.describe()[:90] + "]")
    run.abstract_cases += cases
    if accept_rule is not None:
        run.ob(accept_rule, f"{mr.qual}:decodable-notification-is-processed", "accept" not in bad, loc(mr),
               bad.get("accept", "every decodable SD notification reaches the reboot check and the entry dispatch"
                       + (f" (for either outcome of {sorted(free_state)})" if free_state else "")))
        return
    bad.pop("accept", None)  # liveness of the receive path is C04's business
    for k, m in bad.items():
        run.ob("G1", f"{mr.qual}:filter[{k}]", False, loc(mr), m)
    if not bad:
        run.ob("G1", f"{mr.qual}:filter-dominates-effects", True, loc(mr),
               f"{cases} combinations of (service, method, interface version, return code, message type, payload decodable): only the SD notification with a decodable payload reaches any state change / dispatch")

    # sd_message_received: unicast flag and multicast subscribes
    smr = prog.lookup_method(PROTO, "sd_message_received")
    run.analysed(smr)
    sdh = P(smr, param_at(smr, 0, "sdhdr"))
    mc = P(smr, param_at(smr, 2, "multicast"))
    sp = e0.paths(smr, recv=PROTO)
    run.paths += len(sp)
    for p in sp:
        d = [v for c, v, _, _ in p.conds if c == ("attr", sdh, "flag_unicast") or c == ("unop", "not", ("attr", sdh, "flag_unicast"))]
        uni = None
        for c, v, _, _ in p.conds:
            if c == ("attr", sdh, "flag_unicast"):
                uni = v
            elif c == ("unop", "not", ("attr", sdh, "flag_unicast")):
                uni = not v
        if uni is False:
            eff = [e for e in p.events if e.kind == "call" and (e.sched or (e.targets and e.targets[0].qual != "sd.format_address"))]
            run.ob("G1", f"{smr.qual}:no-unicast-flag-ignored", not eff and p.returns(), loc(smr),
                   "entries of a message without the unicast flag are ignored" if not eff else f"message without unicast flag still reaches {eff[0]!r}")
    # the header handed to sd_message_received went through resolve_options(): that step must keep the decoded
    # flags (a freshly constructed header silently gets flag_unicast=True)
    hro = prog.lookup_method("header.SOMEIPSDHeader", "resolve_options")
    hme = ("self", "header.SOMEIPSDHeader")
    kept = True
    why = ""
    for p in engine(prog, NoInline()).paths(hro, recv="header.SOMEIPSDHeader"):
        if p.returns():
            for fld in ("flag_unicast", "flag_reboot", "flags_unknown"):
                v = field_of(prog, p.retval(), fld)
                if v != ("attr", hme, fld):
                    kept = False
                    why = f"resolve_options() returns a header whose {fld} is {show(v) if v != ('default',) else 'the constructor default'}, not the decoded one"
    run.ob("G1", f"{hro.qual}:keeps-decoded-flags", kept, loc(hro),
           "option resolution keeps the decoded unicast / reboot / unknown flags (the unicast gate tests what was on the wire)" if kept else
           why + ": a message without the unicast flag passes the gate in sd_message_received")
    dispatched_without_flag_test = [p for p in sp if not any(contains(c, lambda s: s == ("attr", sdh, "flag_unicast")) for c, _, _, _ in p.conds)
                                    and any(e.kind == "call" and (e.sched or (e.targets and e.targets[0].qual != "sd.format_address")) for e in p.events)]
    run.ob("G1", f"{smr.qual}:unicast-flag-tested-before-dispatch", not dispatched_without_flag_test, loc(smr), "no entry is dispatched before the unicast flag was tested")
    hsub = prog.lookup_method("sd.ServiceAnnouncer", "handle_subscribe")
    leaks = 0
    for p in sp:
        for c in calls_to(p, hsub.qual):
            mcv = None
            for cc, v, _, _ in p.conds:
                if cc == mc:
                    mcv = v
                elif cc == ("unop", "not", mc):
                    mcv = not v
            if mcv is not False:
                leaks += 1
    run.ob("G1", f"{smr.qual}:multicast-subscribe-dropped", leaks == 0 and any(calls_to(p, hsub.qual) for p in sp), loc(smr),
           "Subscribe entries are handed to the announcer only when received by unicast")
