"""C11 - every unicast Subscribe gets exactly one correct Ack or Nack.

K1  ServiceInstance.handle_subscribe: not running / no match -> False, no effect; StopSubscribe (TTL 0)
    -> store removal, no answer; otherwise exactly one queued answer to the sender: the Ack when the store
    accepted, the Nack when the listener rejected
K2  ServiceAnnouncer.handle_subscribe: exactly one own Nack iff no instance took the entry
K3  echo table: Ack/Nack copy service, instance, major version, eventgroup id and counter from the entry;
    Ack carries the requested TTL, Nack TTL 0; type SubscribeAck
K4  Subscribe entries reach handle_subscribe only when received by unicast
"""
from __future__ import annotations

from ..absint import eval_term
from ..facts import AnalysisError
from ..sym import enum_members
from ..terms import const, contains, show, strip_sites, subterms
from ..util import implied_atoms, InlineOnly, NoInline, P, calls_to, engine, loc, param_at

INST = "sd.ServiceInstance"
ANN = "sd.ServiceAnnouncer"
SUB = "sd.EventgroupSubscription"
PROTO = "sd.ServiceDiscoveryProtocol"
ENTRY = "header.SOMEIPSDEntry"


def check(run, prog, tier):
    from . import model as _model
    _model.audit(run, prog, 'C11')
    run.explanation = (
        "Path-effect summaries: every path of the two handle_subscribe functions (store refresh and the nack "
        "helper spliced in, listener rejection injected as NakSubscription) is listed with its return value and "
        "its queued answers; the summary is compared with the statement's table.  The echo of ids and counter is a "
        "field-mapping composition entry -> subscription -> ack entry, evaluated on boundary values of the packed "
        "counter/eventgroup field."
    )
    run.trusted += ["a listener rejects only by raising NakSubscription", "at most one announced instance matches a given entry (property's domain)"]
    hs = prog.lookup_method(INST, "handle_subscribe")
    ahs = prog.lookup_method(ANN, "handle_subscribe")
    qs = prog.lookup_method(ANN, "queue_send")
    nack = prog.lookup_method(ANN, "_send_subscribe_nack")
    fse = prog.lookup_method(SUB, "from_subscribe_entry")
    tack = prog.lookup_method(SUB, "to_ack_entry")
    tnack = prog.lookup_method(SUB, "to_nack_entry")
    refresh = prog.lookup_method("sd.TimedStore", "refresh")
    stopm = prog.lookup_method("sd.TimedStore", "stop")
    if not all((hs, ahs, qs, fse, tack, tnack, refresh, stopm)):
        raise AnalysisError("subscribe handling functions vanished")
    run.analysed(*[f for f in (hs, ahs, nack, fse, tack, tnack) if f is not None])
    me = ("self", INST)

    # ------------------------------------------------------------------ K1
    eng = engine(prog, InlineOnly(names=(refresh.qual, f"{INST}.eventgroup_subscribe_stopped") + ((nack.qual,) if nack is not None else ()), props=False, max_depth=2))
    ent = P(hs, param_at(hs, 0, "entry"))
    addr = P(hs, param_at(hs, 1, "addr"))
    paths = eng.paths(hs, recv=INST)
    run.paths += len(paths)
    subterm = None
    classes = {}
    for p in paths:
        if not p.returns():
            if p.outcome[0] == "raise" and p.outcome[1] == "AnyException":
                continue  # an exception other than NakSubscription raised by user listener code: attributed to the user
            run.ob("K1", f"{hs.qual}:total", False, loc(hs), f"handle_subscribe may raise {p.outcome[1]} (path {p.describe()[:80]})")
            continue
        rv = p.retval()
        sends = calls_to(p, qs.qual)
        writes = [e for e in p.events if e.kind == "store" and e.target[0] == "item" and contains(e.target, lambda s: s[0] == "attr" and s[2] == "store")]
        removals = calls_to(p, stopm.qual)
        rejected = any(e.kind == "caught" and e.value == "sd.NakSubscription" for e in p.events)
        running = [v for c, v, _, _ in p.conds if contains(c, lambda s: s == ("attr", me, "_task"))]
        stopsub = [v for c, v, _, _ in p.conds if strip_sites(c) == ("cmp", "==", ("attr", ent, "ttl"), const(0))]
        if rv == const(False):
            kind = "declined"
            ok = not sends and not writes and not removals
            msg = f"returns False with {len(sends)} answer(s), {len(writes)} store write(s)"
            # "a running instance" is one that was started and not stopped (`_task` set / cleared by start() / stop()): an
            # instance is not declined for what has become of the task object itself - a non-cyclic offer task ends normally
            # after its repetition phase while the instance stays offered
            asks = [c for c, v, _, _ in p.conds if contains(c, lambda s: s[0] == "call" and s[1][0] in ("attr", "bound") and s[1][1] == ("attr", me, "_task"))]
            if ok and asks:
                ok = False
                msg = (f"declines on {show(asks[0])[:60]}: whether the instance is running is `_task is None`, not a state of the task object "
                       "(done() is also true for the offer task of a non-cyclic instance that ended normally - its subscribers get a Nack)")
        elif stopsub == [True]:
            kind = "stop-subscribe"
            # (that it ends exactly the named subscription is C06-H1; here: no answer, nothing recorded)
            ok = rv == const(True) and not sends and not writes
            msg = f"StopSubscribe: {len(sends)} answer(s), {len(writes)} store write(s) (must be 0 and 0)"
        elif rejected:
            kind = "rejected"
            ok = rv == const(True) and len(sends) == 1 and not writes
            if ok:
                a = sends[0].args[0]
                ok = a[0] == "call" and a[1][0] == "bound" and a[1][2] == tnack.qual and sends[0].arg(1, "remote") == addr
            msg = f"listener rejected: {len(sends)} answer(s) {[show(s.args[0])[:60] for s in sends]}, {len(writes)} store write(s); expected one Nack to the sender, nothing stored"
        else:
            kind = "accepted"
            # (whether and how long the accepted subscription is *recorded* is C06's subject - N1 / T-rules; this property is
            # about the answer: exactly one Ack, to the sender, not before the listener had its say)
            ok = rv == const(True) and len(sends) == 1 and len(writes) <= 1
            if ok:
                a = sends[0].args[0]
                ok = a[0] == "call" and a[1][0] == "bound" and a[1][2] == tack.qual and sends[0].arg(1, "remote") == addr \
                    and all(w.seq < sends[0].seq for w in writes)
                subterm = a[1][1]
            msg = f"accepted: {len(sends)} answer(s) {[show(s.args[0])[:60] for s in sends]} to {[show(s.arg(1, 'remote')) for s in sends]}, {len(writes)} store write(s); expected exactly one Ack to the sender (after the subscription was handed to the store)"
        classes.setdefault(kind, []).append(ok)
        run.ob("K1", f"{hs.qual}:{kind}", ok, loc(hs), msg)
        # running check and match dominate every effect
        if sends or writes or removals:
            atoms = implied_atoms(p.conds)
            dom = any(contains(c, lambda s: s == ("attr", me, "_task")) for c, _ in atoms) and \
                any(v and c[0] == "call" and c[1][0] == "bound" and c[1][-1].endswith("matches_subscribe") for c, v in atoms)
            run.ob("K1", f"{hs.qual}:{kind}-guarded-by-running-and-match", dom, loc(hs), "effects happen only for a running instance whose service matches the entry")
    run.ob("K1", f"{hs.qual}:all-outcomes-present", {"declined", "stop-subscribe", "rejected", "accepted"} <= set(classes), loc(hs), f"outcome classes found: {sorted(classes)}")
    # the subscription used for store, ack and nack is from_subscribe_entry(entry)
    oks = subterm is not None and subterm[0] == "call" and subterm[1][0] == "bound" and subterm[1][2] == fse.qual and subterm[2] == (ent,)
    run.ob("K1", f"{hs.qual}:answer-built-from-the-entry", bool(oks), loc(hs), f"the acknowledged subscription is {show(subterm)[:80] if subterm else '?'}")

    # ------------------------------------------------------------------ K2
    eng2 = engine(prog, InlineOnly(names=((nack.qual,) if nack is not None else ()), props=False, max_depth=1, unroll=3 if tier == "thorough" else 2))
    aent = P(ahs, param_at(ahs, 0, "entry"))
    aaddr = P(ahs, param_at(ahs, 1, "addr"))
    apaths = eng2.paths(ahs, recv=ANN)
    run.paths += len(apaths)
    seen = set()
    for p in apaths:
        if not p.returns():
            run.ob("K2", f"{ahs.qual}:total", False, loc(ahs), f"may raise {p.outcome[1]}")
            continue
        ic = calls_to(p, hs.qual)
        took = 0
        for c in ic:
            d = [v for cc, v, _, _ in p.conds if cc == c.result]
            if d and d[0]:
                took += 1
            if c.args[:2] != (aent, aaddr):
                run.ob("K2", f"{ahs.qual}:passes-entry-and-sender", False, loc(ahs), f"instance.handle_subscribe called with ({', '.join(show(a) for a in c.args)})")
        sends = calls_to(p, qs.qual)
        want = 1 if took == 0 else 0
        ok = len(sends) == want
        if ok and sends:
            a = sends[0].args[0]
            ok = a[0] == "call" and a[1][0] == "bound" and a[1][2] == tnack.qual and a[1][1][0] == "call" and a[1][1][1][-1] == fse.qual and a[1][1][2] == (aent,) \
                and sends[0].arg(1, "remote") == aaddr
        key = (len(ic), took)
        if key in seen:
            continue
        seen.add(key)
        run.ob("K2", f"{ahs.qual}:{len(ic)}-instances-{took}-took-it", ok, loc(ahs),
               f"{len(ic)} instance(s) asked, {took} took the entry: the announcer itself queues {len(sends)} answer(s) (expected {want}: one Nack to the sender iff nobody took it)")
    run.floor("K2", len(seen), 4)

    # ------------------------------------------------------------------ K3 echo
    eng3 = engine(prog, InlineOnly(names=(tack.qual,), props=True, max_depth=3))
    et = enum_members(prog, "header.SOMEIPSDEntryType")
    fe = P(fse, param_at(fse, 0, "entry"))
    fpaths = [p for p in eng3.paths(fse, recv=SUB) if p.returns()]
    run.paths += len(fpaths)
    subme = ("self", SUB)

    def leaf_entry(m, ttl):
        vals = {"service_id": 0x1234, "instance_id": 0x5678, "major_version": 0x9A, "ttl": ttl, "minver_or_counter": m,
                "sd_type": et["Subscribe"], "options": ()}

        def leaf(tm):
            if tm[0] == "attr" and tm[1] == fe and tm[2] in vals:
                return vals[tm[2]]
            if tm[0] == "call" and tm[1] in (("ext", "frozenset"), ("ext", "tuple")) and len(tm[2]) == 1:
                return ()
            raise AnalysisError(f"echo table depends on {show(tm)}")
        return leaf, vals

    for name, fn, want_ttl in (("ack", tack, None), ("nack", tnack, 0)):
        ps = [p for p in eng3.paths(fn, recv=SUB) if p.returns()]
        run.paths += len(ps)
        if len(ps) != 1:
            raise AnalysisError(f"{fn.qual}: {len(ps)} returning paths")
        rv = ps[0].retval()
        if rv[0] != "new" or rv[1] != ENTRY:
            raise AnalysisError(f"{fn.qual}: does not return a constructed SD entry")
        out = dict(rv[2])
        bad = None
        for m in (0, 0x000F1234, 0x0001FFFF, 0x000A0000, 0x00000001):
            for ttl in (1, 5, 0xFFFFFF):
                lf, vals = leaf_entry(m, ttl)
                # subscription fields as decoded from the entry (zero-options path of from_subscribe_entry)
                # (the option lists may be built by loops or by comprehensions: only the echoed fields are evaluated,
                # so a path qualifies when its branch conditions do not inspect any option)
                cands = [p for p in fpaths if not any(s[0] == "elem" for c, _, _, _ in p.conds for s in subterms(c))]
                cands.sort(key=lambda p: any(s[0] == "elem" for s in subterms(p.retval())))
                fp = None
                for p in cands:
                    try:
                        if fp is None and all(bool(eval_term(c, lf)) == v for c, v, _, _ in p.conds):
                            fp = p
                    except AnalysisError:
                        continue
                if fp is None:
                    raise AnalysisError(f"{fse.qual}: no path for an entry without options")
                sub = dict(fp.retval()[2])

                def leaf2(tm):
                    if tm[0] == "attr" and tm[1] == subme and tm[2] in sub:
                        return eval_term(sub[tm[2]], lf)
                    raise AnalysisError(f"{fn.qual}: depends on {show(tm)}")
                got = {k: eval_term(v, leaf2) for k, v in out.items() if k in ("sd_type", "service_id", "instance_id", "major_version", "ttl", "minver_or_counter")}
                want = {"sd_type": et["SubscribeAck"], "service_id": 0x1234, "instance_id": 0x5678, "major_version": 0x9A,
                        "ttl": ttl if want_ttl is None else want_ttl, "minver_or_counter": m}
                if got != want and bad is None:
                    diff = {k: (got.get(k), want[k]) for k in want if got.get(k) != want[k]}
                    bad = f"Subscribe(counter/eventgroup={m:#010x}, ttl={ttl}) is answered with {name} fields {diff} (got, expected)"
                run.abstract_cases += 1
        run.ob("K3", f"{fn.qual}:echo", bad is None, loc(fn), bad or f"{name} echoes service, instance, major version, eventgroup id and counter; TTL {'as requested' if want_ttl is None else '0'}; type SubscribeAck")
        run.ob("K3", f"{fn.qual}:no-options", not any(k.startswith("option") for k in out), loc(fn), "acknowledgements carry no options", nontrivial=False)

    # every entry handed to queue_send is transmitted exactly once (C15 rule set as supporting obligations)
    from .C15 import queue_exactly_once
    queue_exactly_once(run, prog, tier, "K5")

    # memoisation: EventgroupSubscription compares (and hashes) without ttl/options; caching an answer per "equal"
    # subscription would hand out the answer of an earlier request with another TTL
    nocmp = {f.name for f in prog.all_fields(SUB) if not f.compare}
    for fn in (tack, tnack, fse):
        cached = [d for d in fn.decorators if d.split(".")[-1] in ("lru_cache", "cache", "cached_property")]
        import ast as _ast
        reads = {n.attr for n in _ast.walk(fn.node) if isinstance(n, _ast.Attribute) and isinstance(n.value, _ast.Name) and n.value.id == (fn.params() or ["self"])[0]}
        # to_nack_entry derives from to_ack_entry: it depends on whatever that reads
        bad = bool(cached) and fn.kind != "classmethod" and bool((reads | ({"ttl"} if fn is tnack else set())) & nocmp)
        run.ob("K3", f"{fn.qual}:not-memoised-on-partial-identity", not bad, loc(fn),
               f"{fn.name} is computed per call" if not cached else
               (f"{fn.name} is memoised ({cached[0]}) on the subscription's equality, which ignores {sorted(nocmp)}, but reads {sorted(reads & nocmp) or ['ttl']}: "
                "a later Subscribe with another TTL is answered with the cached entry of an earlier one"))

    # ------------------------------------------------------------------ K4 multicast gate
    smr = prog.lookup_method(PROTO, "sd_message_received")
    run.analysed(smr)
    e0 = engine(prog, NoInline())
    e0.policy.unroll = 1
    mc = P(smr, param_at(smr, 2, "multicast"))
    sdh = P(smr, param_at(smr, 0, "sdhdr"))
    sp = e0.paths(smr, recv=PROTO)
    run.paths += len(sp)
    # (the gate is decided for StopSubscribe entries - TTL 0 - and for the corners of the TTL range alike: a Subscribe entry of
    # any TTL that arrives by multicast is dropped)
    for ttlv in (0, 1, 3, 0xFFFFFF):
        for mcv in (False, True):
            def leaf(tm):
                if tm == mc:
                    return mcv
                if tm == ("attr", sdh, "flag_unicast"):
                    return True
                if tm[0] == "attr" and tm[2] == "sd_type" and tm[1][0] == "elem":
                    return et["Subscribe"]
                if tm[0] == "attr" and tm[2] == "ttl":
                    return ttlv
                raise AnalysisError(f"{smr.qual}: dispatch depends on {show(tm)}")
            hits = []
            for p in sp:
                if not any(s[0] == "elem" for c, _, _, _ in p.conds for s in subterms(c)):
                    continue  # zero entries
                try:
                    if all(bool(eval_term(c, leaf)) == v for c, v, _, _ in p.conds):
                        hits.append(p)
                except AnalysisError:
                    raise
            if len(hits) != 1:
                raise AnalysisError(f"{smr.qual}: {len(hits)} paths for one Subscribe entry, multicast={mcv}, ttl={ttlv}")
            p = hits[0]
            hc = calls_to(p, ahs.qual)
            other = [e for e in p.events if e.kind == "call" and (e.sched or (e.targets and e.targets[0].module.short == "sd" and e.targets[0].qual != ahs.qual and not e.targets[0].qual.endswith("format_address")))]
            if mcv:
                ok = not hc and not other
                run.ob("K4", f"{smr.qual}:multicast-subscribe-dropped[ttl={ttlv:#x}]", ok, loc(smr), f"Subscribe over multicast: {len(hc)} handle_subscribe call(s), {len(other)} other effect(s) (must be none)")
            else:
                ok = len(hc) == 1 and hc[0].args[1:2] == (P(smr, param_at(smr, 1, "addr")),) and hc[0].args[0][0] == "elem"
                run.ob("K4", f"{smr.qual}:unicast-subscribe-dispatched[ttl={ttlv:#x}]", ok, loc(smr), f"Subscribe over unicast: handed to the announcer {len(hc)}x with the sender address")
