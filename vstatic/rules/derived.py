"""Derived-state coherence, shared by the properties whose statement is about "the current" set of something.

A method that answers from a cached attribute (``if self.A is not None: return self.A`` ... ``self.A = f(self.X)``)
makes A a function of X that is only recomputed on demand.  The answer is current only if every change of X also
resets (or recomputes) A.  The rule finds such getters in a class from the shape of their paths, collects the
attributes the fill path reads, and demands of every path of every function that changes one of them that it also
stores A.  On a tree without such caches the rule has no instance (it reports how many getters it looked at).
"""
from __future__ import annotations

import typing as t

from ..effects import MUTATORS
from ..facts import AnalysisError
from ..terms import contains, show, subterms
from ..util import NoInline, engine, implied_atoms, loc


def _self_attrs(tm, me) -> t.Set[str]:
    return {s[2] for s in subterms(tm) if s[0] == "attr" and s[1] == me}


def _event_terms(e):
    for x in (e.fterm, e.recv, e.target, e.value, e.result):
        if isinstance(x, tuple):
            yield x
    for a in (e.args or ()):
        if isinstance(a, tuple):
            yield a
    for _, a in (e.kwargs or ()):
        if isinstance(a, tuple):
            yield a


def find_caches(prog, eng, cq: str):
    """-> [(getter FuncInfo, cache attribute, {source attributes})]"""
    me = ("self", cq)
    ci = prog.cls(cq)
    out = []
    for name, fi in sorted(ci.methods.items()):
        if fi.kind not in ("method", "property") or name == "__init__" or fi.is_async:
            continue
        try:
            paths = eng.paths(fi, recv=cq)
        except AnalysisError:
            continue
        hit_attrs = set()
        for p in paths:
            if not p.returns():
                continue
            rv = p.retval()
            if rv is not None and rv[0] == "attr" and rv[1] == me and not any(e.kind == "store" and e.target == rv for e in p.events):
                # answered from the attribute, on a path that tested it
                if any(contains(c, lambda s, rv=rv: s == rv) for c, _ in implied_atoms(p.conds)):
                    hit_attrs.add(rv[2])
        for A in sorted(hit_attrs):
            cache = ("attr", me, A)
            sources: t.Set[str] = set()
            filled = False
            for p in paths:
                st = [e for e in p.events if e.kind == "store" and e.target == cache]
                if not st or not p.returns():
                    continue
                filled = True
                for e in p.events:
                    if e.seq > st[-1].seq:
                        break
                    for tm in _event_terms(e):
                        sources |= _self_attrs(tm, me)
                for c, _, _, _ in p.conds:
                    sources |= _self_attrs(c, me)
            sources.discard(A)
            sources = {x for x in sources if prog.lookup_method(cq, x) is None and x not in ("log",)}
            if filled and sources:
                out.append((fi, A, sources))
    return out


def cache_coherence(run, prog, rule: str, classes: t.Sequence[str]):
    eng = engine(prog, NoInline())
    looked = 0
    for cq in classes:
        ci = prog.classes.get(cq)
        if ci is None:
            raise AnalysisError(f"{cq} has vanished")
        me = ("self", cq)
        caches = find_caches(prog, eng, cq)
        looked += len(ci.methods)
        for getter, A, sources in caches:
            cache = ("attr", me, A)
            sites = 0
            for name, fi in sorted(ci.methods.items()):
                if fi is getter or name == "__init__" or eng.is_unknown_helper(fi):
                    continue  # (an extracted helper is analysed in place inside the methods that call it)
                try:
                    paths = eng.paths(fi, recv=cq)
                except AnalysisError:
                    continue
                bad = None
                for p in paths:
                    muts = []
                    for e in p.events:
                        root = None
                        if e.kind == "store" and e.target is not None and e.target != cache:
                            root = e.target
                        elif e.kind == "call" and e.attrname in MUTATORS and e.recv is not None and not e.targets \
                                and e.raised is None:  # a mutator that raised changed nothing
                            root = e.recv
                        if root is None:
                            continue
                        # the access chain of the changed container, not its keys
                        cur = root
                        while cur[0] in ("item", "slice"):
                            cur = cur[1]
                        if cur[0] == "attr" and cur[1] == me and cur[2] in sources:
                            muts.append((e, cur[2]))
                    if not muts:
                        continue
                    sites += 1
                    if not any(e.kind == "store" and e.target == cache for e in p.events):
                        bad = bad or (muts[0], p)
                if bad is not None:
                    (e, X), p = bad
                    run.ob(rule, f"{fi.qual}:changes-{X}-resets-{A}", False, loc(fi, e.node),
                           f"{fi.name} changes self.{X} on the path [{p.describe()[:70]}] without resetting self.{A}, which {getter.name}() "
                           f"answers from once filled: later answers are computed from the old self.{X}")
            # one summary obligation per cache when every changing path resets it
            if not any(o.rule == rule and not o.ok and f"-resets-{A}" in o.construct for o in run.obs):
                run.ob(rule, f"{getter.qual}:cache-{A}-reset-by-every-change", True, loc(getter),
                       f"{getter.name}() answers from self.{A} (derived from {sorted(sources)}); every path that changes a source resets it")
    run.note(f"{rule}: derived-state caches searched in {list(classes)} ({looked} methods)")
