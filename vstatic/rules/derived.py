"""Derived-state coherence, shared by the properties whose statement is about "the current" set of something.

A method that answers from a cached attribute (``if self.A is not None: return self.A`` ... ``self.A = f(self.X)``)
makes A a function of X that is only recomputed on demand.  The answer is current only if every change of X also
resets (or recomputes) A.  The rule finds such getters in a class from the shape of their paths, collects the
attributes the fill path reads, and demands of every path of every function that changes one of them that it also
stores A.  On a tree without such caches the rule has no instance (it reports how many getters it looked at).
"""
from __future__ import annotations

import typing as t

from ..effects import MUTATORS
from ..facts import AnalysisError
from ..terms import contains, show, strip_sites, subterms
from ..util import NoInline, engine, implied_atoms, loc


def _self_attrs(tm, me) -> t.Set[str]:
    return {s[2] for s in subterms(tm) if s[0] == "attr" and s[1] == me}


def _event_terms(e):
    for x in (e.fterm, e.recv, e.target, e.value, e.result):
        if isinstance(x, tuple):
            yield x
    for a in (e.args or ()):
        if isinstance(a, tuple):
            yield a
    for _, a in (e.kwargs or ()):
        if isinstance(a, tuple):
            yield a


def find_caches(prog, eng, cq: str):
    """-> [(getter FuncInfo, cache attribute, {source attributes})]"""
    me = ("self", cq)
    ci = prog.cls(cq)
    out = []
    for name, fi in sorted(ci.methods.items()):
        if fi.kind not in ("method", "property") or name == "__init__" or fi.is_async:
            continue
        try:
            paths = eng.paths(fi, recv=cq)
        except AnalysisError:
            continue
        hit_attrs = set()
        for p in paths:
            if not p.returns():
                continue
            rv = p.retval()
            if rv is not None and rv[0] == "attr" and rv[1] == me and not any(e.kind == "store" and e.target == rv for e in p.events):
                # answered from the attribute, on a path that tested it
                if any(contains(c, lambda s, rv=rv: s == rv) for c, _ in implied_atoms(p.conds)):
                    hit_attrs.add(rv[2])
        for A in sorted(hit_attrs):
            cache = ("attr", me, A)
            sources: t.Set[str] = set()
            filled = False
            for p in paths:
                st = [e for e in p.events if e.kind == "store" and e.target == cache]
                if not st or not p.returns():
                    continue
                filled = True
                for e in p.events:
                    if e.seq > st[-1].seq:
                        break
                    for tm in _event_terms(e):
                        sources |= _self_attrs(tm, me)
                for c, _, _, _ in p.conds:
                    sources |= _self_attrs(c, me)
            sources.discard(A)
            sources = {x for x in sources if prog.lookup_method(cq, x) is None and x not in ("log",)}
            if filled and sources:
                out.append((fi, A, sources))
    return out


def cache_coherence(run, prog, rule: str, classes: t.Sequence[str]):
    eng = engine(prog, NoInline())
    looked = 0
    for cq in classes:
        ci = prog.classes.get(cq)
        if ci is None:
            raise AnalysisError(f"{cq} has vanished")
        me = ("self", cq)
        caches = find_caches(prog, eng, cq)
        looked += len(ci.methods)
        for getter, A, sources in caches:
            cache = ("attr", me, A)
            sites = 0
            for name, fi in sorted(ci.methods.items()):
                if fi is getter or name == "__init__" or eng.is_unknown_helper(fi):
                    continue  # (an extracted helper is analysed in place inside the methods that call it)
                try:
                    paths = eng.paths(fi, recv=cq)
                except AnalysisError:
                    continue
                bad = None
                for p in paths:
                    muts = []
                    for e in p.events:
                        root = None
                        if e.kind == "store" and e.target is not None and e.target != cache:
                            root = e.target
                        elif e.kind == "call" and e.attrname in MUTATORS and e.recv is not None and not e.targets \
                                and e.raised is None:  # a mutator that raised changed nothing
                            root = e.recv
                        if root is None:
                            continue
                        # the access chain of the changed container, not its keys
                        cur = root
                        while cur[0] in ("item", "slice"):
                            cur = cur[1]
                        if cur[0] == "attr" and cur[1] == me and cur[2] in sources:
                            muts.append((e, cur[2]))
                    if not muts:
                        continue
                    sites += 1
                    if not any(e.kind == "store" and e.target == cache for e in p.events):
                        bad = bad or (muts[0], p)
                if bad is not None:
                    (e, X), p = bad
                    run.ob(rule, f"{fi.qual}:changes-{X}-resets-{A}", False, loc(fi, e.node),
                           f"{fi.name} changes self.{X} on the path [{p.describe()[:70]}] without resetting self.{A}, which {getter.name}() "
                           f"answers from once filled: later answers are computed from the old self.{X}")
            # one summary obligation per cache when every changing path resets it
            if not any(o.rule == rule and not o.ok and f"-resets-{A}" in o.construct for o in run.obs):
                run.ob(rule, f"{getter.qual}:cache-{A}-reset-by-every-change", True, loc(getter),
                       f"{getter.name}() answers from self.{A} (derived from {sorted(sources)}); every path that changes a source resets it")
    run.note(f"{rule}: derived-state caches searched in {list(classes)} ({looked} methods)")


# ------------------------------------------------------------------------------------------------------------------
def _termination_context(fn_node, node) -> bool:
    """is `node` lexically inside an except clause that can see a cancellation, or inside a finally block, of fn_node?"""
    import ast
    def search(body, inside):
        for st in body:
            if st is node or any(x is node for x in ast.walk(st)):
                if isinstance(st, ast.Try):
                    for h in st.handlers:
                        if any(x is node for b in h.body for x in ast.walk(b)):
                            t_ = ast.unparse(h.type) if h.type is not None else "BaseException"
                            if any(k in t_ for k in ("CancelledError", "BaseException")) or h.type is None:
                                return True
                            return search(h.body, inside)
                    if any(x is node for b in st.finalbody for x in ast.walk(b)):
                        return True
                    for blk in (st.body, st.orelse):
                        if any(x is node for b in blk for x in ast.walk(b)):
                            return search(blk, inside)
                for field in ("body", "orelse"):
                    blk = getattr(st, field, None)
                    if isinstance(blk, list) and any(x is node for b in blk if isinstance(b, ast.AST) for x in ast.walk(b)):
                        return search(blk, inside)
                return inside
        return inside
    return search(fn_node.body, False)


def lifecycle_owner(run, prog, scan, rule: str, cq: str, start: str = "start", stop: str = "stop"):
    """Generation discipline of a start()/stop() object.

    The attributes that both start() and stop() assign (the running flag, the task handle) describe the *current*
    generation of the object.  Code that runs when a generation ends - the except CancelledError / finally part of the
    task start() created, a done-callback, a timer callback - can run after stop() and a new start().  If it assigns
    one of these attributes a value other than the one stop() *and* start() leave there, it overwrites the state of a
    generation it does not belong to (the new run is marked stopped, the new task handle is lost; the next stop()
    returns early and cancels / withdraws nothing).  Allowed: re-asserting the value both start() and stop() assign, or
    assigning on a path that compared the handle the continuation was started for with the current one."""
    me = ("self", cq)
    ci = prog.cls(cq)
    sfi, pfi = prog.lookup_method(cq, start), prog.lookup_method(cq, stop)
    if sfi is None or pfi is None:
        raise AnalysisError(f"{cq}: {start}() / {stop}() vanished")

    ceng = engine(prog, NoInline())
    ceng.policy.cancel_at_await = True  # a task can be cancelled at every await
    cpaths = {}

    def stores_of(q):
        out = {}
        f_ = prog.functions.get(q)
        if f_ is not None and f_.is_async:
            if q not in cpaths:
                cpaths[q] = ceng.paths(f_, recv=cq)
                run.paths += len(cpaths[q])
            ps = cpaths[q]
        else:
            ps = scan.paths.get((q, cq), [])
        for p in ps:
            for e in p.events:
                if e.kind == "store" and e.target is not None and e.target[0] == "attr" and e.target[1] == me:
                    out.setdefault(e.target[2], []).append((p, e))
        return out
    s_st, p_st = stores_of(sfi.qual), stores_of(pfi.qual)
    owned = sorted(set(s_st) & set(p_st))
    run.floor(f"{rule}-generation-attributes[{cq}]", len(owned), 1)

    def last_values(sts):
        return {strip_sites(e.value) for _, e in sts if isinstance(e.value, tuple)}
    # continuations: coroutines of the class and methods handed over as callbacks
    deferred = {}
    for name, fi in sorted(ci.methods.items()):
        if fi.is_async and name not in (start, stop):
            deferred[fi.qual] = (fi, "coroutine")
    for (q, r), ps in scan.paths.items():
        for p in ps:
            for e in p.events:
                if e.kind != "call":
                    continue
                cands = []
                if e.sched and e.cb is not None:
                    cands.append(e.cb)
                if e.attrname in ("add_done_callback", "call_soon", "call_later", "call_at", "call_soon_threadsafe"):
                    cands += [a for a in (e.args or ()) if isinstance(a, tuple)]
                for cb in cands:
                    if cb[0] == "bound" and isinstance(cb[-1], str):
                        f = prog.functions.get(cb[-1])
                        if f is not None and f.cls is not None and prog.is_subclass(cq, f.cls.qual) and f.name not in (start, stop, "__init__") \
                                and f.qual not in deferred and not f.is_async:
                            deferred[f.qual] = (f, "callback")
    bad = []
    n = 0
    for q, (fi, how) in sorted(deferred.items()):
        for A, sts in sorted(stores_of(q).items()):
            if A not in owned:
                continue
            for p, e in sts:
                host = e.func if e.func is not None else fi
                if how == "coroutine" and not _termination_context(host.node, e.node):
                    continue  # runs only while the task is live
                n += 1
                both = last_values(s_st[A]) | last_values(p_st[A])
                if len(both) == 1 and isinstance(e.value, tuple) and strip_sites(e.value) in both:
                    continue  # re-asserts what start() and stop() both leave there
                guarded = any(c[0] == "cmp" and c[1] in ("is", "is not", "==", "!=") and
                              any(x[0] == "attr" and x[1] == me and x[2] in owned for x in (c[2], c[3])) and
                              not any(x == ("const", None) for x in (c[2], c[3])) for c, _v, _, _ in p.conds)
                if not guarded:
                    bad.append((fi, how, A, e))
    # ... nor does the ending generation *decide* on them: what it reads there is the state of whoever is current by then
    stale = []
    for q, (fi, how) in sorted(deferred.items()):
        if how != "coroutine":
            continue
        stores_of(q)
        for p in cpaths.get(q, []):
            for c, v, stmt, cfi in p.conds:
                host = cfi if cfi is not None else fi
                if stmt is None or not hasattr(host, "node") or not _termination_context(host.node, stmt):
                    continue
                reads = sorted({x[2] for x in subterms(c) if x[0] == "attr" and x[1] == me and x[2] in owned})
                if not reads:
                    continue
                n += 1
                if c[0] == "cmp" and c[1] in ("is", "is not", "==", "!=") and not any(x == ("const", None) for x in (c[2], c[3])):
                    continue  # compares the current handle with its own
                stale.append((fi, reads[0], c, stmt))
    seen_s = set()
    for fi, A, c, stmt in stale:
        if (fi.qual, A) in seen_s:
            continue
        seen_s.add((fi.qual, A))
        run.ob(rule, f"{fi.qual}:decides-on-generation-state[{A}]", False, loc(fi, stmt),
               f"{fi.name} decides on {show(c)[:60]} while its task is being cancelled / ending; self.{A} belongs to {start}() / {stop}(): "
               f"after a {stop}() / {start}() pair the ending run reads the state of the new one (and e.g. skips the StopOffer of the run that ended)")
    # ... and a generation is begun by the owner of the object only: a method of the class that calls its own start()
    # (from a notification, a callback, a handler) begins runs nobody asked for - with their whole announcement / find
    # sequence - and the owner's stop() then ends only the last of them
    selfstart = []
    for cfi, _r, ce_ in scan.callers_of(sfi.qual):
        if cfi.cls is not None and prog.is_subclass(cq, cfi.cls.qual) and cfi.name not in (start, "__init__") \
                and ce_.recv == me:
            selfstart.append((cfi, ce_))
    for cfi, ce_ in selfstart[:1]:
        run.ob(rule, f"{cfi.qual}:restarts-itself", False, loc(cfi, ce_.node),
               f"{cfi.name} calls self.{start}(): a new run (task, announcement / find sequence) is begun from inside the object, "
               f"not by its owner - more rounds are sent than one {start}() allows")
    bad_any = bool(bad) or bool(stale) or bool(selfstart)
    seen = set()
    for fi, how, A, e in bad:
        key = (fi.qual, A)
        if key in seen:
            continue
        seen.add(key)
        where = "when its task is cancelled / ends" if how == "coroutine" else "when it is called back"
        run.ob(rule, f"{fi.qual}:assigns-generation-state[{A}]", False, loc(fi, e.node),
               f"{fi.name} (a {how} of {cq.split('.')[-1]}) assigns self.{A} = {show(e.value)[:40] if isinstance(e.value, tuple) else '?'} {where}; "
               f"{start}() and {stop}() own that attribute: after a {stop}() / {start}() pair the assignment lands in the new generation "
               f"(the next {stop}() then sees a stopped object / no task and cancels or withdraws nothing)")
    if not bad_any:
        run.ob(rule, f"{cq}:generation-state-owned-by-{start}-{stop}", True, loc(sfi),
               f"{owned} are owned by {start}()/{stop}(); {len(deferred)} continuation(s) of the class "
               f"({', '.join(sorted(f.name for f, _ in deferred.values())) or '-'}) assign them at most the value both leave there "
               f"({n} assignment(s) in termination context looked at)")
    return owned
