"""C19 - service and eventgroup matching obeys the wildcard laws.

W0  side condition: id/version fields occur only in ==/!= with the homologous field or a literal
W1  decision tables of matches_offer / matches_find / matches_subscribe / matches_service on the
    complete equality-partition domain {wildcard, c1, c2} per field and side == the statement's oracle;
    the laws (symmetry, monotonicity under wildcarding, find/offer duality) are checked on the tables
W2  wildcard literals == all-ones of the field's wire width == Service defaults
W3  conversion tables: create_offer_entry / from_offer_entry / create_find_entry / as_service /
    for_service copy exactly the fields the statement names
"""
from __future__ import annotations

import ast
import itertools

from ..absint import comparison_only, constants_compared, eval_term, path_matches
from ..facts import AnalysisError
from ..sym import EnumVal, enum_members
from ..terms import const, contains, is_const, show, strip_sites, subterms
from ..util import InlineOnly, NoInline, P, engine, loc, param_at

SERVICE = "config.Service"
EVENTGROUP = "config.Eventgroup"
ENTRY = "header.SOMEIPSDEntry"
FIELDS = ("service_id", "instance_id", "major_version", "minor_version")
WILD = {"service_id": None, "instance_id": 0xFFFF, "major_version": 0xFF, "minor_version": 0xFFFFFFFF}
ENTRY_FIELD = {"service_id": "service_id", "instance_id": "instance_id", "major_version": "major_version",
               "minor_version": "minver_or_counter"}


def _oracle(kind, a, b, extra=None):
    """a = the description the method is called on, b = the entry / other description"""
    if a["service_id"] != b["service_id"]:
        return False
    fields = ("instance_id", "major_version") if kind == "subscribe" else ("instance_id", "major_version", "minor_version")
    for f in fields:
        w = WILD[f]
        if kind in ("offer", "subscribe"):
            ok = a[f] == w or a[f] == b[f]
        elif kind == "find":
            ok = b[f] == w or a[f] == b[f]
        else:
            ok = a[f] == w or b[f] == w or a[f] == b[f]
        if not ok:
            return False
    if kind == "subscribe":
        return extra["egid"] in extra["declared"]
    return True


def _table(run, prog, eng, fname, kind):
    fi = prog.lookup_method(SERVICE, fname)
    if fi is None:
        raise AnalysisError(f"{SERVICE}.{fname} has vanished")
    run.analysed(fi)
    other = P(fi, param_at(fi, 0, "entry/other"))
    me = ("self", SERVICE)
    paths = eng.paths(fi, recv=SERVICE)
    run.paths += len(paths)
    is_entry = kind != "service"
    tname = {"offer": "OfferService", "find": "FindService", "subscribe": "Subscribe"}.get(kind)
    tval = enum_members(prog, "header.SOMEIPSDEntryType")[tname] if tname else None

    def field_of(tm):
        if tm[0] == "attr" and tm[1] == me and tm[2] in FIELDS:
            return ("a", tm[2])
        if tm[0] == "attr" and tm[1] == other:
            if is_entry:
                for k, v in ENTRY_FIELD.items():
                    if tm[2] == v:
                        return ("b", k)
            elif tm[2] in FIELDS:
                return ("b", tm[2])
        return None

    def is_input(tm):
        return field_of(tm) is not None

    conds = [c for p in paths for c, _, _, _ in p.conds] + [p.retval() for p in paths if p.returns() and p.retval() is not None]
    # W0 --------------------------------------------------------------------
    offending = comparison_only(conds, is_input, allowed_ops=("==", "!=", "is", "is not", "in", "not in"))
    if kind == "subscribe":
        # eventgroup id/counter share one wire field; only `<eventgroup id> in <declared set>` may look at it
        offending = [o for o in offending if "minver_or_counter" not in o]
    # homologous: a comparison between two inputs must compare the same field
    for tm in conds:
        for s in subterms(tm):
            if s[0] == "cmp":
                fa, fb = field_of(s[2]), field_of(s[3])
                if fa and fb and fa[1] != fb[1]:
                    offending.append(f"{show(s)} compares different fields")
    run.ob("W0", f"{fi.qual}:comparison-only", not offending, loc(fi),
           "id/version fields are only compared for (in)equality with their counterpart or a literal"
           if not offending else f"fields used outside plain (in)equality tests: {offending[:3]}")
    consts = set()
    fconsts = {}
    for f in FIELDS:
        fconsts[f] = constants_compared(conds, lambda tm, f=f: field_of(tm) is not None and field_of(tm)[1] == f)
        for tm in conds:  # literals inside `field in (a, b)` tests
            for s_ in subterms(tm):
                if s_[0] == "cmp" and s_[1] in ("in", "not in") and field_of(s_[2]) and field_of(s_[2])[1] == f \
                        and s_[3][0] in ("tuple", "list", "set"):
                    fconsts[f] |= {x[1] for x in s_[3][1] if is_const(x) and isinstance(x[1], int)}
        consts |= fconsts[f]
    # domain: the wildcard literal, two fresh concrete values, and every other literal the code
    # compares this field with (a second, undocumented "wildcard" would otherwise go unnoticed)
    # a field whose *truth value* the code consults (`x or DEFAULT`, `if not x`) has one more class: 0, a legal concrete id
    truthy = set()
    for tm in conds:
        for s_ in [tm] + list(subterms(tm)):
            ops = ()
            if s_[0] == "bool":
                ops = s_[2]
            elif s_[0] == "unop" and s_[1] == "not":
                ops = (s_[2],)
            elif s_ is tm:
                ops = (s_,)
            for o in ops:
                fo = field_of(o) if isinstance(o, tuple) else None
                if fo:
                    truthy.add(fo[1])
    dom = {}
    for f in FIELDS:
        w = WILD[f] if WILD[f] is not None else 0xFFFF
        cs = [c for c in (1, 2, 3, 5, 7) if c not in consts][:2]
        dom[f] = [w] + cs + sorted(c for c in fconsts[f] if c != w)[:2] + ([0] if f in truthy else [])
    egid, declared = 0x0A, frozenset({0x0A, 0x0B})
    cases = bad = 0
    table = {}
    fields = FIELDS if kind != "subscribe" else FIELDS[:3]
    # anything else of the two operands the decision consults (an entry's TTL, a flag of the description ...) is a
    # free dimension: the law must hold for every value of it, in particular for the literals the code compares it with
    foreign = []
    for tm in conds:
        for s_ in subterms(tm):
            if s_[0] == "attr" and s_[1] in (me, other) and field_of(s_) is None and s_ != ("attr", other, "sd_type") \
                    and s_ != ("attr", me, "eventgroups") and s_ not in foreign and not (s_[1] == me and prog.lookup_method(SERVICE, s_[2])):
                foreign.append(s_)
    if len(foreign) > 2:
        raise AnalysisError(f"{fi.qual}: decision consults {[show(f) for f in foreign]}, outside the matching abstraction")
    fdom = []
    for F in foreign:
        cs = sorted(c for c in constants_compared(conds, lambda tm, F=F: tm == F) if isinstance(c, int))[:3]
        fresh = next(v for v in (0x2B, 0x2C, 0x2D, 0x2E) if v not in cs)
        fdom.append(cs + [fresh])
    for av, fvals in itertools.product(itertools.product(*[dom[f] for f in FIELDS]), itertools.product(*fdom)):
        a = dict(zip(FIELDS, av))
        fmap = dict(zip(foreign, fvals))
        for bv in itertools.product(*[dom[f] for f in fields]):
            b = dict(zip(fields, bv))
            for eg in ((egid, 0x0C) if kind == "subscribe" else (None,)):
                cases += 1

                def leaf(tm, a=a, b=b, eg=eg, fmap=fmap):
                    if tm in fmap:
                        return fmap[tm]
                    fo = field_of(tm)
                    if fo is not None:
                        if kind == "subscribe" and fo == ("b", "minor_version"):
                            return (3 << 16) | eg
                        return (a if fo[0] == "a" else b)[fo[1]]
                    if tm == ("attr", other, "sd_type"):
                        return tval
                    if tm == ("attr", me, "eventgroups"):
                        return declared
                    raise AnalysisError(f"{fi.qual}: decision depends on {show(tm)}, outside the matching abstraction")

                hits = [p for p in paths if path_matches(p, leaf)]
                if len(hits) != 1:
                    raise AnalysisError(f"{fi.qual}: {len(hits)} paths match one abstract case")
                p = hits[0]
                if not p.returns():
                    got = f"raises {p.outcome[1]}"
                    gv = None
                else:
                    gv = bool(eval_term(p.retval(), leaf))
                    got = str(gv)
                want = _oracle(kind, a, b, {"egid": eg, "declared": declared})
                if gv == want or (av, bv, eg) not in table:
                    table[(av, bv, eg)] = gv
                if gv != want:
                    table[(av, bv, eg)] = gv
                    bad += 1
                    if bad <= 3:
                        diff = [f for f in fields if a[f] != b[f]]
                        run.ob("W1", f"{fi.qual}:case(differs={','.join(diff) or 'none'};wild-self={[f for f in fields if a[f] == WILD[f]]};wild-other={[f for f in fields if b[f] == WILD[f]]})",
                               False, loc(fi),
                               f"self={ {k: hex(v) for k, v in a.items()} } other={ {k: hex(v) for k, v in b.items()} }"
                               + "".join(f" {show(k)}={v:#x}" for k, v in fmap.items())
                               + (f" eventgroup={eg:#x} declared={sorted(declared)}" if eg is not None else "")
                               + f": {fname} gives {got}, the wildcard law demands {want}")
    run.abstract_cases += cases
    if not bad:
        run.ob("W1", f"{fi.qual}:decision-table", True, loc(fi),
               f"{cases} abstract operand pairs (3 classes per field and side) agree with the oracle for '{kind}'")
    return fi, table, dom


def _new_fields(tm, cls):
    if tm is None or tm[0] != "new" or tm[1] != cls:
        return None
    return dict(tm[2])


def _unwrap_tuple(tm):
    if tm is not None and tm[0] == "call" and tm[1] in (("ext", "tuple"), ("ext", "list")) and len(tm[2]) == 1:
        return tm[2][0]
    return tm


def check(run, prog, tier):
    from . import model as _model
    _model.audit(run, prog, 'C19')
    run.explanation = (
        "The matching predicates are loop-free; their path sets are enumerated (properties of the entry "
        "inlined) and every branch condition kept as a formula over the id/version fields.  W0 establishes "
        "syntactically that fields are only tested for (in)equality against their counterpart or a literal, "
        "so three classes per field and side {wildcard literal, c1, c2} are an exact partition; every one of "
        "the 3^4 x 3^4 operand pairs is evaluated on the formulas and compared with the oracle written from "
        "the statement.  Conversions are decided as field-mapping tables extracted from the constructor "
        "calls they return."
    )
    run.trusted += ["dataclass construction stores arguments unchanged", "IntEnum members compare by value"]
    eng = engine(prog, InlineOnly(names=(), props=True, max_depth=3))
    tabs = {}
    for fname, kind in (("matches_offer", "offer"), ("matches_find", "find"),
                        ("matches_subscribe", "subscribe"), ("matches_service", "service")):
        tabs[kind] = _table(run, prog, eng, fname, kind)
    run.exhaustive = True

    # laws on the extracted tables (redundant with the oracle when W1 holds; reported separately)
    _, ts, dom = tabs["service"]
    sym_bad = [(a, b) for (a, b, _), v in ts.items() if ts.get((b, a, None)) != v]
    run.ob("W1", f"{SERVICE}.matches_service:symmetry", not sym_bad, loc(tabs["service"][0]),
           "description-to-description matching is symmetric on all abstract pairs" if not sym_bad
           else f"matches_service(a,b) != matches_service(b,a) for a={sym_bad[0][0]} b={sym_bad[0][1]}")
    _, to, _ = tabs["offer"]
    _, tf, _ = tabs["find"]
    mono_bad = []
    for (a, b, _), v in to.items():
        if v:
            for i, f in enumerate(FIELDS[1:], 1):
                a2 = a[:i] + (WILD[f],) + a[i + 1:]
                if to.get((a2, b, None)) is False:
                    mono_bad.append((a, a2, b))
    run.ob("W1", f"{SERVICE}.matches_offer:monotone-under-wildcarding", not mono_bad, loc(tabs["offer"][0]),
           "replacing a filter field by its wildcard never loses a match" if not mono_bad
           else f"filter {mono_bad[0][0]} matches {mono_bad[0][2]} but wildcarded {mono_bad[0][1]} does not")
    dual_bad = [(a, b) for (a, b, _), v in to.items() if tf.get((b, a, None)) != v]
    run.ob("W1", f"{SERVICE}:find-offer-duality", not dual_bad, loc(tabs["find"][0]),
           "s.matches_find(entry of f) == f.matches_offer(entry of s) on all abstract pairs" if not dual_bad
           else f"duality fails for filter={dual_bad[0][0]} service={dual_bad[0][1]}")

    # ------------------------------------------------------------------ W2 literals / widths / defaults
    import struct as _struct  # only the format table of the *analyser's* python, no repo code involved
    eci = prog.cls(ENTRY)
    fmt_node = eci.consts.get("__format")
    fmt = None
    if isinstance(fmt_node, ast.Call) and fmt_node.args and isinstance(fmt_node.args[0], ast.Constant):
        fmt = fmt_node.args[0].value
    if fmt is None:
        raise AnalysisError(f"{ENTRY}: wire format literal not found")
    codes = [c for c in fmt if c.isalpha()]
    width = {"B": 8, "H": 16, "I": 32, "L": 32, "Q": 64}
    # wire positions of the id fields in the SD entry: service(4) instance(5) major(6) minor(9)
    pos = {"instance_id": 5, "major_version": 6, "minor_version": 9}
    for f, i in pos.items():
        ok = i < len(codes) and codes[i] in width and WILD[f] == (1 << width[codes[i]]) - 1
        run.ob("W2", f"{ENTRY}:{f}-width", ok, loc(eci.methods.get("build") or eci.methods["parse"]),
               f"wildcard {WILD[f]:#x} is the all-ones value of the {width.get(codes[i], '?')}-bit wire field" if ok
               else f"wire field #{i} has code {codes[i] if i < len(codes) else '?'}; wildcard {WILD[f]:#x} is not its all-ones value")
        fld = prog.lookup_field(SERVICE, f)
        dflt = None
        if fld is not None and fld.default is not None:
            dv = eng._eval_in_class(fld.default, SERVICE)  # a literal or a (module) constant name
            dflt = dv[1] if is_const(dv) else None
        run.ob("W2", f"{SERVICE}:{f}-default", dflt == WILD[f], loc(prog.cls(SERVICE).methods["matches_offer"], fld.node if fld else None),
               f"default of Service.{f} is {dflt!r}; the wildcard is {WILD[f]:#x}")

    # ------------------------------------------------------------------ W3 conversions
    engc = engine(prog, InlineOnly(names=(), props=True, max_depth=2))
    me = ("self", SERVICE)
    et = enum_members(prog, "header.SOMEIPSDEntryType")

    def single_return(fi, recv):
        ps = [p for p in engc.paths(fi, recv=recv) if p.returns()]
        run.paths += len(ps)
        return ps

    # create_offer_entry / create_find_entry
    for fname, tname, with_opts in (("create_offer_entry", "OfferService", True), ("create_find_entry", "FindService", False)):
        fi = prog.lookup_method(SERVICE, fname)
        if fi is None:
            raise AnalysisError(f"{SERVICE}.{fname} has vanished")
        run.analysed(fi)
        ps = single_return(fi, SERVICE)
        ttl = P(fi, param_at(fi, 0, "ttl"))
        for p in ps:
            d = _new_fields(p.retval(), ENTRY)
            if d is None:
                raise AnalysisError(f"{fi.qual}: does not return a constructed SD entry")
            want = {"sd_type": const(et[tname]), "service_id": ("attr", me, "service_id"),
                    "instance_id": ("attr", me, "instance_id"), "major_version": ("attr", me, "major_version"),
                    "ttl": ttl, "minver_or_counter": ("attr", me, "minor_version")}
            for k, w in want.items():
                run.ob("W3", f"{fi.qual}:{k}", d.get(k) == w, loc(fi), f"entry.{k} = {show(d.get(k)) if d.get(k) else 'default'}; expected {show(w)}")
            for o in ("options_1", "options_2"):
                got = _unwrap_tuple(d.get(o))
                if with_opts:
                    run.ob("W3", f"{fi.qual}:{o}", got == ("attr", me, o), loc(fi), f"entry.{o} = {show(got) if got else 'default ()'}; expected the description's {o}")
                else:
                    run.ob("W3", f"{fi.qual}:{o}", got is None or got == ("tuple", ()), loc(fi), f"find entries carry no options (got {show(got) if got else '()'})")
            extra = set(d) - set(want) - {"options_1", "options_2"}
            run.ob("W3", f"{fi.qual}:no-raw-indexes", not extra, loc(fi), f"unexpected fields set: {sorted(extra)}" if extra else "no index/count fields preset")

    # from_offer_entry
    fi = prog.lookup_method(SERVICE, "from_offer_entry")
    if fi is None:
        raise AnalysisError(f"{SERVICE}.from_offer_entry has vanished")
    run.analysed(fi)
    ent = P(fi, param_at(fi, 0, "entry"))
    ok_paths = 0
    for p in single_return(fi, SERVICE):
        d = _new_fields(p.retval(), SERVICE)
        if d is None:
            raise AnalysisError(f"{fi.qual}: does not return a constructed Service")
        ok_paths += 1
        want = {"service_id": ("attr", ent, "service_id"), "instance_id": ("attr", ent, "instance_id"),
                "major_version": ("attr", ent, "major_version"), "minor_version": ("attr", ent, "minver_or_counter")}
        for k, w in want.items():
            run.ob("W3", f"{fi.qual}:{k}", d.get(k) == w, loc(fi), f"Service.{k} = {show(d.get(k)) if d.get(k) else 'default'}; expected {show(w)}")
        for o in ("options_1", "options_2"):
            got = _unwrap_tuple(d.get(o))
            run.ob("W3", f"{fi.qual}:{o}", got == ("attr", ent, o), loc(fi), f"Service.{o} = {show(got) if got else 'default ()'}; expected the entry's {o}")
        run.ob("W3", f"{fi.qual}:eventgroups", "eventgroups" not in d or d["eventgroups"] == ("call", ("ext", "frozenset"), (), ()), loc(fi), "eventgroups not derived from an offer", nontrivial=False)
    run.floor("W3-from_offer", ok_paths, 1)

    # as_service
    fi = prog.lookup_method(EVENTGROUP, "as_service")
    if fi is None:
        raise AnalysisError(f"{EVENTGROUP}.as_service has vanished")
    run.analysed(fi)
    eg = ("self", EVENTGROUP)
    for p in single_return(fi, EVENTGROUP):
        d = _new_fields(p.retval(), SERVICE)
        if d is None:
            raise AnalysisError(f"{fi.qual}: does not return a constructed Service")
        for k in ("service_id", "instance_id", "major_version"):
            run.ob("W3", f"{fi.qual}:{k}", d.get(k) == ("attr", eg, k), loc(fi), f"Service.{k} = {show(d.get(k)) if d.get(k) else 'default'}")
        run.ob("W3", f"{fi.qual}:minor-wildcard", "minor_version" not in d or d["minor_version"] == const(0xFFFFFFFF), loc(fi),
               "an eventgroup filter does not constrain the minor version")

    # for_service
    fi = prog.lookup_method(EVENTGROUP, "for_service")
    if fi is None:
        raise AnalysisError(f"{EVENTGROUP}.for_service has vanished")
    run.analysed(fi)
    engn = engine(prog, NoInline())
    svc = P(fi, param_at(fi, 0, "service"))
    mo = prog.lookup_method(SERVICE, "matches_offer").qual
    asv = prog.lookup_method(EVENTGROUP, "as_service").qual
    coe = prog.lookup_method(SERVICE, "create_offer_entry").qual
    ps = engn.paths(fi, recv=EVENTGROUP)
    run.paths += len(ps)
    seen_none = seen_spec = False
    for p in ps:
        if not p.returns():
            run.ob("W3", f"{fi.qual}:total", False, loc(fi), f"for_service may raise {p.outcome[1]}")
            continue
        # the deciding condition must be  as_service().matches_offer(service.create_offer_entry())
        decided = None
        for c, v, _, _ in p.conds:
            pos_ = c
            val = v
            if pos_[0] == "unop" and pos_[1] == "not":
                pos_, val = pos_[2], not v
            if pos_[0] == "call" and pos_[1][0] == "bound" and pos_[1][2] == mo:
                recv, args = pos_[1][1], pos_[2]
                good = (recv[0] == "call" and recv[1] == ("bound", eg, asv)) and len(args) == 1 and args[0][0] == "call" \
                    and args[0][1] == ("bound", svc, coe) and not args[0][2] and not [k for k in args[0][3] if k[0] != "ttl"]
                if good:
                    decided = val
        rv = p.retval()
        if decided is None:
            run.ob("W3", f"{fi.qual}:decided-by-offer-match", False, loc(fi),
                   f"path [{p.describe()[:90]}] is not decided by 'the filter accepts the service's offer entry'")
            continue
        if decided is False:
            seen_none = True
            run.ob("W3", f"{fi.qual}:no-match->None", rv == const(None), loc(fi), f"returns {show(rv)} when the filter rejects the offer (must be None)")
        else:
            seen_spec = True
            ok = rv[0] == "replace" and rv[1] == eg and dict(rv[2]) == {"instance_id": ("attr", svc, "instance_id"), "major_version": ("attr", svc, "major_version")}
            run.ob("W3", f"{fi.qual}:match->specialised", ok, loc(fi),
                   f"returns {show(rv)}; must be this eventgroup with exactly instance_id and major_version taken from the service")
    run.ob("W3", f"{fi.qual}:both-outcomes", seen_none and seen_spec, loc(fi), "for_service has a rejecting and a specialising outcome")
