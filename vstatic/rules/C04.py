"""C04 - two SD stacks converge (structural clauses only).

The convergence bound 'within one TTL plus one cyclic period after any fault sequence' is a liveness
statement over time and fault schedules: NOT decided here.  Decided are necessary conditions whose
violation breaks convergence:

S1  end-to-end skeleton: must-reach obligations over the resolved call graph (through stored callbacks and
    scheduling edges) from each stimulus to the effect that makes the peers converge
S2  pairing-key agreement of the auto-subscriber: 'offered' and 'stopped' compute the same
    (eventgroup, server) key, so the removal finds what the addition stored
S3  reboot handling of a message precedes the handling of that message's entries (discovery and announcer),
    and store changes are reported atomically
S4  (TTL, period) wiring: offers carry ANNOUNCE_TTL and repeat every CYCLIC_OFFER_DELAY, subscribes carry
    SUBSCRIBE_TTL and repeat every SUBSCRIBE_REFRESH_INTERVAL
S5  reboot evidence is recognised exactly (the decision table, key and fan-out rules of C07): an unrecognised
    restart leaves stale state that, with infinite TTLs, never converges
"""
from __future__ import annotations

from .. import report
from ..facts import AnalysisError
from ..terms import show, strip_sites
from ..util import NoInline, P, calls_to, engine, loc, param_at
from .ordering import PROTO, TS, Ctx, atomic_notifications, reboot_before_entries

AUTO = "sd.AutoSubscribeServiceListener"
INST = "sd.ServiceInstance"
SUBS = "sd.ServiceSubscriber"
DISC = "sd.ServiceDiscover"
ANN = "sd.ServiceAnnouncer"


def check(run, prog, tier):
    from . import model as _model
    _model.audit(run, prog, 'C04')
    run.explanation = (
        "Convergence time is not statically decidable and is not claimed.  What is decided: (S1) every link of "
        "the chain offer -> discovery notification -> auto-subscribe -> Subscribe -> server notification -> Ack, "
        "the periodic re-transmissions and every withdrawal path (TTL expiry, reboot, stop, connection loss) "
        "exists in the resolved call graph including stored callbacks and call_soon/create_task edges; (S2) the "
        "auto-subscriber adds and removes under the same key; (S3) the first message of a restarted peer is "
        "processed reboot-first (deferral stamps) and store changes are reported atomically; (S4) TTLs and "
        "periods are wired to the matching timing constants.  Each is a necessary condition of convergence."
    )
    run.trusted += ["asyncio ready queue is FIFO", "datagrams that are delivered are processed by datagram_received"]
    run.not_decided += ["the convergence-time bound (one TTL plus one cyclic period) and behaviour under loss / duplication / reordering windows"]
    cx = Ctx(run, prog)
    # S12: the subscribe rounds and the offered-service lookup answer from the current sets: a memo derived from the requested
    # set (or from the found services) is reset on every path that changes its source (seeded r13-C04: grouping cached,
    # reset only while alive - an eventgroup requested while stopped is never subscribed after the restart)
    from .derived import cache_coherence
    cache_coherence(run, prog, "S12", [SUBS, "sd.ServiceDiscover"])

    def reach(qual, recv, label, pred, msg, rule="S1"):
        fi = prog.func(qual)
        effs = cx.effects(qual, recv)
        hits = [e for e in effs if pred(e)]
        run.ob(rule, f"{qual}:{label}", bool(hits), loc(fi), (msg + f" ({len(hits)} site(s), e.g. via {' > '.join(c.split('.')[-1] for c in hits[0].chain[-4:])})") if hits else
               f"BROKEN LINK: {msg} - no such effect is reachable from {qual}")
        return hits

    mr = f"{PROTO}.message_received"
    reach(mr, PROTO, "offer->service_offered", lambda e: e.kind == "notify" and e.what == "offered" and f"{DISC}.handle_offer" in e.chain,
          "an Offer entry reaches ClientServiceListener.service_offered")
    reach(mr, PROTO, "stop-offer->service_stopped", lambda e: e.kind == "notify" and e.what == "stopped" and f"{DISC}.handle_offer" in e.chain,
          "a StopOffer entry reaches service_stopped")
    reach(mr, PROTO, "subscribe->client_subscribed", lambda e: e.kind == "notify" and e.what == "subscribed" and f"{ANN}.handle_subscribe" in e.chain,
          "a Subscribe entry reaches ServerServiceListener.client_subscribed")
    reach(mr, PROTO, "subscribe->ack-transmitted", lambda e: e.kind in ("send", "timer") and f"{INST}.handle_subscribe" in e.chain and f"{ANN}.queue_send" in e.chain,
          "a Subscribe entry leads to a queued/transmitted acknowledgement")
    reach(mr, PROTO, "reboot->service_stopped", lambda e: e.kind == "notify" and e.what == "stopped" and f"{DISC}.reboot_detected" in e.chain,
          "reboot detection reports the sender's services stopped")
    reach(mr, PROTO, "reboot->client_unsubscribed", lambda e: e.kind == "notify" and e.what == "unsubscribed" and f"{INST}.reboot_detected" in e.chain,
          "reboot detection drops the sender's subscriptions")
    reach(mr, PROTO, "find->offer-answer", lambda e: e.kind in ("send", "timer") and f"{ANN}.handle_findservice" in e.chain and f"{INST}._send_offer" in e.chain,
          "a FindService entry leads to an offer being queued for the requester")
    reach(f"{AUTO}.service_offered", AUTO, "offered->subscription-requested",
          lambda e: e.kind == "state" and e.what[0] == SUBS and e.what[1] == "subscribeentries" and e.what[2] == "+", "the auto-subscriber records the subscription request")
    reach(f"{AUTO}.service_offered", AUTO, "offered->subscribe-transmitted", lambda e: e.kind == "send", "the auto-subscriber's request leads to a transmitted Subscribe")
    reach(f"{AUTO}.service_stopped", AUTO, "stopped->request-removed",
          lambda e: e.kind == "state" and e.what[0] == SUBS and e.what[1] == "subscribeentries" and e.what[2] == "-", "a stopped service removes the subscription request")
    reach(f"{INST}.start", INST, "start->periodic-offers", lambda e: e.kind in ("send", "timer") and f"{INST}._offer_task" in e.chain and e.wave >= 1 and e.in_loop or
          (e.kind in ("send", "timer") and f"{INST}._offer_task" in e.chain and e.wave >= 1), "starting an instance leads to offers sent from its task")
    reach(f"{INST}.stop", INST, "stop->subscriptions-dropped", lambda e: e.kind == "notify" and e.what == "unsubscribed", "stopping an instance reports its subscribers unsubscribed")
    reach(f"{SUBS}.start", SUBS, "start->periodic-subscribes", lambda e: e.kind == "send" and f"{SUBS}._subscribe" in e.chain and e.wave >= 1,
          "starting the subscriber leads to Subscribe rounds sent from its task")
    exp_q = cx.timer_target()[0].qual if cx.timer_target()[0] is not None else f"{TS}._expired"
    reach(exp_q, TS, "ttl-expiry->service_stopped", lambda e: e.kind == "notify" and e.what == "stopped", "an offer's TTL timer reports the service stopped")
    reach(exp_q, TS, "ttl-expiry->client_unsubscribed", lambda e: e.kind == "notify" and e.what == "unsubscribed", "a subscription's TTL timer reports the client unsubscribed")
    reach(f"{PROTO}.connection_lost", PROTO, "connection-lost->services-withdrawn", lambda e: e.kind == "notify" and e.what == "stopped",
          "connection loss reports discovered services stopped")
    reach(f"{PROTO}.connection_lost", PROTO, "connection-lost->subscriptions-withdrawn", lambda e: e.kind == "notify" and e.what == "unsubscribed",
          "connection loss reports subscribers unsubscribed")
    # StopOffer on stop: direct (non-cyclic) and via the cancelled task (cyclic) - the task's cleanup is decided in C10-O2
    st = prog.func(f"{INST}.stop")
    effs = cx.effects(st.qual, INST)
    direct = [e for e in effs if e.kind in ("send", "timer") and f"{INST}._send_offer" in e.chain]
    canc = [e for e in effs if e.kind == "cancel" and "_task" in str(e.what)]
    run.ob("S1", f"{st.qual}:stop->stop-offer", bool(direct) and bool(canc), loc(st),
           f"stop() cancels the offer task ({len(canc)} site(s)) and can send the StopOffer itself ({len(direct)} site(s)); the cancelled task's cleanup is C10-O2")
    # the auto-subscriber is what find_subscribe_eventgroup registers
    fse = prog.func(f"{DISC}.find_subscribe_eventgroup")
    okr = False
    for p in engine(prog, NoInline()).paths(fse, recv=DISC):
        for c in calls_to(p, f"{DISC}.watch_service"):
            a = c.args
            okr = len(a) == 2 and a[1][0] == "new" and a[1][1] == AUTO and a[0][0] == "call" and a[0][1][-1].endswith("as_service")
    run.ob("S1", f"{fse.qual}:registers-auto-subscriber", okr, loc(fse), "find_subscribe_eventgroup watches eventgroup.as_service() with an AutoSubscribeServiceListener")

    # ------------------------------------------------------------------ S2
    e0 = engine(prog, NoInline())
    keys = {}
    for name, callee in (("service_offered", f"{SUBS}.subscribe_eventgroup"), ("service_stopped", f"{SUBS}.stop_subscribe_eventgroup")):
        fi = prog.func(f"{AUTO}.{name}")
        run.analysed(fi)
        ps = fi.params()[1:]

        def norm(tm):
            if isinstance(tm, tuple):
                if tm and tm[0] == "param" and tm[1] == fi.qual:
                    return ("param", "#", ps.index(tm[2]))
                return tuple(norm(x) for x in tm)
            return tm
        for p in e0.paths(fi, recv=AUTO):
            for c in calls_to(p, callee):
                keys[name] = norm(strip_sites(c.args[:2]))
    ok = "service_offered" in keys and keys.get("service_offered") == keys.get("service_stopped")
    run.ob("S2", f"{AUTO}:same-key-for-add-and-remove", ok, loc(prog.func(f"{AUTO}.service_offered")),
           f"subscribe key {show(keys.get('service_offered'))[:90] if keys.get('service_offered') else '?'} / unsubscribe key {show(keys.get('service_stopped'))[:90] if keys.get('service_stopped') else '?'}"
           + ("" if ok else " - the removal does not find what the addition stored"))

    # ------------------------------------------------------------------ S3
    reboot_before_entries(cx, "S3", "discovery")
    reboot_before_entries(cx, "S3", "announcer")
    atomic_notifications(cx, "S3", "stopped/unsubscribed")

    # ------------------------------------------------------------------ S8 what the announcer queues is transmitted
    # (offers, stop-offers and acknowledgements travel through the send collectors: the C15 rule set "queued entries are
    # transmitted exactly once" is a link of the chain - a collector that swallows entries keeps the stacks apart for good)
    from .C15 import queue_exactly_once
    with run.part("S8 send collectors"):
        queue_exactly_once(run, prog, tier, "S8")

    # ------------------------------------------------------------------ S9 a restarted component is really running
    # ("subscribed exactly when offered and running": a stale continuation of the previous run that marks the new one
    # stopped makes the next stop() a no-op - the watcher stays subscribed, the offer is never withdrawn)
    from .derived import lifecycle_owner
    from ..util import Scan as _Scan
    with run.part("S9 generation state"):
        _sc = _Scan(prog)
        # (the find task of the discovery is not part of this chain: what it sends only speeds discovery up - C13)
        for _cq in ("sd.ServiceSubscriber", "sd.ServiceInstance"):
            lifecycle_owner(run, prog, _sc, "S9", _cq)

    # ------------------------------------------------------------------ S10 what is requested stays requested
    # (a watcher that forgets its request because of something the peer sent - a Nack, a StopOffer - is running, sees the
    # service offered again as a mere refresh, and never subscribes again)
    from .C14 import requested_set_callers
    requested_set_callers(run, prog, _sc, "S10")

    # ------------------------------------------------------------------ S7 start / stop of the stack reach every component
    e7 = engine(prog, NoInline())
    for mname, want in (("start", "start"), ("stop", "stop")):
        fn = prog.lookup_method(PROTO, mname)
        if fn is None:
            raise AnalysisError(f"{PROTO}.{mname} has vanished")
        run.analysed(fn)
        ps = [p for p in e7.paths(fn, recv=PROTO) if p.returns()]
        run.paths += len(ps)
        for comp in ("subscriber", "announcer", "discovery"):
            n_calls = [len([e for e in p.events if e.kind == "call" and e.recv == ("attr", ("self", PROTO), comp) and e.attrname == want and not e.sched])
                       for p in ps]
            ok7 = bool(ps) and all(n == 1 for n in n_calls)
            run.ob("S7", f"{fn.qual}:{want}s-{comp}", ok7, loc(fn),
                   f"{mname}() {want}s the {comp} part exactly once on every path" if ok7 else
                   f"{mname}() calls {comp}.{want}() {sorted(set(n_calls))} time(s): a part that is never {want}ed "
                   + ("sends nothing (no offers / finds / subscribes): the stacks cannot converge" if want == "start" else "keeps transmitting after the stack was stopped"))

    # ------------------------------------------------------------------ S6 nothing decodable is dropped on the way in
    # (the acceptance half of C03's filter table: every decodable SD notification reaches the reboot check and the
    # entry dispatch, whatever endpoint state the receive path consults)
    from . import C03
    from ..sym import enum_members as _em
    with run.part("S6 receive path"):
        C03._guards(run, prog, _em(prog, "header.SOMEIPSDEntryType"), accept_rule="S6")

    # ------------------------------------------------------------------ S5 reboot evidence is recognised exactly
    # (a restarted peer that is not recognised keeps stale subscriptions / offers alive for ever with infinite TTLs)
    from . import C07
    sub = report.subrun(C07, "C07", prog, tier, run.seed)
    n7 = 0
    for o in sub.obs:
        n7 += 1
        run.ob("S5", o.construct, o.ok, o.loc, o.msg, o.detail, o.nontrivial)
    run.floor("S5", n7, 10)
    run.abstract_cases += sub.abstract_cases
    run.paths += sub.paths

    # ------------------------------------------------------------------ S11 what is said is what arrives
    # (offers, subscribes and - for restart detection - the reboot flag travel inside an SD header that is copied when the
    # option indexes are assigned / resolved: the copy keeps the flags and the entries)
    from .sdcodec import codec_keeps
    with run.part("S11 header copies"):
        codec_keeps(run, prog, tier, "S11", ("SOMEIPSDHeader.assign_option_indexes:shared-array-collected", "SOMEIPSDHeader.resolve_options:every-entry-against-shared-array",
                                             "SOMEIPSDHeader.build:flags-byte", "SOMEIPSDHeader.parse:flag-bits"),
                    "a flag or entry that was sent is not the one the peer's stack acts on")

    # ------------------------------------------------------------------ S4 (decided by C10 / C14 rule instances)
    from . import C09, C10, C14
    for mod, pid, picks in ((C09, "C09", ("arm[forever,new]", "arm[forever,refresh]", "TTL_FOREVER:value")),  # "with infinite TTLs": what was learnt never lapses
                            (C10, "C10", ("offer-carries-ANNOUNCE_TTL", "phase-delays", "initial-delay", "repetitions-bounded", "cyclic-task-never-ends")),
                            (C14, "C14", (":subscribe-ttl", "sleeps-refresh-interval", "every-server-every-round", "round-sends-every-requested-pair",
                                          "keeps-the-requested-set", "who-changes-the-requested-set", "refreshes-while-there-is-an-interval"))):
        sub = report.subrun(mod, pid, prog, tier, run.seed)
        n = 0
        for o in sub.obs:
            if any(k in o.construct for k in picks):
                n += 1
                run.ob("S4", o.construct, o.ok, o.loc, o.msg, o.detail)
        run.floor(f"S4-{pid}", n, len(picks) - 1)
        run.paths += sub.paths
