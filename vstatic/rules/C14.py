"""C14 - client subscription messages mirror the requested subscription set.

M1  uniform deferral: list mutation happens in the call, the Subscribe / StopSubscribe it causes leaves the
    same number of loop iterations later for subscribe, stop-subscribe and stop, so transmissions leave in
    call order for every interleaving; the refresh round computes and sends without an await in between
M2  set discipline: the requested set is appended only by subscribe_eventgroup and reduced only by
    stop_subscribe_eventgroup; StopSubscribe only after a successful removal; no Subscribe is scheduled
    while not alive; stop() clears alive first and sends a StopSubscribe for every remaining pair
M3  entry fields and destination: Subscribe(type, ids, TTL, one endpoint option from sockname/protocol),
    SUBSCRIBE_TTL resp. 0, sent to the server the pair was stored with
M4  refresh loop: send everything, then sleep SUBSCRIBE_REFRESH_INTERVAL (or stop when it is None)
"""
from __future__ import annotations

from ..absint import eval_term
from ..effects import DeepInline, Effects, Slots
from ..facts import AnalysisError
from ..sym import enum_members
from ..terms import const, contains, show, strip_sites, subterms
from ..util import unwrap_iter, InlineOnly, NoInline, P, Scan, calls_to, engine, loc, param_at
from .derived import cache_coherence, lifecycle_owner
from .C10 import TIMING_VALUATIONS, sleep_arg, timing_leaf

SUBS = "sd.ServiceSubscriber"
PROTO = "sd.ServiceDiscoveryProtocol"
EG = "config.Eventgroup"


def requested_set_callers(run, prog, scan, rule):
    """"the eventgroups currently requested" are requested by the application: inside the package the two operations that
    change the set are called only by the auto-subscribe listener (which turns offered / stopped into subscribe /
    stop-subscribe on the application's behalf).  Anything else that calls them - a handler of received entries, a timer -
    changes what is *requested* because of what a *peer* said: the subscriber then stops asking for (or starts asking
    for) something the application never withdrew (requested)."""
    allowed = {"sd.AutoSubscribeServiceListener"}
    bad = []
    for name in ("subscribe_eventgroup", "stop_subscribe_eventgroup"):
        fn = prog.lookup_method(SUBS, name)
        if fn is None:
            raise AnalysisError(f"{SUBS}.{name} vanished")
        for cfi, _r, e in scan.callers_of(fn.qual):
            owner = cfi.cls.qual if cfi.cls is not None else cfi.module.short
            if owner not in allowed:
                bad.append((cfi, e, name))
    seen = set()
    for cfi, e, name in bad:
        if (cfi.qual, name) in seen:
            continue
        seen.add((cfi.qual, name))
        run.ob(rule, f"{cfi.qual}:changes-the-requested-set[{name}]", False, loc(cfi, e.node),
               f"{cfi.qual} calls {name}: the requested set is changed from inside the stack (not by the application / its auto-subscribe "
               "listener) - a subscription the application still wants is forgotten, or one it dropped is revived")
    if not bad:
        run.ob(rule, f"{SUBS}:requested-set-changed-only-on-request", True, loc(prog.lookup_method(SUBS, "subscribe_eventgroup")),
               "inside the package only the auto-subscribe listener calls subscribe_eventgroup / stop_subscribe_eventgroup")


def check(run, prog, tier):
    from . import model as _model
    _model.audit(run, prog, 'C14')
    run.explanation = (
        "Order of Subscribe and StopSubscribe on the wire equals the order of the calls iff all three public "
        "operations defer their transmission by the same number of event-loop iterations (FIFO ready queue): the "
        "deferral depth of every transmission reachable from each operation is computed over the resolved call "
        "graph.  The requested-set discipline is a who-may-write rule plus path facts; the entry contents are "
        "field tables of the constructors reached."
    )
    run.trusted += ["asyncio ready queue is FIFO", "socket.getnameinfo returns the numeric host/port of the sockname"]
    scan = Scan(prog)
    # "the eventgroups currently requested": nothing may answer from a stale copy of the requested set
    cache_coherence(run, prog, "M6", [SUBS])
    # alive / task describe the current start()..stop() generation: nothing that runs when a generation ends overwrites them
    with run.part("M7 generation state"):
        lifecycle_owner(run, prog, scan, "M7", SUBS)
    slots = Slots(prog, scan)
    m = {n: prog.lookup_method(SUBS, n) for n in ("subscribe_eventgroup", "stop_subscribe_eventgroup", "stop", "start", "_subscribe")}
    if not all(m.values()):
        raise AnalysisError(f"{SUBS}: methods vanished: {[k for k, v in m.items() if v is None]}")
    run.analysed(*m.values())
    send_sd = prog.lookup_method(PROTO, "send_sd")
    cse = prog.lookup_method(EG, "create_subscribe_entry")
    if send_sd is None or cse is None:
        raise AnalysisError("send_sd / create_subscribe_entry vanished")
    SUB_TTL = ("attr", ("attr", ("self", SUBS), "timings"), "SUBSCRIBE_TTL")
    # what a call of one of the subscriber's own methods transmits is read from the method itself, with the call's
    # arguments bound and the private methods it goes through analysed in place: the senders are found by what they do
    # (reach sd.send_sd with [eg.create_subscribe_entry(ttl) for eg in entries]), not by what they are called
    priv = tuple(f.qual for f in prog.functions.values() if f.cls is not None and f.cls.qual == SUBS and f.name.startswith("_")
                 and not f.name.startswith("__") and f.kind == "method" and not f.is_async)
    eng_s = engine(prog, InlineOnly(names=priv, props=False, max_depth=3))
    _shapes = {}
    sender_fns = set()

    def parse_send(c):
        """(ttl, server, eventgroups) of one send_sd call, None when it is not a list of Subscribe entries built from a collection"""
        lst = c.args[0] if c.args else c.arg(None, "entries")
        if c.recv == ("attr", ("self", SUBS), "sd") and lst is not None and lst[0] == "list" and lst[1] and all(
                x[0] == "call" and x[1][0] in ("bound", "attr") and x[1][2] in (cse.qual, cse.name) for x in lst[1]):
            # (the comprehension over a list display given at the call is evaluated element by element)
            ttls = {dict(x[3]).get("ttl") or (x[2][0] if x[2] else None) for x in lst[1]}
            return (next(iter(ttls)) if len(ttls) == 1 else None, c.arg(1, "remote"), ("list", tuple(x[1][1] for x in lst[1])))
        if not (c.recv == ("attr", ("self", SUBS), "sd") and lst is not None and lst[0] == "comp" and len(lst[3]) == 1 and not lst[3][0][2]
                and lst[2][0] == "call" and lst[2][1] in (("bound", lst[3][0][0], cse.qual), ("attr", lst[3][0][0], cse.name))):
            return None
        ttl = dict(lst[2][3]).get("ttl") or (lst[2][2][0] if lst[2][2] else None)
        return (ttl, c.arg(1, "remote"), lst[3][0][1])

    def send_shape(fn, args, kwargs=()):
        key = (fn.qual, tuple(args), tuple(kwargs))
        if key not in _shapes:
            out = []
            silent = 0
            for p_ in eng_s.paths(fn, recv=SUBS, args=tuple(args), kwargs=tuple(kwargs)):
                run.paths += 1
                cs = calls_to(p_, send_sd.qual)
                for c in cs:
                    out.append(parse_send(c))
                if not cs and p_.outcome[0] != "raise":
                    silent += 1
            if out and silent:
                out.append(None)  # a sender that decides for itself not to send: what it is asked to transmit may never leave
            _shapes[key] = out
            if out:
                sender_fns.add(fn)
        return _shapes[key]

    def transmissions(e):
        """the (ttl, server, eventgroups) triples a call / scheduling event transmits; [] when it is no sender"""
        if e.kind != "call":
            return []
        if e.sched:
            if e.cb is not None and e.cb[0] == "bound" and e.cb[1] == ("self", SUBS) and e.cb[2] in prog.functions:
                return send_shape(prog.functions[e.cb[2]], e.cbargs, e.cbkwargs)
            return []
        if any(f.qual == send_sd.qual for f in e.targets):
            return [parse_send(e)]
        if e.targets and e.targets[0].cls is not None and e.targets[0].cls.qual == SUBS and not e.targets[0].is_async and e.targets[0].kind == "method":
            return send_shape(e.targets[0], e.args, e.kwargs)
        return []
    ttl_sites = []  # (function, role, ok, seen ttl)
    # the grouping of the requested pairs by server is found by what it does (it walks the requested set and files each
    # eventgroup under its server), wherever that code lives: it is analysed in place in the refresh round
    ge_named = prog.lookup_method(SUBS, "_group_entries")
    requested = ("attr", me_ := ("self", SUBS), "subscribeentries")

    def grouping_appends(p):
        """(event, D, ok) for every `D[server].append(eventgroup)` / `D.setdefault(server, []).append(eventgroup)` on the path
        whose operands are drawn from one element of the requested set"""
        out = []
        for e in p.events:
            grp = e.recv if e.kind == "call" and e.attrname == "append" and e.recv is not None else None
            D = key = None
            if grp is not None and grp[0] == "item":
                D, key = grp[1], grp[2]
            elif grp is not None and grp[0] == "call" and grp[1][0] == "attr" and grp[1][2] == "setdefault" and grp[2]:
                D, key = grp[1][1], grp[2][0]
            if key is None or not contains(key, lambda s_: s_[0] == "elem" and unwrap_iter(s_[1]) == requested):
                continue
            val = e.args[0] if e.args else None
            ok = key[0] == "item" and key[2] == const(1) and val is not None and val[0] == "item" and val[2] == const(0) and key[1] == val[1] \
                and key[1][0] == "elem" and unwrap_iter(key[1][1]) == requested
            out.append((e, D, ok))
        return out
    me = ("self", SUBS)
    assert me == me_

    # ------------------------------------------------------------------ M1 deferral depths
    waves = {}
    for name in ("subscribe_eventgroup", "stop_subscribe_eventgroup", "stop"):
        ef = Effects(prog, DeepInline(unroll=1), slots)
        effs = ef.collect(m[name], recv=SUBS)
        run.paths += ef.paths_enumerated
        sends = [e for e in effs if e.kind == "send"]
        muts = [e for e in effs if e.kind == "state" and e.what[0] == SUBS and e.what[1] in ("subscribeentries", "alive")]
        waves[name] = sorted({e.wave for e in sends})
        run.ob("M1", f"{m[name].qual}:state-change-in-the-call", bool(muts) and all(e.wave == 0 for e in muts), loc(m[name]),
               f"the requested set / alive flag changes inside the call ({len(muts)} site(s))")
        run.ob("M1", f"{m[name].qual}:transmits", bool(sends), loc(m[name]), f"reaches a transmission at deferral depth(s) {waves[name]}")
    uniform = len({tuple(v) for v in waves.values()}) == 1 and all(len(v) == 1 for v in waves.values())
    run.ob("M1", f"{SUBS}:uniform-deferral", uniform, loc(m["subscribe_eventgroup"]),
           f"deferral depth of the transmission: {waves}" + ("" if uniform else
           " - operations with different depths overtake each other: a StopSubscribe can reach the server before the Subscribe it cancels (or vice versa)"))
    # refresh round: no await between computing the pairs and sending them
    eng = engine(prog, InlineOnly(names=((ge_named.qual,) if ge_named is not None else ()), props=False, max_depth=1,
                                  unroll=3 if tier == "thorough" else 2, cancel=False))
    eng.policy.empty_dict_identity = True  # (a grouping built in a `{}` is a new object every round)
    sp = eng.paths(m["_subscribe"], recv=SUBS)
    run.paths += len(sp)
    leaf = timing_leaf(me)
    fresh = True
    complete = True
    sleeps_ok = True
    rounds = 0
    none_break = False
    ends_early = False
    grouped_ok = None
    seen_fresh = False
    unfilled = set()
    # a grouping answered from a memo that M6 certifies coherent (reset on every change of its sources) equals the grouping the
    # miss path computes: the hit paths are represented by the miss paths (twin benign/F05; an incoherent memo is M6's report)
    from .derived import find_caches
    from ..util import implied_atoms
    memo = {("attr", me, A) for _g, A, _src in find_caches(prog, engine(prog, NoInline()), SUBS)}

    def _memo_hit(p):
        for c, v in implied_atoms(p.conds):
            c = strip_sites(c)
            if c[0] == "cmp" and c[2] in memo and c[3] == const(None) and ((c[1] == "is not" and v) or (c[1] == "is" and not v)):
                return True
        return False
    for p in sp:
        if memo and _memo_hit(p):
            continue
        apps = grouping_appends(p)
        for _e, _D, okg_ in apps:
            grouped_ok = okg_ if grouped_ok is None else (grouped_ok and okg_)
        dicts = {strip_sites(D) for _e, D, _ in apps}
        n_rounds = 1
        last_await = -1
        pos_of = {id(x): i_ for i_, x in enumerate(p.events)}  # position on the path (events of code analysed in place
        #                                                        carry their own numbering)
        for here, e in enumerate(p.events):
            if e.kind == "await":
                last_await = here
                n_rounds += 1
                a = sleep_arg(e)
                if a is None or any(eval_term(a, timing_leaf(me, valuation=V)) != V["SUBSCRIBE_REFRESH_INTERVAL"] for V in TIMING_VALUATIONS):
                    sleeps_ok = False
            elif e.kind == "call" and not e.sched and transmissions(e):
                for shp in transmissions(e):
                    # destination and eventgroups are the two halves of one element of a grouping D (its items / its keys),
                    # unfiltered: every server gets its *complete* group
                    ttl_sites.append((m["_subscribe"], "start", shp is not None and shp[0] == SUB_TTL, shp[0] if shp else None))
                    a0, a1 = (shp[1], shp[2]) if shp is not None else (None, None)
                    D = None
                    if a0 is not None and a1 is not None:
                        if a0[0] == "item" and a1[0] == "item" and a0[1] == a1[1] and a0[1][0] == "elem" and a0[2] == const(0) and a1[2] == const(1):
                            it = unwrap_iter(a0[1][1])
                            if it[0] == "call" and it[1][0] == "attr" and it[1][2] == "items":
                                D = it[1][1]
                        elif a0[0] == "elem" and a1[0] == "item" and a1[2] == a0:
                            it = unwrap_iter(a0[1])
                            if it == a1[1] or (it[0] == "call" and it[1][0] == "attr" and it[1][2] == "keys" and it[1][1] == a1[1]):
                                D = a1[1]
                    while D is not None and D[0] == "call" and D[1][0] == "ext" and D[1][1] in ("dict", "collections.OrderedDict", "types.MappingProxyType") \
                            and len(D[2]) == 1 and not D[3]:
                        D = D[2][0]  # a copy / read-only view of the grouping has the grouping's content
                    if D is None:
                        complete = False
                        continue
                    # ... and D was filled from the requested set after the last await (a D nothing was filed into on this path
                    # has no elements: such a path is no execution)
                    filed = [x for x, D2, _ok in apps if D2 == D]
                    if not filed:
                        if not any(strip_sites(D2) == strip_sites(D) for _x, D2, _ok in apps):
                            unfilled.add(show(D)[:60])
                        continue
                    if any(pos_of[id(x)] < last_await for x in filed):
                        if memo and any(e.kind == "store" and e.target in memo and e.value is not None and strip_sites(e.value) == strip_sites(D) for e in p.events):
                            seen_fresh = True  # D is the memo's content: equal to a fresh grouping while M6 holds
                        else:
                            fresh = False  # D was filled before the last await
                    else:
                        seen_fresh = True
        rounds = max(rounds, n_rounds)
        saw_none = False
        for c, v, _, _ in p.conds:
            if strip_sites(c) == ("cmp", "is", ("attr", ("attr", me, "timings"), "SUBSCRIBE_REFRESH_INTERVAL"), const(None)) and v and p.returns():
                none_break = True
                saw_none = True
            if strip_sites(c) == ("cmp", "is not", ("attr", ("attr", me, "timings"), "SUBSCRIBE_REFRESH_INTERVAL"), const(None)) and not v and p.returns():
                none_break = True
                saw_none = True
        if (p.returns() or p.outcome[0] == "fall") and not p.truncated and not saw_none and not any(e.kind == "await" and e.raised for e in p.events):
            ends_early = True
    fresh = fresh and seen_fresh
    if unfilled and not seen_fresh:
        complete = False  # what is sent is taken from something that is never filled from the requested set
    run.ob("M1", f"{m['_subscribe'].qual}:round-uses-current-set", fresh, loc(m["_subscribe"]),
           "each refresh round groups the current requested set and sends it without an await in between" if fresh else
           "a refresh round sends pairs computed before an await (stale set)")
    run.ob("M4", f"{m['_subscribe'].qual}:round-sends-every-requested-pair", complete, loc(m["_subscribe"]),
           "a refresh round sends every server its complete group of requested eventgroups" if complete else
           "a refresh round sends a filtered / transformed subset of the requested pairs: a subscription that stays requested can miss a refresh and expire at the server")
    run.ob("M4", f"{m['_subscribe'].qual}:sleeps-refresh-interval", sleeps_ok and rounds >= 2, loc(m["_subscribe"]),
           f"rounds are separated by sleep(SUBSCRIBE_REFRESH_INTERVAL); {rounds} rounds on the longest enumerated path")
    run.ob("M4", f"{m['_subscribe'].qual}:no-refresh-when-interval-is-None", none_break, loc(m["_subscribe"]), "with no refresh interval exactly one round is sent")
    run.ob("M4", f"{m['_subscribe'].qual}:refreshes-while-there-is-an-interval", not ends_early, loc(m["_subscribe"]),
           "the refresh task ends on its own only when no refresh interval is configured (or when it is cancelled)" if not ends_early else
           "the refresh task can end on its own although a refresh interval is configured (e.g. for an infinite TTL): a subscription that stays "
           "requested is not sent again - a server that lost its state never gets it back")
    # every round sends to every group: loop over _group_entries().items()
    it_ok = any(shp is not None and shp[1] is not None and ((shp[1][0] == "item" and shp[1][1][0] == "elem") or shp[1][0] == "elem")
                for p in sp for e in p.events if e.kind == "call" and not e.sched for shp in transmissions(e))
    run.ob("M4", f"{m['_subscribe'].qual}:every-server-every-round", it_ok, loc(m["_subscribe"]), "a round iterates over all (server, eventgroups) groups")

    # ------------------------------------------------------------------ M2 set discipline
    writers = {}
    for fi, recv, e in scan.all():
        tgt = None
        op = None
        if e.kind == "call" and e.attrname in ("append", "remove", "pop", "clear", "extend", "insert") and e.recv == ("attr", me, "subscribeentries"):
            tgt, op = fi.qual, e.attrname
        if e.kind == "store" and e.target == ("attr", me, "subscribeentries") and fi.name != "__init__":
            tgt, op = fi.qual, "assign"
        if tgt:
            writers.setdefault(tgt, set()).add(op)
    want_w = {m["subscribe_eventgroup"].qual: {"append"}, m["stop_subscribe_eventgroup"].qual: {"remove"}}
    run.ob("M2", f"{SUBS}:who-changes-the-requested-set", writers == want_w, loc(m["subscribe_eventgroup"]), f"requested set is changed by {({k: sorted(v) for k, v in writers.items()})}")
    requested_set_callers(run, prog, scan, "M2")
    e0 = engine(prog, NoInline())
    # subscribe: stores (eventgroup, endpoint); sends only while alive, to that endpoint, that eventgroup
    se = m["subscribe_eventgroup"]
    eg, ep = P(se, param_at(se, 0, "eventgroup")), P(se, param_at(se, 1, "endpoint"))
    for p in e0.paths(se, recv=SUBS):
        run.paths += 1
        app = [e for e in p.events if e.kind == "call" and e.attrname == "append" and e.recv == ("attr", me, "subscribeentries")]
        sch = [e for e in p.events if e.kind == "call" and e.sched]
        alive = [v for c, v, _, _ in p.conds if c == ("attr", me, "alive")]
        ok = len(app) == 1 and app[0].args == (("tuple", (eg, ep)),)
        run.ob("M2", f"{se.qual}:records-pair", ok, loc(se), f"records {show(app[0].args[0]) if app else 'nothing'}; expected (eventgroup, server)")
        if sch:
            tx = [x for e_ in sch for x in transmissions(e_)]
            oks = alive == [True] and len(sch) == 1 and len(tx) == 1 and tx[0] is not None and tx[0][1:] == (ep, ("list", (eg,)))
            for x in tx:
                ttl_sites.append((se, "start", x is not None and x[0] == SUB_TTL, x[0] if x else None))
            run.ob("M2", f"{se.qual}:immediate-subscribe-only-while-alive", oks, loc(se), f"schedules {show(sch[0].cb)}({', '.join(show(a) for a in sch[0].cbargs)}) under alive={alive}")
        else:
            run.ob("M2", f"{se.qual}:nothing-sent-while-stopped", alive == [False], loc(se), "while stopped the request is only recorded")
    ss = m["stop_subscribe_eventgroup"]
    eg, ep = P(ss, param_at(ss, 0, "eventgroup")), P(ss, param_at(ss, 1, "endpoint"))
    sendp = P(ss, param_at(ss, 2, "send"))
    seen = set()
    for p in e0.paths(ss, recv=SUBS):
        run.paths += 1
        rem = [e for e in p.events if e.kind == "call" and e.attrname == "remove" and e.recv == ("attr", me, "subscribeentries")]
        sch = [e for e in p.events if e.kind == "call" and e.sched]
        removed = bool(rem) and rem[0].raised is None
        wants = [v for c, v, _, _ in p.conds if c == sendp]
        if not removed:
            seen.add("absent")
            run.ob("M2", f"{ss.qual}:no-stop-for-unknown-pair", not sch and p.returns(), loc(ss), "an unknown pair sends nothing")
        elif wants == [True]:
            seen.add("send")
            tx = [x for e_ in sch for x in transmissions(e_)]
            ok = len(sch) == 1 and len(tx) == 1 and tx[0] is not None and tx[0][1:] == (ep, ("list", (eg,))) and rem[0].args == (("tuple", (eg, ep)),)
            for x in tx:
                ttl_sites.append((ss, "stop", x is not None and x[0] == const(0), x[0] if x else None))
            run.ob("M2", f"{ss.qual}:stop-after-removal", ok, loc(ss), f"after removing the pair one StopSubscribe for it is scheduled to its server ({len(sch)} scheduled)")
        else:
            seen.add("quiet")
            run.ob("M2", f"{ss.qual}:send=False-is-silent", not sch, loc(ss), "send=False removes without transmitting")
    run.ob("M2", f"{ss.qual}:cases", seen == {"absent", "send", "quiet"}, loc(ss), f"cases: {sorted(seen)}")
    # stop(): alive cleared before the StopSubscribes are scheduled; task cancelled
    st = m["stop"]
    for p in e0.paths(st, recv=SUBS):
        run.paths += 1
        alive = [v for c, v, _, _ in p.conds if c == ("attr", me, "alive") or c == ("unop", "not", ("attr", me, "alive"))]
        stores = [e for e in p.events if e.kind == "store" and e.attrname == "alive"]
        sch = [e for e in p.events if e.kind == "call" and e.sched == "soon"]
        if not stores:
            run.ob("M2", f"{st.qual}:stopped-twice-is-a-noop", not sch and p.returns(), loc(st), "stop() on a stopped subscriber does nothing", nontrivial=False)
            continue
        ok = stores[0].value == const(False) and all(stores[0].seq < e.seq for e in sch)
        for e in sch:
            tx = transmissions(e)
            ok = ok and len(tx) == 1 and tx[0] is not None
            for x in tx:
                ttl_sites.append((st, "stop", x is not None and x[0] == const(0), x[0] if x else None))
        cancels = [e for e in p.events if e.kind == "call" and e.attrname == "cancel"]
        run.ob("M2", f"{st.qual}:alive-cleared-then-stops[{len(sch)}]", ok and (len(cancels) >= 1 or not [c for c in p.conds if c[0] == ("attr", me, "task") and c[1]]), loc(st),
               f"alive := False first, then {len(sch)} StopSubscribe group(s) scheduled, refresh task cancelled {len(cancels)}x")
    for name in ("stop", "start"):
        ef = Effects(prog, DeepInline(unroll=1), slots)
        effs = ef.collect(m[name], recv=SUBS)
        muts = [e for e in effs if e.kind == "state" and e.what[0] == SUBS and e.what[1] == "subscribeentries"]
        run.ob("M2", f"{m[name].qual}:keeps-the-requested-set", not muts, loc(m[name]),
               f"{name}() leaves the requested set alone (requests survive a stop/start cycle)" if not muts else
               f"{name}() changes the requested set ({muts[0].what[3]} at {muts[0].ev.loc}): after stop() and start() the subscriber no longer asks for what is still requested")
    sta = m["start"]
    okst = False
    for p in e0.paths(sta, recv=SUBS):
        run.paths += 1
        tasks = [e for e in p.events if e.kind == "call" and e.sched == "task" and e.cb is not None and e.cb[-1] == m["_subscribe"].qual]
        stores = {e.attrname: e.value for e in p.events if e.kind == "store" and e.target[0] == "attr" and e.target[1] == me}
        if tasks:
            okst = len(tasks) == 1 and stores.get("alive") == const(True) and "task" in stores
    run.ob("M2", f"{sta.qual}:alive-and-one-refresh-task", okst, loc(sta), "start() sets alive and creates exactly one refresh task")

    # ------------------------------------------------------------------ M3 entries and destination
    s2e = prog.lookup_method(EG, "_sockaddr_to_endpoint")
    run.analysed(cse, s2e, *sorted(sender_fns, key=lambda f: f.qual))
    # every transmission found above (the refresh round, the immediate Subscribe, the StopSubscribe of stop-subscribe and of
    # stop()) is a list of Subscribe entries built from the eventgroups given, with the TTL of its role, sent to the server given
    by_site = {}
    for fn, role, ok, seen_ttl in ttl_sites:
        k = (fn.qual, role)
        cur = by_site.setdefault(k, [fn, True, set()])
        cur[1] = cur[1] and ok
        cur[2].add(show(seen_ttl) if seen_ttl is not None else "not a list of Subscribe entries")
    for (q, role), (fn, ok, seen_ttls) in sorted(by_site.items()):
        want = SUB_TTL if role == "start" else const(0)
        run.ob("M3", f"{q}:{'subscribe' if role == 'start' else 'stop-subscribe'}-ttl", ok, loc(fn),
               f"what {fn.name} transmits carries TTL {sorted(seen_ttls)}; expected {show(want)} in [eg.create_subscribe_entry(ttl) for eg in the eventgroups given]")
    run.floor("M3-sites", len(by_site), 4)
    # grouping keeps (eventgroup -> its server)
    run.ob("M3", f"{(ge_named or m['_subscribe']).qual}:groups-by-server", bool(grouped_ok), loc(ge_named or m["_subscribe"]),
           "pairs are grouped by their server; each eventgroup stays with the server it was requested for" if grouped_ok else
           "no grouping of the requested pairs by their server found in the refresh round (or an eventgroup is filed under something else)")
    # create_subscribe_entry field table
    e3 = engine(prog, InlineOnly(names=(), props=False, max_depth=0))
    egme = ("self", EG)
    et = enum_members(prog, "header.SOMEIPSDEntryType")
    for p in [p for p in e3.paths(cse, recv=EG) if p.returns()]:
        run.paths += 1
        rv = p.retval()
        if rv[0] != "new" or rv[1] != "header.SOMEIPSDEntry":
            raise AnalysisError(f"{cse.qual}: does not return an SD entry")
        d = dict(rv[2])
        ttl = P(cse, param_at(cse, 0, "ttl"))
        cnt = P(cse, param_at(cse, 1, "counter"))
        want = {"sd_type": const(et["Subscribe"]), "service_id": ("attr", egme, "service_id"), "instance_id": ("attr", egme, "instance_id"),
                "major_version": ("attr", egme, "major_version"), "ttl": ttl}
        for k, w in want.items():
            run.ob("M3", f"{cse.qual}:{k}", d.get(k) == w, loc(cse), f"{k} = {show(d.get(k)) if d.get(k) else '<default>'}; expected {show(w)}")
        mv = d.get("minver_or_counter")
        okm = mv == ("binop", "|", ("binop", "<<", cnt, const(16)), ("attr", egme, "eventgroup_id")) or mv == ("binop", "|", ("attr", egme, "eventgroup_id"), ("binop", "<<", cnt, const(16)))
        if not okm and mv is not None:
            # spelled differently (counter * 0x10000, +, ...): the formula must agree with (counter << 16) | id on the corner
            # points of both fields (the operations involved are shifts / products by constants and bitwise or)
            try:
                okm = True
                for cv in (0, 1, 2, 0xF, 0xFF):
                    for ev_ in (0, 1, 0x8000, 0xFFFF):
                        def leaf(tm, cv=cv, ev_=ev_):
                            if tm == cnt:
                                return cv
                            if tm == ("attr", egme, "eventgroup_id"):
                                return ev_
                            raise AnalysisError("other")
                        if eval_term(mv, leaf) != ((cv << 16) | ev_):
                            okm = False
            except (AnalysisError, TypeError, ValueError):
                okm = False
        run.ob("M3", f"{cse.qual}:counter-and-eventgroup", okm, loc(cse), f"counter/eventgroup field = {show(mv) if mv else '?'}; expected (counter << 16) | eventgroup_id")
        o1 = d.get("options_1")
        oko = o1 is not None and o1[0] == "tuple" and len(o1[1]) == 1 and o1[1][0][0] == "call" and o1[1][0][1][-1] == s2e.qual \
            and o1[1][0][2] == (("attr", egme, "sockname"), ("attr", egme, "protocol")) and "options_2" not in d
        run.ob("M3", f"{cse.qual}:one-endpoint-option", oko, loc(cse), f"options_1 = {show(o1)[:90] if o1 else '()'}; expected exactly the endpoint built from (sockname, protocol)")
    # _sockaddr_to_endpoint: class by address family, protocol and port passed through
    sp2 = [p for p in e3.paths(s2e) if p.returns()]
    run.paths += len(sp2)
    prot = P(s2e, param_at(s2e, 1, "protocol"))
    fams = {}
    for p in sp2:
        rv = p.retval()
        if rv[0] != "new":
            continue
        d = dict(rv[2])
        isinst = [(c, v) for c, v, _, _ in p.conds if c[0] == "call" and c[1] == ("ext", "isinstance")]
        fam = None
        for c, v in isinstance_true(isinst):
            fam = c
        okp = d.get("l4proto") == prot and d.get("port") is not None and d.get("address") is not None \
            and contains(d["port"], lambda s: s[0] == "call" and s[1] == ("ext", "socket.getnameinfo")) \
            and contains(d["address"], lambda s: s[0] == "call" and s[1] == ("ext", "socket.getnameinfo"))
        fams[rv[1]] = (fam, okp)
    want_f = {"header.IPv4EndpointOption": "ipaddress.IPv4Address", "header.IPv6EndpointOption": "ipaddress.IPv6Address"}
    for cls, fam in want_f.items():
        got = fams.get(cls)
        ok = got is not None and got[0] == fam and got[1]
        run.ob("M3", f"{s2e.qual}:{cls.split('.')[-1]}", ok, loc(s2e), f"{cls} is built for {got[0] if got else 'no'} addresses with the given protocol and the numeric port")


def isinstance_true(conds):
    """(class name) of isinstance(x, C) conditions that hold on the path"""
    out = []
    for c, v in conds:
        if v and len(c[2]) == 2 and c[2][1][0] == "ext":
            out.append((c[2][1][1], v))
    return out
