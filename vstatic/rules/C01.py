"""C01 - SOME/IP message encoding round-trips and matches the wire layout.

L1  writer layout (format codes, byte order, field per wire position) == SOME/IP table
L2  length field == len(payload) + 8, unmasked
L3  reader binds wire position i to the field the writer emitted at i (enum fields through their enum)
L4  accept/reject decisions and the payload/rest split of parse(), decided on the extracted path
    formulas at representative points of (buffer length, length field, version, type, return code)
L5  datagram_received: loop over the concatenated messages, one delivery per message, in order
"""
from __future__ import annotations

import itertools

from .. import layout
from ..absint import eval_term
from ..facts import AnalysisError
from ..sym import EnumVal, enum_members
from ..terms import const, contains, is_const, show, strip_sites, subterms
from ..util import InlineOnly, NoInline, P, calls_to, engine, loc, param_at

HDR = "header.SOMEIPHeader"
# wire position -> (field, kind, width in bytes); kind: id | enum | length
SPEC = [("service_id", "id", 2), ("method_id", "id", 2), (None, "length", 4), ("client_id", "id", 2),
        ("session_id", "id", 2), ("protocol_version", "id", 1), ("interface_version", "id", 1),
        ("message_type", "enum", 1), ("return_code", "enum", 1)]
ENUM_OF = {"message_type": "header.SOMEIPMessageType", "return_code": "header.SOMEIPReturnCode"}


def writer_table(run, prog, eng, fi, me):
    """-> [(signature, [arg terms], big endian, rest segments, label)] one per returning path of build(); a path whose value is
    not <packed header> + <payload> at all is reported: what build() emits must be the encoding of the fields on every path"""
    paths = [p for p in eng.paths(fi, recv=HDR) if p.returns()]
    run.paths += len(paths)
    tables = []
    for k, p in enumerate(paths):
        segs = layout.segments(eng, p.retval())
        packs = [s for s in segs if s[0] == "pack"]
        rest = [s for s in segs if s[0] != "pack"]
        when = " and ".join(("" if v else "not ") + show(c)[:60] for c, v, _, _ in p.conds) or "always"
        if not packs or segs[: len(packs)] != packs:
            run.ob("L1", f"{fi.qual}:every-path-encodes-the-fields[{show(p.retval())[:50]}]", False, loc(fi),
                   f"build() returns {show(p.retval())[:80]} when {when}: that is not <packed header fields> + <payload> - the "
                   "encoding of a message must be a function of its fields (a remembered / cached image can differ from them)")
            continue
        sig, args, be = [], [], True
        for _, fm, a in packs:
            sig += fm.signature()
            args += list(a)
            be = be and fm.big_endian
        tables.append((sig, args, be, rest, "" if len(paths) == 1 else f"[when {when}]"))
    if not tables:
        raise AnalysisError(f"{fi.qual}: no path returns <packed header> + <payload> ({len(paths)} returning paths)")
    if len(paths) > 0 and len(tables) == len(paths):
        run.ob("L1", f"{fi.qual}:every-path-encodes-the-fields", True, loc(fi), f"all {len(paths)} returning path(s) of build() pack the header fields and append the payload")
    return tables


def check(run, prog, tier):
    from . import model as _model
    _model.audit(run, prog, 'C01')
    run.explanation = (
        "The writer is reduced to a layout term Pack(format, [field expressions]) ++ payload and compared, "
        "position by position, with the SOME/IP header table (widths from the struct codes, byte order from the "
        "format prefix); the reader is reduced to the constructor it returns, every field a term over the "
        "unpacked tuple, and must bind position i to the field written at i.  pack/unpack with one format are "
        "inverse on in-range values (library fact), so parse(build(m)+s) = (m, s) follows for every value.  The "
        "accept/reject guards and the payload/suffix split are decided by evaluating the extracted path "
        "conditions at representative points of every guard boundary (exact: all bounds are linear in the "
        "length field and the buffer length).  The datagram loop is a path pattern."
    )
    run.trusted += ["struct.pack / struct.unpack with the same format are mutually inverse on in-range values",
                    "bytes slicing semantics"]
    eng = engine(prog, InlineOnly(pred=lambda f: f.module.short == "header", max_depth=5))
    eng.policy.fork_uncaught = True
    me = ("self", HDR)
    build = prog.lookup_method(HDR, "build")
    parse = prog.lookup_method(HDR, "parse")
    if build is None or parse is None:
        raise AnalysisError(f"{HDR}.build / parse vanished")
    run.analysed(build, parse)

    # ------------------------------------------------------------------ L1 / L2 writer
    tables = writer_table(run, prog, eng, build, me)
    want_sig = [("u", w) for _, _, w in SPEC]
    for sig, args, be, rest, lab in tables:
        run.ob("L1", f"{build.qual}:byte-order{lab}", be, loc(build), "header is packed big-endian (network order)" if be else "header is not packed in network byte order")
        run.ob("L1", f"{build.qual}:field-widths{lab}", sig == want_sig, loc(build),
               f"packed widths {[w for _, w in sig]} {'==' if sig == want_sig else '!='} SOME/IP widths {[w for _, w in want_sig]} (unsigned)")
        if len(args) != len(SPEC):
            run.ob("L1", f"{build.qual}:arity{lab}", False, loc(build), f"{len(args)} values packed, the header has {len(SPEC)} fields")
            wtab = {}
        else:
            wtab = {}
            for i, ((f, kind, w), a) in enumerate(zip(SPEC, args)):
                d = layout.w_descr(a, me)
                if kind == "length":
                    ok = d == ("linear", ((("len", ("field", "payload")), 1),), 8)
                    run.ob("L2", f"{build.qual}:length-field{lab}", ok, loc(build),
                           f"length field is {show(a)}" + ("" if ok else "; the statement demands payload length + 8, unmasked"))
                    continue
                ok = d == ("field", f) or (kind == "enum" and d == ("enum", f))
                wtab[i] = d
                run.ob("L1", f"{build.qual}:position[{i}]={f}{lab}", ok, loc(build),
                       f"wire position {i} carries {show(a)}; SOME/IP puts {f} there")
        ok_tail = len(rest) == 1 and rest[0] == ("bytes", ("attr", me, "payload"))
        run.ob("L1", f"{build.qual}:payload-follows-header{lab}", ok_tail, loc(build),
               "payload bytes follow the 16 byte header unchanged" if ok_tail else f"after the header comes {[show(s[1]) if s[0] == 'bytes' else s[0] for s in rest]}")
    sig, args, be, rest, _ = tables[0]

    # ------------------------------------------------------------------ L3 reader bindings
    buf = P(parse, param_at(parse, 0, "buf"))
    paths = eng.paths(parse, recv=HDR)
    run.paths += len(paths)
    rets = [p for p in paths if p.returns()]
    if not rets:
        raise AnalysisError(f"{parse.qual}: no returning path")
    unp = None
    for p in rets:
        rv = p.retval()
        if rv[0] != "tuple" or len(rv[1]) != 2 or rv[1][0][0] != "new" or rv[1][0][1] != HDR:
            raise AnalysisError(f"{parse.qual}: does not return (SOMEIPHeader, rest)")
        us = layout.find_unpacks(eng, rv[1][0])
        if len(us) != 1:
            raise AnalysisError(f"{parse.qual}: decoded fields come from {len(us)} unpack calls")
        unp = us[0]
        fm, ubuf = layout.unpack_call(eng, unp)
        run.ob("L3", f"{parse.qual}:same-format", fm.text == "".join([]) or fm.signature() == sig and fm.big_endian, loc(parse),
               f"reader unpacks {fm.text!r}; writer packs widths {[w for _, w in sig]}")
        isit = layout.item_pos(unp)
        fields = dict(rv[1][0][2])
        for i, (f, kind, w) in enumerate(SPEC):
            if kind == "length":
                continue
            d = layout.r_descr(fields.get(f), isit) if f in fields else ("missing",)
            if kind == "enum":
                ok = d == ("enumconv", ENUM_OF[f], ("pos", i))
            else:
                ok = d == ("pos", i)
            run.ob("L3", f"{parse.qual}:{f}<-position[{i}]", ok, loc(parse),
                   f"decoded {f} = {show(fields[f]) if f in fields else '<default>'}; must be wire position {i}"
                   + (f" converted through {ENUM_OF[f]}" if kind == "enum" else ""))
        ok = "payload" in fields
        run.ob("L3", f"{parse.qual}:payload-bound", ok, loc(parse), "decoded payload is taken from the buffer" if ok else "payload is never bound (defaults to empty)")

    # ------------------------------------------------------------------ L4 guards and split at representative points
    fm, _ = layout.unpack_call(eng, unp)
    mt = enum_members(prog, ENUM_OF["message_type"])
    rc = enum_members(prog, ENUM_OF["return_code"])
    mt_vals = {int(v): v for v in mt.values()}
    rc_vals = {int(v): v for v in rc.values()}
    bad_mt = next(x for x in range(256) if x not in mt_vals)
    bad_rc = next(x for x in range(256) if x not in rc_vals)
    # the byte values of message types and return codes are fixed by the specification (PRS_SOMEIP_00055, PRS_SOMEIP_00191)
    SPEC_MT = {"REQUEST": 0x00, "REQUEST_NO_RETURN": 0x01, "NOTIFICATION": 0x02, "REQUEST_ACK": 0x40, "REQUEST_NO_RETURN_ACK": 0x41,
               "NOTIFICATION_ACK": 0x42, "RESPONSE": 0x80, "ERROR": 0x81, "RESPONSE_ACK": 0xC0, "ERROR_ACK": 0xC1}
    SPEC_RC = {"E_OK": 0x00, "E_NOT_OK": 0x01, "E_UNKNOWN_SERVICE": 0x02, "E_UNKNOWN_METHOD": 0x03, "E_NOT_READY": 0x04, "E_NOT_REACHABLE": 0x05,
               "E_TIMEOUT": 0x06, "E_WRONG_PROTOCOL_VERSION": 0x07, "E_WRONG_INTERFACE_VERSION": 0x08, "E_MALFORMED_MESSAGE": 0x09,
               "E_WRONG_MESSAGE_TYPE": 0x0A}
    for label, members, spec in (("message_type", mt, SPEC_MT), ("return_code", rc, SPEC_RC)):
        wrong = {n: int(v) for n, v in members.items() if n in spec and int(v) != spec[n]}
        dup = len({int(v) for v in members.values()}) != len(members)
        missing = sorted(set(spec) & {"REQUEST", "REQUEST_NO_RETURN", "NOTIFICATION", "RESPONSE", "ERROR", "E_OK"} - set(members))
        okv = not wrong and not dup and not missing
        run.ob("L1", f"{ENUM_OF[label]}:specification-values", okv, loc(build, prog.cls(ENUM_OF[label]).node),
               f"{len(members)} {label} enumerators carry their specification byte values" if okv else
               f"{label} enumerators deviate from the specification: {({n: hex(v) for n, v in wrong.items()})}{' (two names share a value)' if dup else ''}"
               f"{' missing ' + str(missing) if missing else ''}: the byte on the wire means something else to every other implementation")
    parse_err = "header.ParseError"
    cases = 0
    failures = {}
    H = fm.size
    big = bytes((i * 7 + 3) % 251 for i in range(H + 0x10010))
    combos = []
    from ..absint import constants_compared
    size_term = ("item", unp, const(2))
    extra_sizes = set()
    for c in constants_compared([c for p in paths for c, _, _, _ in p.conds], lambda tm: tm == size_term):
        extra_sizes |= {c - 1, c, c + 1, c + 8, c + 9}  # every constant the code compares the length field with
    for size in sorted({0, 7, 8, 9, 14, 15, 16, 0xFFFF, 0x10000, 0x10007, 0xFFFF + 9} | {x for x in extra_sizes if 0 <= x <= 0x20000}):
        # buffer lengths around every guard boundary, including 'exactly the message' and 'message + 2'
        blens = {0, 1, H - 1, H, H + 1, H + 6, H + 7}
        if size >= 8:
            blens |= {H + size - 8 - 1, H + size - 8, H + size - 8 + 2}
        for blen in sorted(b for b in blens if b >= 0):
            combos.append((blen, size))
    # the bytes after the header are opaque to the decoder (payload and trailing bytes are handed on as they are): every
    # case is evaluated on a patterned buffer and, for the well-formed headers, on an all-zero one - a decoder that looks
    # at that content (padding, terminators) treats the two differently
    zero = bytes(len(big))
    for ((blen, size), pv, mtv, rcv), content in itertools.product(itertools.product(
            combos, (0, 1, 2), (min(mt_vals), max(mt_vals), bad_mt), (min(rc_vals), max(rc_vals), bad_rc)), (big, zero)):
        if size > 0x100 and (pv, mtv, rcv) != (1, min(mt_vals), min(rc_vals)) and blen > H + 8:
            continue  # large buffers only for the well-formed header (keeps the case count reasonable)
        if content is zero and ((pv, mtv, rcv) != (1, min(mt_vals), min(rc_vals)) or size > 0x100):
            continue
        cases += 1
        data = content[:blen]
        U = (0x1234, 0x5678, size, 0x9ABC, 0xDEF0, pv, 0x42, mtv, rcv)

        def leaf(tm):
            if tm == buf:
                return data
            if tm == unp:
                return U
            if tm[0] == "attr" and tm[2] == "size" and layout.struct_fmt(eng, tm[1]) is not None:
                return layout.struct_fmt(eng, tm[1]).size
            if tm[0] == "call" and tm[1][0] == "cls" and tm[1][1] in ENUM_OF.values() and len(tm[2]) == 1:
                v = eval_term(tm[2][0], leaf)
                return (mt_vals if tm[1][1] == ENUM_OF["message_type"] else rc_vals)[v]
            raise AnalysisError(f"{parse.qual}: guard depends on {show(tm)}; not modelled")

        def consistent(p):
            for e in p.events:
                if e.kind == "call" and e.ext and e.ext.startswith("enumconv:") and e.args and not is_const(e.args[0]):
                    v = eval_term(e.args[0], leaf)
                    member = v in (mt_vals if e.ext.endswith("SOMEIPMessageType") else rc_vals)
                    if member != (e.raised is None):
                        return False
            for c, val, _, _ in p.conds:
                try:
                    if bool(eval_term(c, leaf)) != val:
                        return False
                except (KeyError, IndexError):
                    return False
            return True

        # conditions are evaluated lazily along each path: a path whose earlier guard fails is not consistent
        hits = []
        for p in paths:
            try:
                if consistent(p):
                    hits.append(p)
            except (KeyError, IndexError, TypeError):
                continue
        if len(hits) != 1:
            raise AnalysisError(f"{parse.qual}: {len(hits)} paths consistent with case len={blen} size={size} pv={pv} mt={mtv} rc={rcv}")
        p = hits[0]
        if blen < H:
            want = "reject"
        elif pv != 1 or mtv not in mt_vals or rcv not in rc_vals or size < 8:
            want = "reject"
        elif blen - H < size - 8:
            want = "reject"
        else:
            want = "accept"
        if p.returns():
            got = "accept"
        elif p.outcome[0] == "raise" and eng.exc.is_sub(p.outcome[1], parse_err):
            got = "reject"
        else:
            got = f"raises {p.outcome[1] if len(p.outcome) > 1 else p.outcome[0]}"
        key = None
        msg = None
        if got != want:
            why = ("short-buffer" if blen < H else "bad-version" if pv != 1 else "bad-type" if mtv not in mt_vals else
                   "bad-return-code" if rcv not in rc_vals else "length<8" if size < 8 else "truncated-payload" if blen - H < size - 8 else "valid")
            key = f"{parse.qual}:guard[{why}]"
            msg = f"buffer of {blen} bytes, length field {size}, version {pv}, type {mtv:#x}, return code {rcv:#x}: parse {got}s, expected {want}"
        elif want == "accept":
            rv = p.retval()
            flds = dict(rv[1][0][2])
            pay = eval_term(flds["payload"], leaf)
            rst = eval_term(rv[1][1], leaf)
            if pay != data[H:H + size - 8] or rst != data[H + size - 8:]:
                key = f"{parse.qual}:payload-rest-split"
                msg = (f"buffer of {blen} bytes, length field {size}: payload={len(pay)} bytes rest={len(rst)} bytes; "
                       f"expected payload=buf[{H}:{H + size - 8}] ({len(data[H:H + size - 8])} bytes) and rest=buf[{H + size - 8}:] ({len(data[H + size - 8:])} bytes)")
        if key and key not in failures:
            failures[key] = msg
    run.abstract_cases += cases
    for k, m in failures.items():
        run.ob("L4", k, False, loc(parse), m)
    if not failures:
        run.ob("L4", f"{parse.qual}:guards-and-split", True, loc(parse),
               f"{cases} boundary cases of (buffer length, length field, version, type, return code): rejects exactly the "
               "malformed ones with ParseError and splits payload / rest at length-8")
    # linearity premise of the point evaluation
    for p in rets:
        flds = dict(p.retval()[1][0][2])
        for tm in (flds.get("payload"), p.retval()[1][1]):
            for s in subterms(tm) if tm else ():
                if s[0] == "slice":
                    for b in (s[2], s[3]):
                        if b is not None and layout.linear(b) is None and not failures:
                            raise AnalysisError(f"{parse.qual}: slice bound {show(b)} is not linear; point evaluation is not exact")

    # ------------------------------------------------------------------ L5 datagram loop
    _datagram_loop(run, prog, parse, tier)


def _datagram_loop(run, prog, parse, tier="quick"):
    BASE = "sd.SOMEIPDatagramProtocol"
    dr = prog.lookup_method(BASE, "datagram_received")
    if dr is None:
        raise AnalysisError(f"{BASE}.datagram_received has vanished")
    run.analysed(dr)
    eng = engine(prog, NoInline())
    eng.policy.unroll = 4 if tier == "thorough" else 3
    data = P(dr, param_at(dr, 0, "data"))
    addr = P(dr, param_at(dr, 1, "addr"))
    mc = P(dr, param_at(dr, 2, "multicast"))
    recvs = [BASE] + [c for c in prog.subclasses(BASE) if c != BASE and prog.lookup_method(c, "datagram_received") is dr]
    multi = 0
    for recv in recvs:
        mr = prog.lookup_method(recv, "message_received")
        paths = eng.paths(dr, recv=recv)
        run.paths += len(paths)
        worst = None
        seen_two = False
        for p in paths:
            pc = calls_to(p, parse.qual)
            dl = calls_to(p, mr.qual)
            # every successful parse is followed by exactly one delivery of its message before the next parse
            good_parses = [e for e in pc if e.raised is None]
            problem = None
            if len(dl) != len(good_parses):
                problem = f"{len(good_parses)} message(s) decoded but {len(dl)} delivered"
            cur = data
            for k, e in enumerate(pc):
                if e.args[:1] != (cur,):
                    problem = problem or f"parse #{k + 1} reads {show(e.args[0]) if e.args else '?'}, expected the unconsumed rest {show(cur)[:60]}"
                cur = ("item", e.result, const(1))
                if k < len(dl):
                    d = dl[k]
                    nxt = pc[k + 1].seq if k + 1 < len(pc) else 10 ** 12
                    if not (e.seq < d.seq < nxt):
                        problem = problem or f"delivery #{k + 1} is not between parse #{k + 1} and parse #{k + 2}"
                    if d.args[:3] != (("item", e.result, const(0)), addr, mc):
                        problem = problem or (f"delivery #{k + 1} passes ({', '.join(show(a)[:50] for a in d.args)}); "
                                              "expected (decoded message, addr, multicast)")
            if len(good_parses) >= 2:
                seen_two = True
            # the loop may only stop on an empty rest (or an error)
            if p.returns() and not p.truncated and pc and pc[-1].raised is None:
                last_rest = ("item", pc[-1].result, const(1))
                stops = [v for c, v, _, _ in p.conds if c == last_rest]
                if stops != [False]:
                    problem = problem or "the receive loop stops although undecoded bytes may remain in the datagram"
            if p.outcome[0] == "raise" and eng.exc.is_sub(p.outcome[1], "header.ParseError"):
                problem = problem or f"{p.outcome[1]} escapes datagram_received"
            if problem and worst is None:
                worst = problem
        if not seen_two and worst is None:
            worst = "no path decodes a second message from the same datagram"
        multi += 1
        run.ob("L5", f"{dr.qual}[{recv}]:one-delivery-per-message-in-order", worst is None, loc(dr),
               worst or "each decoded message is delivered once, before the rest of the datagram is decoded; loop runs until the buffer is empty")
    run.floor("L5", multi, 1)
