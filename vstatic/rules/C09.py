"""C09 - TTL expiry fires exactly once, never early; a refresh postpones it.

T1  cancel-on-removal pairing: every path that removes or replaces a stored value cancels its timer
T2  arming: call_later(ttl unscaled, expiry routine, same (address, entry)), handle stored; none for
    the infinite TTL 0xFFFFFF; callers hand over the entry's TTL
T3  once: the expiry routine / stop remove the key first and report exactly once iff it was present
A1  the report happens in the same synchronous step as the removal (message and deadline in one
    event-loop iteration cannot be reordered)
Not decided: that call_later(t) fires after t seconds (asyncio contract), clock resolution.
"""
from __future__ import annotations

from .ordering import Ctx, arming, atomic_notifications, cancel_on_removal, every_removal_reported, expiry_once, reject_before_record


def check(run, prog, tier):
    from . import model as _model
    _model.audit(run, prog, 'C09')
    run.explanation = (
        "TimedStore is analysed as a typestate machine: every stored value owns at most one live timer handle. "
        "All paths of every store-mutating method are enumerated (try/except/loops included); cancel-on-removal, "
        "the arming call and its arguments, removal-before-report and exactly-once reporting are path facts. "
        "Atomicity (the report is made in the same synchronous step as the removal) is decided from whether a "
        "stored callback is called directly or handed to call_soon/call_later - with asyncio's FIFO ready queue "
        "that is exactly the condition under which no other ready callback can run in between."
    )
    run.trusted += ["loop.call_later(t, f) runs f once, not before t seconds, unless the handle is cancelled",
                    "asyncio runs ready callbacks FIFO; callbacks scheduled during an iteration run in a later one"]
    run.not_decided += ["elapsed time of timers and clock resolution"]
    cx = Ctx(run, prog)
    cancel_on_removal(cx, "T1")
    arming(cx, "T2")
    expiry_once(cx, "T3")
    every_removal_reported(cx, "T3")
    atomic_notifications(cx, "A1", "expired")
    # a timer must have a record that owns it: an entry the 'new' callback rejected is not recorded and may not leave a timer
    # (it would fire for the key later and remove a successor)
    reject_before_record(cx, "T2")
