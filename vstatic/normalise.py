"""Source-form normalisation applied to every module before any rule sees it.

Two spellings of the same computation must give the rules the same thing to look at.  The rewrites here are
semantics-preserving and purely local; each is listed with the side conditions checked.

N1  accumulate-by-append loop  ->  list comprehension

        x = []                              x = [ELT for T in IT if COND]
        for T in IT:
            if COND:            (optional)
                x.append(ELT)

    side conditions: the two statements are adjacent in one block; x is a plain local name that occurs in
    neither IT, COND nor ELT; the loop has no else branch and is not async; the names bound by T are not read
    after the loop in the enclosing function (a comprehension does not leak its variable).  The comprehension
    evaluates IT once, then per element COND and ELT in the same order as the loop.
"""
from __future__ import annotations

import ast
import typing as t


def _names(node, ctx=None) -> t.Set[str]:
    return {n.id for n in ast.walk(node) if isinstance(n, ast.Name) and (ctx is None or isinstance(n.ctx, ctx))}


def _empty_list_assign(st) -> t.Optional[str]:
    if isinstance(st, ast.Assign) and len(st.targets) == 1 and isinstance(st.targets[0], ast.Name) \
            and isinstance(st.value, ast.List) and not st.value.elts:
        return st.targets[0].id
    if isinstance(st, ast.AnnAssign) and isinstance(st.target, ast.Name) and isinstance(st.value, ast.List) \
            and not st.value.elts:
        return st.target.id
    return None


def _append_of(st, name) -> t.Optional[ast.AST]:
    if isinstance(st, ast.Expr) and isinstance(st.value, ast.Call) and isinstance(st.value.func, ast.Attribute) \
            and st.value.func.attr == "append" and isinstance(st.value.func.value, ast.Name) \
            and st.value.func.value.id == name and len(st.value.args) == 1 and not st.value.keywords \
            and not isinstance(st.value.args[0], ast.Starred):
        return st.value.args[0]
    return None


def _match(first, loop) -> t.Optional[ast.AST]:
    name = _empty_list_assign(first)
    if name is None or not isinstance(loop, ast.For) or loop.orelse or len(loop.body) != 1:
        return None
    body = loop.body[0]
    cond = None
    if isinstance(body, ast.If) and not body.orelse and len(body.body) == 1:
        cond = body.test
        body = body.body[0]
    elt = _append_of(body, name)
    if elt is None:
        return None
    used = _names(loop.iter) | _names(elt) | (_names(cond) if cond is not None else set())
    if name in used or name in _names(loop.target):
        return None
    for n in ast.walk(ast.Module(body=[loop.iter, elt] + ([cond] if cond is not None else []), type_ignores=[])):
        if isinstance(n, (ast.Yield, ast.YieldFrom, ast.Await, ast.NamedExpr)):
            return None
    comp = ast.ListComp(elt=elt, generators=[ast.comprehension(target=loop.target, iter=loop.iter,
                                                               ifs=[cond] if cond is not None else [], is_async=0)])
    ast.copy_location(comp, loop)
    new = ast.Assign(targets=[ast.Name(id=name, ctx=ast.Store())], value=comp)
    ast.copy_location(new, loop)
    ast.copy_location(new.targets[0], first)
    new.end_lineno = getattr(loop, "end_lineno", None)
    return new


class _N1(ast.NodeTransformer):
    def __init__(self):
        self.count = 0
        self._later_reads: t.List[t.Set[str]] = []

    def _block(self, body, later: t.Set[str]):
        """rewrite one statement list; `later` = names read after this block in the enclosing function"""
        out = []
        i = 0
        while i < len(body):
            st = body[i]
            if i + 1 < len(body):
                new = _match(st, body[i + 1])
                if new is not None:
                    bound = _names(body[i + 1].target)
                    after = set(later)
                    for rest in body[i + 2:]:
                        after |= _names(rest, ast.Load)
                    if not (bound & after):
                        out.append(new)
                        self.count += 1
                        i += 2
                        continue
            out.append(st)
            i += 1
        # recurse into compound statements
        for idx, st in enumerate(out):
            after = set(later)
            for rest in out[idx + 1:]:
                after |= _names(rest, ast.Load)
            if isinstance(st, (ast.FunctionDef, ast.AsyncFunctionDef)):
                st.body = self._block(st.body, set())
            elif isinstance(st, ast.ClassDef):
                st.body = self._block(st.body, set())
            else:
                loopy = after | (_names(st, ast.Load) if isinstance(st, (ast.For, ast.AsyncFor, ast.While)) else set())
                for field in ("body", "orelse", "finalbody"):
                    sub = getattr(st, field, None)
                    if isinstance(sub, list) and sub and isinstance(sub[0], ast.stmt):
                        setattr(st, field, self._block(sub, loopy))
                for h in getattr(st, "handlers", []) or []:
                    h.body = self._block(h.body, loopy)
                for c in getattr(st, "cases", []) or []:
                    c.body = self._block(c.body, loopy)
        return out


def normalise(tree: ast.Module) -> int:
    """rewrites tree in place, returns the number of rewrites"""
    n1 = _N1()
    tree.body = n1._block(tree.body, set())
    ast.fix_missing_locations(tree)
    return n1.count
