"""Source-form normalisation applied to every module before any rule sees it.

Two spellings of the same computation must give the rules the same thing to look at.  The rewrites here are
semantics-preserving and purely local; each is listed with the side conditions checked.

N1  accumulate-by-append loop  ->  list comprehension

        x = []                              x = [ELT for T in IT if COND]
        for T in IT:
            if COND:            (optional)
                x.append(ELT)

    side conditions: the two statements are adjacent in one block; x is a plain local name that occurs in
    neither IT, COND nor ELT; the loop has no else branch and is not async; the names bound by T are not read
    after the loop in the enclosing function (a comprehension does not leak its variable).  The comprehension
    evaluates IT once, then per element COND and ELT in the same order as the loop.

N2  `match` with value patterns -> if/elif chain;  N3  `with contextlib.suppress(E): B` -> try/except E: pass;
N4  `for T in itertools.chain(A, B): B` -> one loop per operand (no break, no else);  N5  eager comprehension over a
generator function -> explicit loop;  N7  `with cm():` over a @contextmanager generator of the module -> the generator's
body around the block.  See the comments at each.  (N6, undoing private renames, works on all modules: renames.py)
"""
from __future__ import annotations

import ast
import typing as t


def _names(node, ctx=None) -> t.Set[str]:
    return {n.id for n in ast.walk(node) if isinstance(n, ast.Name) and (ctx is None or isinstance(n.ctx, ctx))}


def _empty_list_assign(st) -> t.Optional[str]:
    if isinstance(st, ast.Assign) and len(st.targets) == 1 and isinstance(st.targets[0], ast.Name) \
            and isinstance(st.value, ast.List) and not st.value.elts:
        return st.targets[0].id
    if isinstance(st, ast.AnnAssign) and isinstance(st.target, ast.Name) and isinstance(st.value, ast.List) \
            and not st.value.elts:
        return st.target.id
    return None


def _append_of(st, name) -> t.Optional[ast.AST]:
    if isinstance(st, ast.Expr) and isinstance(st.value, ast.Call) and isinstance(st.value.func, ast.Attribute) \
            and st.value.func.attr == "append" and isinstance(st.value.func.value, ast.Name) \
            and st.value.func.value.id == name and len(st.value.args) == 1 and not st.value.keywords \
            and not isinstance(st.value.args[0], ast.Starred):
        return st.value.args[0]
    return None


def _match(first, loop) -> t.Optional[ast.AST]:
    name = _empty_list_assign(first)
    if name is None or not isinstance(loop, ast.For) or loop.orelse or len(loop.body) != 1:
        return None
    body = loop.body[0]
    cond = None
    if isinstance(body, ast.If) and not body.orelse and len(body.body) == 1:
        cond = body.test
        body = body.body[0]
    elt = _append_of(body, name)
    if elt is None:
        return None
    used = _names(loop.iter) | _names(elt) | (_names(cond) if cond is not None else set())
    if name in used or name in _names(loop.target):
        return None
    for n in ast.walk(ast.Module(body=[loop.iter, elt] + ([cond] if cond is not None else []), type_ignores=[])):
        if isinstance(n, (ast.Yield, ast.YieldFrom, ast.Await, ast.NamedExpr)):
            return None
    comp = ast.ListComp(elt=elt, generators=[ast.comprehension(target=loop.target, iter=loop.iter,
                                                               ifs=[cond] if cond is not None else [], is_async=0)])
    ast.copy_location(comp, loop)
    new = ast.Assign(targets=[ast.Name(id=name, ctx=ast.Store())], value=comp)
    ast.copy_location(new, loop)
    ast.copy_location(new.targets[0], first)
    new.end_lineno = getattr(loop, "end_lineno", None)
    return new


class _N1(ast.NodeTransformer):
    def __init__(self):
        self.count = 0
        self._later_reads: t.List[t.Set[str]] = []

    def _block(self, body, later: t.Set[str]):
        """rewrite one statement list; `later` = names read after this block in the enclosing function"""
        out = []
        i = 0
        while i < len(body):
            st = body[i]
            if i + 1 < len(body):
                new = _match(st, body[i + 1])
                if new is not None:
                    bound = _names(body[i + 1].target)
                    after = set(later)
                    for rest in body[i + 2:]:
                        after |= _names(rest, ast.Load)
                    if not (bound & after):
                        out.append(new)
                        self.count += 1
                        i += 2
                        continue
            out.append(st)
            i += 1
        # recurse into compound statements
        for idx, st in enumerate(out):
            after = set(later)
            for rest in out[idx + 1:]:
                after |= _names(rest, ast.Load)
            if isinstance(st, (ast.FunctionDef, ast.AsyncFunctionDef)):
                st.body = self._block(st.body, set())
            elif isinstance(st, ast.ClassDef):
                st.body = self._block(st.body, set())
            else:
                loopy = after | (_names(st, ast.Load) if isinstance(st, (ast.For, ast.AsyncFor, ast.While)) else set())
                for field in ("body", "orelse", "finalbody"):
                    sub = getattr(st, field, None)
                    if isinstance(sub, list) and sub and isinstance(sub[0], ast.stmt):
                        setattr(st, field, self._block(sub, loopy))
                for h in getattr(st, "handlers", []) or []:
                    h.body = self._block(h.body, loopy)
                for c in getattr(st, "cases", []) or []:
                    c.body = self._block(c.body, loopy)
        return out


# ------------------------------------------------------------------------------------------------
# N2  match statement with value patterns  ->  if / elif chain on a temporary
#
#       match SUBJ:                         _match_L = SUBJ
#           case A.B | 3:  X                if _match_L == A.B or _match_L == 3:  X
#           case None:     Y                elif _match_L is None:  Y
#           case _ if G:   Z                elif G:  Z
#           case _:        W                else:  W
#
#     only value patterns (constants, dotted names), None/True/False, `Cls()` (isinstance), `|` of those, and the wildcard `_`
#     (optionally with a guard) are rewritten; capture / sequence / mapping / class patterns are left alone.
def _pattern_test(pat, subj_name, at):
    def subj():
        return ast.copy_location(ast.Name(id=subj_name, ctx=ast.Load()), at)
    if isinstance(pat, ast.MatchValue):
        return ast.copy_location(ast.Compare(left=subj(), ops=[ast.Eq()], comparators=[pat.value]), at)
    if isinstance(pat, ast.MatchSingleton):
        return ast.copy_location(ast.Compare(left=subj(), ops=[ast.Is()], comparators=[ast.copy_location(ast.Constant(value=pat.value), at)]), at)
    if isinstance(pat, ast.MatchOr):
        tests = [_pattern_test(p, subj_name, at) for p in pat.patterns]
        if any(t_ is None or t_ is True for t_ in tests):
            return None
        return ast.copy_location(ast.BoolOp(op=ast.Or(), values=tests), at)
    if isinstance(pat, ast.MatchClass) and not pat.patterns and not pat.kwd_patterns:
        # `case Cls():` is an isinstance test
        call = ast.Call(func=ast.copy_location(ast.Name(id="isinstance", ctx=ast.Load()), at), args=[subj(), pat.cls], keywords=[])
        return ast.copy_location(call, at)
    if isinstance(pat, ast.MatchAs) and pat.pattern is None and pat.name is None:
        return True  # wildcard
    return None


def _rewrite_match(st: ast.Match):
    name = f"_match_{st.lineno}"
    arms = []
    for case in st.cases:
        t_ = _pattern_test(case.pattern, name, case.pattern)
        if t_ is None:
            return None
        if t_ is True:
            t_ = case.guard  # None = unconditional
        elif case.guard is not None:
            t_ = ast.copy_location(ast.BoolOp(op=ast.And(), values=[t_, case.guard]), case.pattern)
        arms.append((t_, case.body))
    assign = ast.copy_location(ast.Assign(targets=[ast.copy_location(ast.Name(id=name, ctx=ast.Store()), st)], value=st.subject), st)
    chain: t.List[ast.stmt] = []
    for test, body in reversed(arms):
        if test is None:
            chain = list(body)  # unconditional arm: later arms are unreachable
        else:
            node = ast.If(test=test, body=list(body), orelse=chain)
            ast.copy_location(node, body[0])
            chain = [node]
    return [assign] + chain


# N3  with contextlib.suppress(E1, E2): BODY   ->   try: BODY  except (E1, E2): pass
def _rewrite_suppress(st: ast.With):
    if len(st.items) != 1 or st.items[0].optional_vars is not None:
        return None
    ce = st.items[0].context_expr
    if not (isinstance(ce, ast.Call) and not ce.keywords and ce.args and
            ((isinstance(ce.func, ast.Attribute) and ce.func.attr == "suppress" and isinstance(ce.func.value, ast.Name)
              and ce.func.value.id == "contextlib") or (isinstance(ce.func, ast.Name) and ce.func.id == "suppress"))):
        return None
    typ = ce.args[0] if len(ce.args) == 1 else ast.copy_location(ast.Tuple(elts=list(ce.args), ctx=ast.Load()), ce)
    h = ast.ExceptHandler(type=typ, name=None, body=[ast.copy_location(ast.Pass(), st)])
    ast.copy_location(h, st)
    return [ast.copy_location(ast.Try(body=list(st.body), handlers=[h], orelse=[], finalbody=[]), st)]


# N4  for T in itertools.chain(A, B, ..): BODY   ->   for T in A: BODY;  for T in B: BODY
#     (only without `break` at that loop level and without else: then the two loops visit the same elements in the same order)
def _has_break(body) -> bool:
    stack = list(body)
    while stack:
        n = stack.pop()
        if isinstance(n, ast.Break):
            return True
        if isinstance(n, (ast.For, ast.AsyncFor, ast.While, ast.FunctionDef, ast.AsyncFunctionDef, ast.Lambda, ast.ClassDef)):
            continue
        stack.extend(ast.iter_child_nodes(n))
    return False


def _rewrite_chain(st: ast.For):
    it = st.iter
    if st.orelse or not (isinstance(it, ast.Call) and not it.keywords and len(it.args) >= 2 and
                         ((isinstance(it.func, ast.Attribute) and it.func.attr == "chain" and isinstance(it.func.value, ast.Name)
                           and it.func.value.id == "itertools") or (isinstance(it.func, ast.Name) and it.func.id == "chain"))):
        return None
    if any(isinstance(a, ast.Starred) for a in it.args) or _has_break(st.body):
        return None
    import copy
    out = []
    for i, a in enumerate(it.args):
        body = st.body if i == 0 else copy.deepcopy(st.body)
        loop = ast.For(target=st.target if i == 0 else copy.deepcopy(st.target), iter=a, body=body, orelse=[], type_comment=None)
        ast.copy_location(loop, a)
        out.append(loop)
    return out


class _Stmts(ast.NodeTransformer):
    """statement-level rewrites N2-N4 (a rewrite may turn one statement into several)"""

    def __init__(self):
        self.count = 0

    def _list(self, body):
        out = []
        for st in body:
            st = self.generic_visit(st)
            new = None
            if isinstance(st, ast.Match):
                new = _rewrite_match(st)
            elif isinstance(st, ast.With):
                new = _rewrite_suppress(st)
            elif isinstance(st, ast.For):
                new = _rewrite_chain(st)
            if new is not None:
                self.count += 1
                out.extend(new)
            else:
                out.append(st)
        return out

    def generic_visit(self, node):
        for field in ("body", "orelse", "finalbody"):
            sub = getattr(node, field, None)
            if isinstance(sub, list) and sub and isinstance(sub[0], ast.stmt):
                setattr(node, field, self._list(sub))
        for h in getattr(node, "handlers", []) or []:
            h.body = self._list(h.body)
        for c in getattr(node, "cases", []) or []:
            c.body = self._list(c.body)
        return node


# ------------------------------------------------------------------------------------------------
# N5  comprehension over a generator function of the same module, consumed eagerly  ->  explicit loop
#
#       return C(tuple(ELT for T in gen(ARGS) if COND))        _gen_L = []
#                                                               for T in gen(ARGS):
#                                                                   if COND: _gen_L.append(ELT)
#                                                               return C(tuple(_gen_L))
#
#     so that the generator's body is analysed in place (the path enumerator runs generators inside `for` statements).
#     side conditions: `gen` is (by name) a function of this module that contains `yield`; the comprehension has one
#     generator clause; it is a list comprehension or a generator expression that is the only argument of an eager
#     consumer (tuple, list, set, frozenset, sorted, sum, min, max, "".join); apart from the comprehension's ancestors the
#     statement contains no other call / await (nothing whose evaluation order relative to the loop could matter).
_EAGER = {"tuple", "list", "set", "frozenset", "sorted", "sum", "min", "max"}


def _generator_names(tree) -> t.Set[str]:
    out = set()
    for n in ast.walk(tree):
        if isinstance(n, ast.FunctionDef):
            stack = list(n.body)
            while stack:
                x = stack.pop()
                if isinstance(x, (ast.Yield, ast.YieldFrom)):
                    out.add(n.name)
                    break
                if isinstance(x, (ast.FunctionDef, ast.AsyncFunctionDef, ast.Lambda, ast.ClassDef)):
                    continue
                stack.extend(ast.iter_child_nodes(x))
    return out


class _N5:
    def __init__(self, gens: t.Set[str]):
        self.gens = gens
        self.count = 0

    def _candidate(self, st):
        """-> (comprehension node, parent node, field, index) or None"""
        if not isinstance(st, (ast.Return, ast.Assign, ast.AnnAssign, ast.Expr)) or getattr(st, "value", None) is None:
            return None
        parents = {}
        for p in ast.walk(st):
            for ch in ast.iter_child_nodes(p):
                parents[ch] = p
        for n in ast.walk(st):
            if not isinstance(n, (ast.ListComp, ast.GeneratorExp)) or len(n.generators) != 1 or n.generators[0].is_async:
                continue
            it = n.generators[0].iter
            if not (isinstance(it, ast.Call) and ((isinstance(it.func, ast.Attribute) and it.func.attr in self.gens) or
                                                   (isinstance(it.func, ast.Name) and it.func.id in self.gens))):
                continue
            par = parents.get(n)
            if isinstance(n, ast.GeneratorExp):
                ok = isinstance(par, ast.Call) and par.args == [n] and not par.keywords and (
                    (isinstance(par.func, ast.Name) and par.func.id in _EAGER) or
                    (isinstance(par.func, ast.Attribute) and par.func.attr == "join"))
                if not ok:
                    continue
            anc = set()
            cur = n
            while cur in parents:
                cur = parents[cur]
                anc.add(cur)
            inside = set(ast.walk(n))
            other = [x for x in ast.walk(st) if isinstance(x, (ast.Call, ast.Await, ast.Yield, ast.YieldFrom, ast.NamedExpr))
                     and x not in anc and x not in inside]
            if other:
                continue
            return n, par
        return None

    def block(self, body):
        out = []
        for st in body:
            for field in ("body", "orelse", "finalbody"):
                sub = getattr(st, field, None)
                if isinstance(sub, list) and sub and isinstance(sub[0], ast.stmt):
                    setattr(st, field, self.block(sub))
            for h in getattr(st, "handlers", []) or []:
                h.body = self.block(h.body)
            cand = self._candidate(st)
            if cand is None:
                out.append(st)
                continue
            comp, par = cand
            g = comp.generators[0]
            name = f"_gen_{comp.lineno}_{comp.col_offset}"
            init = ast.copy_location(ast.Assign(targets=[ast.copy_location(ast.Name(id=name, ctx=ast.Store()), comp)],
                                                value=ast.copy_location(ast.List(elts=[], ctx=ast.Load()), comp)), comp)
            app = ast.copy_location(ast.Expr(value=ast.copy_location(ast.Call(
                func=ast.copy_location(ast.Attribute(value=ast.copy_location(ast.Name(id=name, ctx=ast.Load()), comp), attr="append", ctx=ast.Load()), comp),
                args=[comp.elt], keywords=[]), comp)), comp)
            inner: ast.stmt = app
            for c in reversed(g.ifs):
                inner = ast.copy_location(ast.If(test=c, body=[inner], orelse=[]), c)
            loop = ast.copy_location(ast.For(target=g.target, iter=g.iter, body=[inner], orelse=[], type_comment=None), comp)
            ref = ast.copy_location(ast.Name(id=name, ctx=ast.Load()), comp)
            for field, val in ast.iter_fields(par):
                if val is comp:
                    setattr(par, field, ref)
                elif isinstance(val, list) and comp in val:
                    val[val.index(comp)] = ref
            self.count += 1
            out.extend([init, loop, st])
        return out


# ------------------------------------------------------------------------------------------------
# N7  `with cm(ARGS) [as X]: BODY`  where cm is a @contextlib.contextmanager generator of this module  ->  the
#     generator's body with its single `yield [V]` replaced by `[X = V;] BODY`
#
#     contextlib runs the generator up to the yield on entry, BODY, and resumes it on exit: normally after the yield,
#     or - when BODY raised - by throwing the exception in at the yield, where the generator's own except / finally
#     clauses see it exactly as if BODY stood there.  Side conditions: one `with` item; cm is (by name, unique in the
#     module) a function decorated with `contextmanager` that contains exactly one yield, not inside a loop or a nested
#     function, and no `return`; it is called as `cm(..)`, `self.cm(..)` or `cls.cm(..)` with plain positional
#     arguments, one per parameter (no defaults, no */**); if BODY contains return / break / continue, the yield is the
#     last statement of every block around it and no enclosing try has an else branch (then nothing of the generator is
#     skipped that __exit__ would have run).  Locals and parameters of the generator get a unique suffix.
def _cm_defs(tree) -> t.Dict[str, ast.FunctionDef]:
    out: t.Dict[str, t.Optional[ast.FunctionDef]] = {}
    for n in ast.walk(tree):
        if isinstance(n, ast.FunctionDef) and any(ast.unparse(d).split("(")[0].split(".")[-1] == "contextmanager"
                                                  for d in n.decorator_list):
            out[n.name] = None if n.name in out else n
    return {k: v for k, v in out.items() if v is not None}


def _single_yield_path(fn: ast.FunctionDef):
    """-> list of (block list, index) from the function body down to the statement `yield [V]`, or None"""
    found = []

    def search(body, trail):
        for i, st in enumerate(body):
            if isinstance(st, ast.Expr) and isinstance(st.value, ast.Yield):
                found.append(trail + [(body, i, None)])
                continue
            if isinstance(st, (ast.FunctionDef, ast.AsyncFunctionDef, ast.ClassDef)):
                continue
            if any(isinstance(x, (ast.Yield, ast.YieldFrom)) for x in ast.walk(st)):
                if isinstance(st, (ast.For, ast.While, ast.AsyncFor)):
                    found.append(None)
                    continue
                if isinstance(st, (ast.Try, ast.If, ast.With)):
                    for field in ("body", "orelse", "finalbody"):
                        sub = getattr(st, field, None)
                        if isinstance(sub, list):
                            search(sub, trail + [(body, i, field)])
                    for h in getattr(st, "handlers", []) or []:
                        search(h.body, trail + [(body, i, "handler")])
                else:
                    found.append(None)
    search(fn.body, [])
    if len(found) != 1 or found[0] is None:
        return None
    if any(isinstance(x, ast.Return) for x in ast.walk(fn)):
        return None
    return found[0]


def _expand_cm(st: ast.With, cms: t.Dict[str, ast.FunctionDef]):
    import copy
    if len(st.items) != 1 or not isinstance(st.items[0].context_expr, ast.Call):
        return None
    call = st.items[0].context_expr
    f = call.func
    via_self = None
    if isinstance(f, ast.Name):
        name = f.id
    elif isinstance(f, ast.Attribute) and isinstance(f.value, ast.Name) and f.value.id in ("self", "cls"):
        name, via_self = f.attr, f.value.id
    else:
        return None
    fn = cms.get(name)
    if fn is None or call.keywords or any(isinstance(a, ast.Starred) for a in call.args):
        return None
    a = fn.args
    if a.vararg or a.kwarg or a.kwonlyargs or a.defaults or a.posonlyargs:
        return None
    params = [x.arg for x in a.args]
    if via_self is not None:
        if not params or params[0] != via_self:
            return None
        params = params[1:]
    if len(params) != len(call.args):
        return None
    trail = _single_yield_path(fn)
    if trail is None:
        return None
    jumps = any(isinstance(x, (ast.Return, ast.Break, ast.Continue)) for b in st.body for x in ast.walk(b))
    if jumps:
        for body, i, field in trail:
            if i != len(body) - 1:
                return None
            if field == "body" and isinstance(body[i], ast.Try) and body[i].orelse:
                return None
    fn2 = copy.deepcopy(fn)
    trail2 = _single_yield_path(fn2)
    suffix = f"_cm{st.lineno}"
    local = set(params)
    for n in ast.walk(fn2):
        if isinstance(n, ast.Name) and isinstance(n.ctx, (ast.Store, ast.Del)):
            local.add(n.id)
        elif isinstance(n, ast.ExceptHandler) and n.name:
            local.add(n.name)
    for n in ast.walk(fn2):
        if isinstance(n, ast.Name) and n.id in local:
            n.id = n.id + suffix
        elif isinstance(n, ast.ExceptHandler) and n.name in local:
            n.name = n.name + suffix
    body, i, _ = trail2[-1]
    ystmt = body[i]
    repl = []
    if st.items[0].optional_vars is not None:
        val = ystmt.value.value if ystmt.value.value is not None else ast.Constant(value=None)
        repl.append(ast.copy_location(ast.Assign(targets=[st.items[0].optional_vars], value=val), st))
    repl.extend(st.body)
    body[i:i + 1] = repl
    pre = [ast.copy_location(ast.Assign(targets=[ast.Name(id=p_ + suffix, ctx=ast.Store())], value=arg), st)
           for p_, arg in zip(params, call.args)]
    out = pre + [x for x in fn2.body if not (isinstance(x, ast.Expr) and isinstance(x.value, ast.Constant)
                                              and isinstance(x.value.value, str))]
    return out or [ast.copy_location(ast.Pass(), st)]


class _N7:
    def __init__(self, cms):
        self.cms = cms
        self.count = 0

    def block(self, body):
        out = []
        for st in body:
            for field in ("body", "orelse", "finalbody"):
                sub = getattr(st, field, None)
                if isinstance(sub, list) and sub and isinstance(sub[0], ast.stmt):
                    setattr(st, field, self.block(sub))
            for h in getattr(st, "handlers", []) or []:
                h.body = self.block(h.body)
            new = _expand_cm(st, self.cms) if isinstance(st, ast.With) else None
            if new is not None:
                self.count += 1
                out.extend(new)
            else:
                out.append(st)
        return out


# ------------------------------------------------------------------------------------------------
# N8  filter / itertools.filterfalse / map over a pure callable  ->  the generator expression they abbreviate
#
#       filter(F, XS)                 (e for e in XS if F(e))          filter(None, XS)   (e for e in XS if e)
#       itertools.filterfalse(F, XS)  (e for e in XS if not F(e))
#       map(F, XS)                    (F(e) for e in XS)
#     with F one of: a plain name / dotted name (a reference, evaluated to the same object every time);
#     operator.methodcaller("m", A..)  [F(e) is e.m(A..)];  functools.partial(G, A.., k=K..)  [F(e) is G(A.., e, k=K..)] where
#     G is a reference and every A / K is a name, dotted name or constant.  list(<generator expression>) becomes the list
#     comprehension.  One iterable only (map with several is left alone).  The element name is fresh.
def _pure_ref(n) -> bool:
    while isinstance(n, ast.Attribute):
        n = n.value
    return isinstance(n, ast.Name)


def _pure_arg(n) -> bool:
    return isinstance(n, ast.Constant) or _pure_ref(n)


def _apply_callable(f, elem):
    """AST of F(elem) for a recognised pure callable expression F, or None"""
    if isinstance(f, ast.Constant) and f.value is None:
        return elem
    if _pure_ref(f):
        return ast.Call(func=f, args=[elem], keywords=[])
    if isinstance(f, ast.Call) and _pure_ref(f.func):
        name = ast.unparse(f.func).split(".")[-1]
        if name == "methodcaller" and f.args and isinstance(f.args[0], ast.Constant) and isinstance(f.args[0].value, str) \
                and f.args[0].value.isidentifier() and all(_pure_arg(a) for a in f.args[1:]) \
                and all(k.arg is not None and _pure_arg(k.value) for k in f.keywords):
            return ast.Call(func=ast.Attribute(value=elem, attr=f.args[0].value, ctx=ast.Load()), args=list(f.args[1:]), keywords=list(f.keywords))
        if name == "partial" and f.args and _pure_ref(f.args[0]) and all(_pure_arg(a) for a in f.args[1:]) \
                and all(k.arg is not None and _pure_arg(k.value) for k in f.keywords):
            return ast.Call(func=f.args[0], args=list(f.args[1:]) + [elem], keywords=list(f.keywords))
    return None


class _N8(ast.NodeTransformer):
    def __init__(self):
        self.count = 0

    def visit_Call(self, node):
        self.generic_visit(node)
        fn = ast.unparse(node.func) if _pure_ref(node.func) else ""
        last = fn.split(".")[-1]
        if last in ("filter", "filterfalse", "map") and fn in ("filter", "map", "itertools.filterfalse", "filterfalse") \
                and len(node.args) == 2 and not node.keywords and not isinstance(node.args[1], ast.Starred):
            name = f"_e_{node.lineno}_{node.col_offset}"
            elem = ast.Name(id=name, ctx=ast.Load())
            app = _apply_callable(node.args[0], elem)
            if app is not None and not (last == "map" and app is elem):
                tgt = ast.Name(id=name, ctx=ast.Store())
                if last == "map":
                    gen = ast.GeneratorExp(elt=app, generators=[ast.comprehension(target=tgt, iter=node.args[1], ifs=[], is_async=0)])
                else:
                    cond = app if last == "filter" else ast.UnaryOp(op=ast.Not(), operand=app)
                    gen = ast.GeneratorExp(elt=ast.Name(id=name, ctx=ast.Load()),
                                           generators=[ast.comprehension(target=tgt, iter=node.args[1], ifs=[cond], is_async=0)])
                self.count += 1
                return ast.fix_missing_locations(ast.copy_location(gen, node))
        if fn == "list" and len(node.args) == 1 and not node.keywords and isinstance(node.args[0], ast.GeneratorExp):
            g = node.args[0]
            self.count += 1
            return ast.copy_location(ast.ListComp(elt=g.elt, generators=g.generators), node)
        return node


# ------------------------------------------------------------------------------------------------
# N9  a private *parameter object* is taken apart again
#
#       def _f(self, ttl, batch: _Batch): ...          def _f(self, ttl, batch__remote, batch__groups):
#           use(batch.remote)                               batch = _Batch(batch__remote, batch__groups)
#                                                           use(batch.remote)
#       self._f(3, _Batch(r, g))                        self._f(3, r, g)
#       self._f(3, b)                                   self._f(3, b.remote, b.groups)
#       loop.call_soon(self._f, 3, b)                   loop.call_soon(self._f, 3, b.remote, b.groups)
#
#     "Introduce parameter object" moves several parameters of private functions into one small value class.  The rules
#     address parameters of the functions they were written against by position; with the object taken apart the fields
#     stand where the parameters stood (provided the fields are declared in the order the parameters had - otherwise the
#     rules that depend on it report what they see, or cannot decide).  Side conditions: the class is defined in this
#     module, is not part of the baseline, is a frozen dataclass or a NamedTuple whose fields have no defaults and that
#     defines no __init__ / __post_init__ / __new__; the function is private, its name is unique in the module, the
#     parameter is annotated with exactly that class; every reference to the function in the module is a call (or a value
#     position of call_soon / call_later / call_at / partial / create_task-free scheduling) whose corresponding argument is
#     a constructor call of the class with all fields given, or a plain name.  Otherwise nothing is rewritten.
def _param_object_classes(tree, baseline_classes, short):
    out = {}
    for st in tree.body:
        if not isinstance(st, ast.ClassDef) or f"{short}.{st.name}" in baseline_classes:
            continue
        decs = [ast.unparse(d) for d in st.decorator_list]
        frozen_dc = any(d.split("(")[0].split(".")[-1] == "dataclass" and "frozen=True" in d.replace(" ", "") for d in decs)
        nt = any(ast.unparse(b).split(".")[-1] == "NamedTuple" for b in st.bases)
        if not (frozen_dc or nt):
            continue
        if any(isinstance(x, ast.FunctionDef) and x.name in ("__init__", "__post_init__", "__new__") for x in st.body):
            continue
        fields, ok = [], True
        for x in st.body:
            if isinstance(x, ast.AnnAssign) and isinstance(x.target, ast.Name):
                if "ClassVar" in ast.unparse(x.annotation):
                    continue
                if x.value is not None:
                    ok = False
                fields.append(x.target.id)
                _FIELD_ANN[(st.name, x.target.id)] = x.annotation
        bases = [ast.unparse(b).split("[")[0].split(".")[-1] for b in st.bases]
        inherited = []
        for b in bases:
            if b in ("NamedTuple", "Generic", "object"):
                continue
            if b in out and frozen_dc:
                inherited += out[b]  # dataclass inheritance: the base's fields come first
                for f_ in out[b]:
                    _FIELD_ANN[(st.name, f_)] = _FIELD_ANN.get((b, f_))
            else:
                ok = False
        if ok and (inherited + fields):
            out[st.name] = inherited + fields
    return out


_FIELD_ANN: t.Dict[t.Tuple[str, str], ast.AST] = {}


_SCHEDULERS = {"call_soon": 0, "call_soon_threadsafe": 0, "call_later": 1, "call_at": 1, "partial": 0}


def _take_apart_parameter_objects(tree, baseline_classes, short) -> int:
    classes = _param_object_classes(tree, baseline_classes, short)
    if not classes:
        return 0
    defs = {}
    for n in ast.walk(tree):
        if isinstance(n, (ast.FunctionDef, ast.AsyncFunctionDef)):
            defs.setdefault(n.name, []).append(n)
    parents = {}
    for n in ast.walk(tree):
        for c in ast.iter_child_nodes(n):
            parents[c] = n
    count = 0
    for name, fns in sorted(defs.items()):
        if len(fns) != 1 or not name.startswith("_") or name.startswith("__"):
            continue
        fn = fns[0]
        a = fn.args
        if a.vararg or a.kwarg or a.posonlyargs:
            continue
        params = [x.arg for x in a.args]
        is_method = isinstance(parents.get(fn), ast.ClassDef) and not any(
            ast.unparse(d).split(".")[-1] == "staticmethod" for d in fn.decorator_list)
        hits = [(i, x) for i, x in enumerate(a.args) if x.annotation is not None and
                ast.unparse(x.annotation).strip("'\"").split(".")[-1] in classes]
        if len(hits) != 1:
            continue
        pi, parg = hits[0]
        n_def = len(a.defaults)
        if pi >= len(a.args) - n_def:
            continue  # the parameter has a default
        cname = ast.unparse(parg.annotation).strip("'\"").split(".")[-1]
        fields = classes[cname]
        call_index = pi - (1 if is_method else 0)
        # ---- all references
        plan, ok = [], True
        for n in ast.walk(tree):
            ref = (isinstance(n, ast.Attribute) and n.attr == name) or (isinstance(n, ast.Name) and n.id == name and isinstance(n.ctx, ast.Load))
            if not ref:
                continue
            par = parents.get(n)
            if isinstance(par, ast.Call) and par.func is n:
                call, off = par, 0
            elif isinstance(par, ast.Call) and n in par.args and isinstance(par.func, (ast.Attribute, ast.Name)):
                sched = par.func.attr if isinstance(par.func, ast.Attribute) else par.func.id
                if sched not in _SCHEDULERS or par.args.index(n) != _SCHEDULERS[sched]:
                    ok = False
                    break
                call, off = par, par.args.index(n) + 1
            else:
                ok = False
                break
            if any(isinstance(x, ast.Starred) for x in call.args) or any(k.arg is None for k in call.keywords):
                ok = False
                break
            pos = off + call_index
            if pos < len(call.args):
                E, where = call.args[pos], ("pos", pos)
            else:
                kws = [k for k in call.keywords if k.arg == parg.arg]
                if len(kws) != 1 or off:
                    ok = False
                    break
                E, where = kws[0].value, ("kw", kws[0])
            if isinstance(E, ast.Call) and ast.unparse(E.func).split(".")[-1] == cname and not any(isinstance(x, ast.Starred) for x in E.args) \
                    and all(k.arg in fields for k in E.keywords) and len(E.args) + len(E.keywords) == len(fields):
                given = dict(zip(fields, E.args))
                given.update({k.arg: k.value for k in E.keywords})
                if set(given) != set(fields):
                    ok = False
                    break
                parts = [given[f] for f in fields]
            elif isinstance(E, ast.Name):
                parts = [ast.Attribute(value=ast.Name(id=E.id, ctx=ast.Load()), attr=f, ctx=ast.Load()) for f in fields]
            else:
                ok = False
                break
            plan.append((call, where, parts))
        if not ok or not plan:
            continue
        # ---- rewrite the call sites
        for call, where, parts in plan:
            if where[0] == "pos":
                call.args[where[1]:where[1] + 1] = parts
            else:
                call.keywords.remove(where[1])
                call.keywords.extend(ast.keyword(arg=f"{parg.arg}__{f}", value=v) for f, v in zip(fields, parts))
        # ---- and the definition
        import copy as _copy
        newargs = [ast.arg(arg=f"{parg.arg}__{f}", annotation=_copy.deepcopy(_FIELD_ANN.get((cname, f)))) for f in fields]
        a.args[pi:pi + 1] = newargs
        ctor = ast.Call(func=ast.Name(id=cname, ctx=ast.Load()), args=[ast.Name(id=x.arg, ctx=ast.Load()) for x in newargs], keywords=[])
        pro = ast.Assign(targets=[ast.Name(id=parg.arg, ctx=ast.Store())], value=ctor)
        at = 1 if fn.body and isinstance(fn.body[0], ast.Expr) and isinstance(fn.body[0].value, ast.Constant) and isinstance(fn.body[0].value.value, str) else 0
        fn.body.insert(at, ast.copy_location(pro, fn))
        count += 1
    if count:
        ast.fix_missing_locations(tree)
    return count


def normalise(tree: ast.Module, baseline_classes=frozenset(), short: str = "") -> int:
    """rewrites tree in place, returns the number of rewrites"""
    n8 = _N8()
    n8.visit(tree)
    ast.fix_missing_locations(tree)
    n9 = _take_apart_parameter_objects(tree, baseline_classes, short) if short else 0
    n8.count += n9
    st = _Stmts()
    tree.body = st._list(tree.body)
    n1 = _N1()
    tree.body = n1._block(tree.body, set())
    n5 = _N5(_generator_names(tree))
    if n5.gens:
        tree.body = n5.block(tree.body)
    n7 = _N7(_cm_defs(tree))
    if n7.cms:
        tree.body = n7.block(tree.body)
        # a private context manager whose every use was expanded is dead code: drop the definition (its statements
        # now stand where they run)
        for name, fn in n7.cms.items():
            if not name.startswith("_"):
                continue
            inside = set(ast.walk(fn))
            if any((isinstance(n, ast.Attribute) and n.attr == name) or (isinstance(n, ast.Name) and n.id == name)
                   for n in ast.walk(tree) if n not in inside):
                continue
            for par in ast.walk(tree):
                b = getattr(par, "body", None)
                if isinstance(b, list) and fn in b:
                    b.remove(fn)
                    if not b:
                        b.append(ast.copy_location(ast.Pass(), fn))
    ast.fix_missing_locations(tree)
    return n1.count + st.count + n5.count + n7.count + n8.count
