"""Event-loop ordering model.

From an entry point (a function asyncio or the application calls) all effects reachable through
synchronous calls and through scheduling requests are collected with a *stamp*

    (wave, (i0, i1, ..., iw))

wave   = number of call_soon / create_task edges crossed (deferral depth),
i_k    = position (event index on the enumerated path) of the scheduling request in wave k that led
         to this effect, the last component being the position of the effect itself.

asyncio's ready queue is FIFO and every callback ready at the start of an iteration runs before
anything it schedules, so for effects of one entry:  a happens before b  iff  stamp(a) < stamp(b)
lexicographically (wave first).  call_later edges start new entries (timers) and are recorded as
'timer' effects but not followed.

Stored callbacks (TimedStore slots, SendCollector.callback) are resolved through an allocation
site sensitive slot table: which bound methods the owner passes at its refresh()/constructor sites.
"""
from __future__ import annotations

import typing as t

from .facts import AnalysisError, FuncInfo, Program
from .sym import Engine, Event, Path, Policy
from .terms import const, contains, is_const, show, strip_sites, subterms
from .util import NoInline, Scan

LISTENER_METHODS = {
    "sd.ClientServiceListener.service_offered": "offered",
    "sd.ClientServiceListener.service_stopped": "stopped",
    "sd.ServerServiceListener.client_subscribed": "subscribed",
    "sd.ServerServiceListener.client_unsubscribed": "unsubscribed",
}
MUTATORS = {"pop": "-", "clear": "-", "remove": "-", "discard": "-", "popitem": "-",
            "append": "+", "add": "+", "extend": "+", "update": "+", "setdefault": "+", "insert": "+"}


class Eff:
    __slots__ = ("kind", "what", "ev", "wave", "stamp", "chain", "detail", "in_loop")

    def __init__(self, kind, what, ev, wave, stamp, chain, detail=None):
        self.kind = kind      # notify | state | send | sched | timer | call
        self.what = what      # e.g. 'offered', ('sd.TimedStore','store','-'), ...
        self.ev: Event = ev
        self.wave = wave
        self.stamp = stamp
        self.chain: t.Tuple[str, ...] = chain
        self.detail = detail
        self.in_loop = ev.loopdepth > 0

    @property
    def key(self):
        return (self.wave, self.stamp)

    def before(self, other: "Eff") -> bool:
        return self.key < other.key

    def __repr__(self):
        return f"<Eff {self.kind}:{self.what} wave={self.wave} {self.stamp} via {'>'.join(c.split('.')[-1] for c in self.chain[-4:])} @{self.ev.loc}>"


class DeepInline(Policy):
    """policy of the ordering analysis: nothing is spliced (each function is enumerated alone and
    callees are entered 'virtually' by Effects.collect), loops unrolled `unroll` times"""

    def __init__(self, max_depth=0, unroll=1, skip=()):
        self.max_depth = 0
        self.unroll = unroll
        self.inline_properties = False
        self.inline_ctors = False

    def inline(self, fi, depth, ev):
        return False


class Slots:
    """allocation-site sensitive bindings of stored callbacks"""

    def __init__(self, prog: Program, scan: t.Optional[Scan] = None):
        self.prog = prog
        self.scan = scan or Scan(prog)
        self.eng = self.scan.eng
        self.store_slots: t.Dict[int, str] = {}      # tuple index in TimedStore.store value -> refresh param
        self.refresh_sites: t.List[t.Tuple[FuncInfo, Event]] = []
        self.ctor_sites: t.Dict[str, t.List[t.Tuple[FuncInfo, Event]]] = {}
        self._index()

    def _index(self):
        prog = self.prog
        ts = prog.classes.get("sd.TimedStore")
        if ts is not None:
            refresh = prog.lookup_method("sd.TimedStore", "refresh")
            if refresh is not None:
                for e in self.scan.events(refresh.qual):
                    if e.kind == "store" and e.target[0] == "item" and e.value[0] == "tuple" and contains(
                            e.target, lambda s: s[0] == "attr" and s[2] == "store"):
                        for i, x in enumerate(e.value[1]):
                            if x[0] == "param":
                                self.store_slots[i] = x[2]
                for fi, recv, e in self.scan.callers_of(refresh.qual):
                    if not e.sched:
                        self.refresh_sites.append((fi, e))
        for fi, recv, e in self.scan.all():
            if e.kind == "call" and e.fterm is not None and e.fterm[0] == "cls" and e.fterm[1] in prog.classes:
                self.ctor_sites.setdefault(e.fterm[1], []).append((fi, e))

    # ---- TimedStore ---------------------------------------------------------
    def store_owner(self, tm) -> t.Optional[tuple]:
        """the TimedStore object term R if tm is derived from R.store"""
        for s in subterms(tm):
            if s[0] == "attr" and s[2] == "store":
                ty = self.eng.typer.type_of(s[1])
                if ty == ("cls", "sd.TimedStore") or s[1] == ("self", "sd.TimedStore"):
                    return s[1]
        return None

    def slot_index(self, tm) -> t.Optional[int]:
        cur = tm
        if cur[0] == "item" and is_const(cur[2]) and isinstance(cur[2][1], int):
            return cur[2][1]
        return None

    def refresh_param_bindings(self, owner: tuple, param: str) -> t.List[tuple]:
        """terms passed for `param` of refresh() at the call sites whose receiver is `owner`
        (any owner when the store is analysed stand-alone)"""
        refresh = self.prog.lookup_method("sd.TimedStore", "refresh")
        names = refresh.params()[1:]
        idx = names.index(param)
        out = []
        for fi, e in self.refresh_sites:
            if owner[0] == "self" and owner[1] == "sd.TimedStore":
                pass
            elif strip_sites(e.recv) != strip_sites(owner):
                # same attribute on the same class (receiver 'self' may be typed as a subclass)
                if not (e.recv[0] == "attr" and owner[0] == "attr" and e.recv[2] == owner[2]
                        and self._same_obj(e.recv[1], owner[1])):
                    continue
            a = e.arg(idx, param)
            if a is not None:
                out.append(self._rebase(a, e.recv, owner))
        return out

    def _same_obj(self, a, b) -> bool:
        ta, tb = self.eng.typer.type_of(a), self.eng.typer.type_of(b)
        if ta and tb and ta[0] == "cls" and tb[0] == "cls":
            return self.prog.is_subclass(ta[1], tb[1]) or self.prog.is_subclass(tb[1], ta[1])
        return False

    def _rebase(self, tm, site_recv, owner):
        """express a term written at the refresh site relative to the owner object in the current
        analysis context:  site 'self' -> the object that holds the store"""
        if owner[0] != "attr" or site_recv[0] != "attr":
            return tm
        site_self, cur_self = site_recv[1], owner[1]
        if site_self == cur_self:
            return tm

        def sub(x):
            if x == site_self:
                return cur_self
            if isinstance(x, tuple):
                return tuple(sub(y) for y in x)
            return x
        return sub(tm)

    def resolve_callable(self, fterm) -> t.List[tuple]:
        """candidate callables (bound/func terms) for an unresolved callee term"""
        # parameter of TimedStore.refresh called directly is bound by inlining; stand-alone: all sites
        if fterm[0] == "param" and fterm[1] == "sd.TimedStore.refresh":
            return self.refresh_param_bindings(("self", "sd.TimedStore"), fterm[2])
        owner = self.store_owner(fterm)
        if owner is not None:
            i = self.slot_index(fterm)
            if i is not None and i in self.store_slots:
                return self.refresh_param_bindings(owner, self.store_slots[i])
        # attribute holding a constructor argument: self.callback(...)
        if fterm[0] == "attr":
            ty = self.eng.typer.type_of(fterm[1])
            if ty and ty[0] == "cls" and ty[1] in self.prog.classes:
                cq = ty[1]
                init = self.prog.lookup_method(cq, "__init__")
                if init is not None:
                    for fi0, val in self.prog.classes[init.cls.qual].attr_init.get(fterm[2], []):
                        if fi0 is init and hasattr(val, "id") and val.id in init.params():
                            pidx = init.params()[1:].index(val.id)
                            out = []
                            for cfi, e in self.ctor_sites.get(cq, []):
                                a = e.arg(pidx, val.id)
                                if a is not None:
                                    out.append(a)
                            return out
        return []


class Effects:
    def __init__(self, prog: Program, policy: t.Optional[Policy] = None, slots: t.Optional[Slots] = None,
                 max_wave: int = 3):
        self.prog = prog
        self.policy = policy or DeepInline()
        self.slots = slots or Slots(prog)
        self.max_wave = max_wave
        self.paths_enumerated = 0
        self.unresolved: t.List[str] = []

    # ------------------------------------------------------------------ classification
    def classify(self, e: Event, eng: Engine) -> t.Optional[t.Tuple[str, t.Any]]:
        if e.kind == "call" and getattr(e, "helper", None) is not None:
            return None  # the call of an extracted helper analysed in place: its body's events are the effects
        if e.kind == "call":
            for f in e.targets:
                if f.qual in LISTENER_METHODS and not e.sched and not e.coro:
                    return ("notify", LISTENER_METHODS[f.qual])
            if e.attrname in ("sendto",) and e.recv is not None and e.recv[0] == "attr" and e.recv[2] == "transport":
                return ("send", "sendto")
            if e.attrname in MUTATORS and e.recv is not None and not e.targets:
                own = self._owner(e.recv, eng)
                if own is not None:
                    return ("state", (own[0], own[1], MUTATORS[e.attrname], e.attrname))
            if e.attrname == "cancel" and e.recv is not None and not e.targets:
                return ("cancel", show(e.recv)[:60])
        if e.kind == "store" and e.target is not None:
            own = self._owner(e.target, eng)
            if own is not None:
                op = "-" if e.value == ("deleted",) else ("=" if e.target[0] == "attr" else "+")
                return ("state", (own[0], own[1], op, "set"))
        return None

    def _owner(self, tm, eng: Engine) -> t.Optional[t.Tuple[str, str]]:
        """(class, attribute) of the package object attribute a container expression belongs to"""
        # walk the access chain of the container expression only (x.attr[k1][k2], x.attr.method-receiver ...);
        # keys and arguments may mention other state without being it
        cur = tm
        while True:
            if cur[0] == "attr":
                ty = eng.typer.type_of(cur[1])
                if ty and ty[0] == "cls" and ty[1] in self.prog.classes and (self.prog.lookup_method(ty[1], cur[2]) is None
                                                                             or cur[2] in self.prog.forwarders(ty[1]).values()):
                    return (ty[1], cur[2])  # (a forwarding property presents state of a component as the owner's attribute)
                cur = cur[1]
                continue
            if cur[0] in ("item", "slice"):
                cur = cur[1]
                continue
            return None

    # ------------------------------------------------------------------ expansion
    def collect(self, fi: FuncInfo, recv: t.Optional[str] = None, args=None, kwargs=None, recv_term=None,
                wave: int = 0, prefix: t.Tuple = (), chain: t.Tuple[str, ...] = (),
                _seen: t.Optional[set] = None) -> t.List[Eff]:
        """effects reachable from fi.  Every function is enumerated on its own (no path products);
        synchronous callees are entered with their actual argument terms ('virtual inlining'), the
        position of an effect is the chain of source positions of the call sites leading to it."""
        eng = Engine(self.prog, self.policy)
        paths = eng.paths(fi, recv=recv, args=args, kwargs=kwargs, recv_term=recv_term, depth=1 if args is not None else 0)
        self.paths_enumerated += len(paths)
        out: t.List[Eff] = []
        seen_keys = set()
        _seen = _seen if _seen is not None else set()
        here = chain + (fi.qual,)
        if len(here) > 14:
            return out
        for p in paths:
            for e in p.events:
                if e.kind in ("enter", "leave"):
                    continue
                pos = (getattr(e.node, "lineno", 0), getattr(e.node, "col_offset", 0))
                if e.func is not fi:
                    # event inside an inlined closure / nested def: order by the closure's call site
                    pos = pos
                stamp = prefix + (pos,)
                dkey = (id(e.node), e.kind)
                k = self.classify(e, eng)
                if k is not None and dkey not in seen_keys:
                    seen_keys.add(dkey)
                    out.append(Eff(k[0], k[1], e, wave, stamp, here))
                if e.kind != "call":
                    continue
                ckey = (id(e.node), "x", tuple(f.qual for f in e.targets), strip_sites(e.recv) if e.recv is not None else None)
                if ckey in seen_keys:
                    continue
                # scheduling requests ------------------------------------------------
                if e.sched:
                    seen_keys.add(ckey)
                    kind = "timer" if e.sched == "later" else "sched"
                    out.append(Eff(kind, e.sched, e, wave, stamp, here, detail=e.cb))
                    if e.sched == "later" or wave + 1 > self.max_wave:
                        continue
                    lam = eng.deferred_lambda_calls(e.cb, p.env, fi) if e.cb is not None and e.cb[0] == "closure" else None
                    if lam is not None:
                        # a lambda callback: its body runs later, with the values its free variables have then
                        for c in lam:
                            if c.fterm is not None and c.fterm[0] in ("bound", "func"):
                                out.extend(self._expand_callable(c.fterm, c.args, c.kwargs, wave + 1, stamp, here, _seen, eng))
                        continue
                    for cb, cargs, ckw in self._callables(e.cb, e.cbargs, e.cbkwargs, eng):
                        out.extend(self._expand_callable(cb, cargs, ckw, wave + 1, stamp, here, _seen, eng))
                    continue
                # synchronous call of a stored / passed callback -----------------------
                if not e.targets and not e.ext and e.fterm is not None and not e.inlined:
                    cands = self.slots.resolve_callable(e.fterm)
                    if cands:
                        seen_keys.add(ckey)
                        for cb in cands:
                            out.extend(self._expand_callable(cb, e.args, e.kwargs, wave, stamp, here, _seen, eng, sync=True))
                    continue
                # package callee: enter it with the actual arguments ------------------------
                if e.targets and not e.inlined and not e.coro and e.targets[0].qual not in LISTENER_METHODS \
                        and e.targets[0].module.short in ("sd", "service"):
                    seen_keys.add(ckey)
                    callee = e.targets[0]
                    if callee.qual in here:
                        continue
                    if e.fterm[0] == "cls":
                        cb = ("bound", e.result if e.result is not None else ("new", e.fterm[1], (), None), callee.qual)
                    elif e.fterm[0] in ("bound", "func"):
                        cb = e.fterm if e.fterm[0] == "func" else ("bound", e.fterm[1], callee.qual)
                    else:
                        continue
                    out.extend(self._expand_callable(cb, e.args, e.kwargs, wave, stamp, here, _seen, eng, sync=True))
        return out

    def _callables(self, cb, cargs, ckw, eng: Engine):
        if cb is None:
            return []
        if cb[0] in ("bound", "func", "closure"):
            return [(cb, cargs, ckw)]
        cands = self.slots.resolve_callable(cb)
        if not cands:
            self.unresolved.append(show(cb))
        return [(c, cargs, ckw) for c in cands]

    def _expand_callable(self, cb, cargs, ckw, wave, stamp, chain, _seen, eng: Engine, sync=False) -> t.List[Eff]:
        prog = self.prog
        if cb[0] == "bound":
            fi = prog.functions.get(cb[2])
            if fi is None:
                return []
            recv_term = cb[1]
            ty = eng.typer.type_of(recv_term)
            rc = ty[1] if ty and ty[0] == "cls" else (recv_term[1] if recv_term[0] == "cls" else None)
            if rc is not None and fi.cls is not None:
                m = prog.lookup_method(rc, fi.name)
                if m is not None:
                    fi = m
            if fi.qual in LISTENER_METHODS:
                # a listener method reached through a stored callback: the notification itself
                ev = Event("call", fi.node, fi, 0)
                ev.targets = [fi]
                ev.args = tuple(cargs)
                ev.seq = 0
                return [Eff("notify", LISTENER_METHODS[fi.qual], ev, wave, stamp + ((0, 0),), chain + (fi.qual,))]
            key = (fi.qual, strip_sites(recv_term), wave, stamp)
            if key in _seen or len(_seen) > 20000 or fi.qual in chain:
                return []
            _seen.add(key)
            return self.collect(fi, recv=rc, args=tuple(cargs), kwargs=tuple(ckw), recv_term=recv_term,
                                wave=wave, prefix=stamp, chain=chain, _seen=_seen)
        if cb[0] == "func":
            fi = prog.functions.get(cb[1])
            if fi is None:
                return []
            key = (fi.qual, None, wave, stamp)
            if key in _seen:
                return []
            _seen.add(key)
            return self.collect(fi, args=tuple(cargs), kwargs=tuple(ckw), wave=wave, prefix=stamp, chain=chain, _seen=_seen)
        if cb[0] == "closure":
            tgt = eng.closure_target(cb)
            if tgt is None:
                return []
            target, cenv = tgt
            if isinstance(target, tuple):  # lambda: evaluate its body as a one-statement function
                return []
            key = (target.qual, None, wave, stamp)
            if key in _seen:
                return []
            _seen.add(key)
            return self.collect(target, args=tuple(cargs), kwargs=tuple(ckw), wave=wave, prefix=stamp, chain=chain, _seen=_seen)
        return []
