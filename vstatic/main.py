"""command line driver: ./check Cxx [--tier quick|thorough] [--replay FILE]"""
from __future__ import annotations

import argparse
import importlib
import json
import os
import sys
import time
import traceback

from . import report
from .facts import AnalysisError, Program, repo_root

ALL = [f"C{i:02d}" for i in range(1, 21)]


def run_property(prop: str, tier: str, seed: int, root: str, out=print, write_evidence=True) -> int:
    """run the rules of one property on the tree at `root`; returns the exit code (0/1/2)"""
    run = report.Run(prop, tier, seed)
    try:
        mod = importlib.import_module(f"vstatic.rules.{prop}")
    except ModuleNotFoundError:
        out(f"ANALYSIS-ERROR property={prop} no rule module")
        return 2
    try:
        prog = Program(root)
        mod.check(run, prog, tier)
        if run.deferred_errors:
            raise AnalysisError("; ".join(run.deferred_errors))
        if not run.obs:
            raise AnalysisError("no obligation was evaluated (vacuous run)")
        return report.finish(run, root, out=out, write_evidence=write_evidence)
    except AnalysisError as exc:
        if hasattr(exc, "construct") and hasattr(exc, "where"):
            # a language-level defect on a path this property's analysis has to read (sym.Pitfall)
            run.ob("LP", exc.construct, False, exc.where, exc.msg)
            return report.finish(run, root, out=out, write_evidence=write_evidence)
        out(f"ANALYSIS-ERROR property={prop} {exc}")
        run.note(f"ANALYSIS-ERROR: {exc}")
        if run.violations():
            # violations established before the analysis gave up are definite: report them
            return report.finish(run, root, out=out, write_evidence=write_evidence)
        if write_evidence:
            run.explanation = run.explanation or "analysis could not decide"
            report.write_evidence_file(run, root, [], [])
        return 2
    except Exception as exc:  # internal error: never a violation, never a pass
        tb = traceback.format_exc().strip().splitlines()
        out(f"ANALYSIS-ERROR property={prop} internal error: {type(exc).__name__}: {exc}")
        for line in tb[-6:]:
            out("  | " + line)
        run.note(f"ANALYSIS-ERROR (internal): {exc}")
        if write_evidence:
            run.explanation = run.explanation or "analysis could not decide"
            report.write_evidence_file(run, root, [], [])
        return 2


def main(argv=None) -> int:
    ap = argparse.ArgumentParser(prog="check")
    ap.add_argument("prop", nargs="?", help="property id (C01..C20) or 'all'")
    ap.add_argument("--tier", default=os.environ.get("VERIF_TIER", "quick"), choices=["quick", "thorough"])
    ap.add_argument("--replay", help="re-evaluate the rule instance recorded in a replay file")
    ap.add_argument("--repo", default=None, help="tree to analyse (default $VERIF_REPO or /repo)")
    ap.add_argument("--no-evidence", action="store_true")
    ns = ap.parse_args(argv)
    try:
        seed = int(os.environ.get("VERIF_SEED", "0") or 0)
    except ValueError:
        seed = 0
    root = ns.repo or repo_root()
    if ns.replay:
        with open(ns.replay) as fh:
            rp = json.load(fh)
        prop = rp["property"]
        lines = []
        rc = run_property(prop, "quick", seed, root, out=lines.append, write_evidence=False)
        hit = [l for l in lines if rp["construct"] in l and rp["rule"] in l]
        print(f"replay of {prop} rule={rp['rule']} construct={rp['construct']} on {root}:")
        if hit:
            for l in lines:
                if l.startswith("VIOLATION") or rp["construct"] in l:
                    print(l)
            return 1
        print("  this rule instance holds on the current tree" if rc != 2 else "\n".join(lines))
        return 0 if rc != 2 else 2
    if not ns.prop:
        ap.error("property id required")
    props = ALL if ns.prop == "all" else [ns.prop]
    worst = 0
    for p in props:
        if ns.tier == "thorough":
            from . import thorough
            rc = thorough.run(p, seed, root, write_evidence=not ns.no_evidence)
        else:
            rc = run_property(p, ns.tier, seed, root, write_evidence=not ns.no_evidence)
        worst = max(worst, rc)
    return worst


if __name__ == "__main__":
    sys.exit(main())
