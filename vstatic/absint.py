"""Abstract evaluation of extracted decision formulas at representative points.

A pure predicate of the analysed program is first turned (by the path enumerator) into a set of
paths, each with a conjunction of syntactic branch conditions and a returned term.  When the
inputs occur in those conditions only in comparisons with each other and with integer constants,
the input space collapses to finitely many cells (equality / order patterns); evaluating the
*formula* (not the program) on one representative per cell is then exact.  `side_condition`
checks the syntactic premise, `eval_term` evaluates a term under a valuation of its leaves.
"""
from __future__ import annotations

import typing as t

from .facts import AnalysisError
from .terms import is_const, show, subterms


class Unsupported(AnalysisError):
    pass


class IdentityUndetermined(AnalysisError):
    """`a is b` for two equal values that are no singletons (ints outside the small-int cache, strings, bytes, tuples):
    the answer depends on whether the two are the very same object - for a value that arrived from the wire or was computed
    it is False, for the constant compared with itself it is True.  Callers take the decision both ways."""


def _identical(a, b) -> bool:
    if a is b and (a is None or isinstance(a, bool)):
        return True
    if type(a) is not type(b):
        return False
    if a != b:
        return False
    # equal values of one type: enum members, None, booleans and the small ints CPython caches are one object each
    if a is None or isinstance(a, bool) or type(a).__name__ == "EnumVal" or isinstance(a, Record):
        return True
    if type(a) is int and -5 <= a <= 256:
        return True
    if isinstance(a, (int, float, str, bytes, tuple, frozenset)):
        raise IdentityUndetermined(f"`is` between two equal {type(a).__name__} values ({a!r}): identity is not equality for them")
    return a is b


_CMP = {
    "==": lambda a, b: a == b, "!=": lambda a, b: a != b, "<": lambda a, b: a < b,
    "<=": lambda a, b: a <= b, ">": lambda a, b: a > b, ">=": lambda a, b: a >= b,
    "is": lambda a, b: _identical(a, b),
    "is not": lambda a, b: not _identical(a, b),
    "in": lambda a, b: a in b, "not in": lambda a, b: a not in b,
}
_BIN = {
    "+": lambda a, b: a + b, "-": lambda a, b: a - b, "*": lambda a, b: a * b,
    "<<": lambda a, b: a << b, ">>": lambda a, b: a >> b, "|": lambda a, b: a | b,
    "&": lambda a, b: a & b, "^": lambda a, b: a ^ b, "//": lambda a, b: a // b,
    "%": lambda a, b: a % b, "**": lambda a, b: a ** b,
}


class Record:
    """a concrete stand-in for an object of the program in a valuation: named fields, identity by label"""

    def __init__(self, label, **fields):
        self.label = label
        self.fields = fields

    def __repr__(self):
        return f"<{self.label}" + "".join(f" {k}={v!r}" for k, v in self.fields.items()) + ">"

    def __hash__(self):
        return hash(self.label)

    def __eq__(self, other):
        return isinstance(other, Record) and other.label == self.label


def eval_term(tm, leaf: t.Callable[[tuple], t.Any]):
    """evaluate a term; `leaf(term)` supplies values for non-operator terms (raise Unsupported)"""
    tag = tm[0]
    if tag == "const":
        return tm[1]
    if tag == "cmp":
        return _CMP[tm[1]](eval_term(tm[2], leaf), eval_term(tm[3], leaf))
    if tag == "bool":
        if tm[1] == "and":
            v = True
            for x in tm[2]:
                v = eval_term(x, leaf)
                if not v:
                    return v
            return v
        v = False
        for x in tm[2]:
            v = eval_term(x, leaf)
            if v:
                return v
        return v
    if tag == "unop":
        x = eval_term(tm[2], leaf)
        return {"not": lambda v: not v, "-": lambda v: -v, "+": lambda v: +v, "~": lambda v: ~v}[tm[1]](x)
    if tag == "binop":
        if tm[1] not in _BIN:
            raise Unsupported(f"operator {tm[1]} not modelled in {show(tm)}")
        return _BIN[tm[1]](eval_term(tm[2], leaf), eval_term(tm[3], leaf))
    if tag == "ite":
        return eval_term(tm[2], leaf) if eval_term(tm[1], leaf) else eval_term(tm[3], leaf)
    if tag in ("tuple", "list"):
        return tuple(eval_term(x, leaf) for x in tm[1])
    if tag == "set":
        return frozenset(eval_term(x, leaf) for x in tm[1])
    if tag == "fstr":
        if len(tm) < 2:
            raise Unsupported("opaque f-string")
        return "".join(x[1] if x[0] == "const" else str(eval_term(x[1], leaf)) for x in tm[1])
    if tag == "call" and tm[1][0] == "attr" and tm[1][2] in PURE_METHODS and not tm[3]:
        try:
            return leaf(tm)
        except AnalysisError:
            obj = eval_term(tm[1][1], leaf)
            return pure_method(obj, tm[1][2], [eval_term(a, leaf) for a in tm[2]])
    if tag == "attr":
        try:
            return leaf(tm)
        except AnalysisError:
            try:
                obj = eval_term(tm[1], leaf)
            except AnalysisError:
                obj = None
            if isinstance(obj, Record) and tm[2] in obj.fields:
                return obj.fields[tm[2]]
            raise
    if tag == "item":
        try:
            return leaf(tm)
        except AnalysisError:
            return eval_term(tm[1], leaf)[eval_term(tm[2], leaf)]
    if tag == "slice":
        base = eval_term(tm[1], leaf)
        lo = eval_term(tm[2], leaf) if tm[2] is not None else None
        hi = eval_term(tm[3], leaf) if tm[3] is not None else None
        return base[lo:hi]
    if tag == "comp" and len(tm) >= 4 and tm[1] in ("list", "gen", "set") and tm[3]:
        # [ELT for T in IT if COND ...]: evaluated over the concrete value of IT, the element term bound in turn
        out = []

        def run_gens(gi, lf):
            if gi == len(tm[3]):
                out.append(eval_term(tm[2], lf))
                return
            el, it, ifs = tm[3][gi]
            for x in eval_term(it, lf):
                def lf2(t_, x=x, el=el, lf=lf):
                    if t_ == el:
                        return x
                    return lf(t_)
                if all(eval_term(c, lf2) for c in ifs):
                    run_gens(gi + 1, lf2)
        run_gens(0, leaf)
        return frozenset(out) if tm[1] == "set" else tuple(out)
    if tag == "call" and tm[1][0] == "ext" and tm[1][1] in ("chr", "ord", "str", "bytes", "bytearray") and len(tm[2]) == 1 and not tm[3]:
        import builtins
        v = eval_term(tm[2][0], leaf)
        if tm[1][1] in ("bytes", "bytearray") and isinstance(v, tuple):
            v = list(v)
        return getattr(builtins, tm[1][1] if tm[1][1] != "bytearray" else "bytes")(v)
    if tag == "call" and tm[1][0] == "ext" and tm[1][1] in ("min", "max", "abs", "int", "round", "float") and tm[2] and not tm[3]:
        import builtins
        return getattr(builtins, tm[1][1])(*[eval_term(a, leaf) for a in tm[2]])
    if tag == "call" and tm[1][0] == "ext" and tm[1][1] in ("tuple", "list", "frozenset", "set", "sorted") and len(tm[2]) == 1 and not tm[3]:
        try:
            return leaf(tm)
        except AnalysisError:
            v = eval_term(tm[2][0], leaf)
            return frozenset(v) if tm[1][1] in ("frozenset", "set") else tuple(sorted(v)) if tm[1][1] == "sorted" else tuple(v)
    if tag == "call" and tm[1][0] == "ext" and tm[1][1] in ("any", "all", "sum") and len(tm[2]) == 1 and not tm[3]:
        import builtins
        return getattr(builtins, tm[1][1])(eval_term(tm[2][0], leaf))
    if tag == "call" and tm[1] == ("ext", "range") and 1 <= len(tm[2]) <= 3 and not tm[3]:
        return range(*[int(eval_term(a, leaf)) for a in tm[2]])
    if tag == "call" and tm[1] == ("ext", "len") and len(tm[2]) == 1:
        return len(eval_term(tm[2][0], leaf))
    if tag == "call" and tm[1] == ("ext", "bool") and len(tm[2]) == 1:
        return bool(eval_term(tm[2][0], leaf))
    return leaf(tm)


PURE_METHODS = {"find", "rfind", "index", "decode", "encode", "partition", "rpartition", "split", "rsplit", "startswith",
                "endswith", "strip", "lstrip", "rstrip", "lower", "upper", "count", "join", "hex"}


def pure_method(obj, name, args):
    """library semantics of pure str/bytes methods occurring in extracted formulas"""
    if not isinstance(obj, (bytes, bytearray, str)):
        raise Unsupported(f"method .{name} on {type(obj).__name__} is not modelled")
    if isinstance(obj, bytearray):
        obj = bytes(obj)
    res = getattr(obj, name)(*args)
    if isinstance(res, list):
        return tuple(res)
    return res


def path_matches(path, leaf) -> bool:
    for c, v, _, _ in path.conds:
        if bool(eval_term(c, leaf)) != v:
            return False
    return True


def select_path(paths, leaf, what: str):
    """the unique path whose branch conditions hold under the valuation"""
    hits = [p for p in paths if path_matches(p, leaf)]
    if len(hits) != 1:
        raise AnalysisError(f"{what}: {len(hits)} paths match one abstract case (expected exactly 1)")
    return hits[0]


def comparison_only(terms: t.Iterable[tuple], is_input: t.Callable[[tuple], bool],
                    allowed_ops=("==", "!=", "<", "<=", ">", ">=", "in", "not in", "is", "is not")) -> t.List[str]:
    """syntactic side condition: every occurrence of an input leaf is a direct operand of a
    comparison whose other operand is another input leaf or a constant (or a boolean context).
    Returns the list of offending sub-terms rendered as text (empty = condition met)."""
    bad: t.List[str] = []

    def walk(tm, ctx):
        tag = tm[0]
        if is_input(tm):
            if ctx not in ("cmp", "boolctx"):
                bad.append(show(tm) + f" used in {ctx}")
            return
        if tag == "cmp":
            if tm[1] not in allowed_ops:
                bad.append(show(tm))
            for side in (tm[2], tm[3]):
                if is_input(side) or is_const(side):
                    continue
                if side[0] in ("tuple", "list", "set") and all(is_const(x) or is_input(x) for x in side[1]):
                    continue
                walk(side, "cmp-operand")
            return
        if tag == "bool":
            for x in tm[2]:
                walk(x, "boolctx")
            return
        if tag == "unop" and tm[1] == "not":
            walk(tm[2], "boolctx")
            return
        if tag == "ite":
            walk(tm[1], "boolctx")
            walk(tm[2], ctx)
            walk(tm[3], ctx)
            return
        if tag == "const":
            return
        for x in tm[1:]:
            if isinstance(x, tuple) and x and isinstance(x[0], str):
                walk(x, tag)
            elif isinstance(x, tuple):
                for y in x:
                    if isinstance(y, tuple) and y and isinstance(y[0], str):
                        walk(y, tag)

    for tm in terms:
        walk(tm, "boolctx")
    return bad


def constants_compared(terms: t.Iterable[tuple], is_input) -> t.Set[int]:
    out: t.Set[int] = set()
    for tm in terms:
        for s in subterms(tm):
            if s[0] == "cmp":
                for a, b in ((s[2], s[3]), (s[3], s[2])):
                    if is_input(a) and is_const(b) and isinstance(b[1], int) and not isinstance(b[1], bool):
                        out.add(b[1])
                # membership in a display of literals:  x in (A, 0xFF)
                if s[1] in ("in", "not in") and is_input(s[2]) and s[3][0] in ("tuple", "list", "set"):
                    for x in s[3][1]:
                        if is_const(x) and isinstance(x[1], int) and not isinstance(x[1], bool):
                            out.add(x[1])
    return out


def order_points(lo: int, hi: int, consts: t.Iterable[int]) -> t.List[int]:
    """representative points of [lo, hi] for formulas that compare values with each other and
    with `consts`: every constant (and its neighbours) inside the domain, the domain ends (and
    their neighbours) and a middle point of every remaining gap."""
    pts = {lo, hi}
    for c in list(consts) + [lo, hi]:
        for d in (-1, 0, 1):
            if lo <= c + d <= hi:
                pts.add(c + d)
    ordered = sorted(pts)
    for a, b in zip(ordered, ordered[1:]):
        if b - a > 1:
            pts.add((a + b) // 2)
            if b - a > 2:
                pts.add((a + b) // 2 + 1)
    return sorted(pts)
