"""helpers shared by the rule modules"""
from __future__ import annotations

import ast
import typing as t

from .facts import AnalysisError, FuncInfo, Program
from .sym import Engine, Event, Path, Policy
from .terms import contains, is_const, show, strip_sites, subterms


class NoInline(Policy):
    max_depth = 0
    inline_properties = False
    inline_ctors = False

    def inline(self, fi, depth, ev):
        return False


class InlineOnly(Policy):
    """inline exactly the named functions (by qualified name or predicate)"""

    def __init__(self, names=(), pred=None, max_depth=6, unroll=2, props=True, cancel=False, ctors=True):
        self.names = set(names)
        self.pred = pred
        self.max_depth = max_depth
        self.unroll = unroll
        self.inline_properties = props
        self.cancel_at_await = cancel
        self.inline_ctors = ctors

    def inline(self, fi, depth, ev):
        if depth >= self.max_depth:
            return False
        if fi.kind == "property":
            return self.inline_properties
        if fi.qual in self.names:
            return True
        if self.pred is not None and self.pred(fi):
            return True
        return False


def engine(prog: Program, policy: t.Optional[Policy] = None) -> Engine:
    return Engine(prog, policy or NoInline())


def P(fi: FuncInfo, name: str):
    return ("param", fi.qual, name)


def param_at(fi: FuncInfo, idx: int, what: str) -> str:
    """name of the idx-th parameter (not counting self/cls)"""
    ps = fi.params()
    if fi.kind in ("method", "classmethod", "property"):
        ps = ps[1:]
    if idx >= len(ps):
        raise AnalysisError(f"{fi.qual} has no parameter #{idx} ({what})")
    return ps[idx]


def calls_to(p: Path, *quals: str) -> t.List[Event]:
    qs = set(quals)
    return [e for e in p.events if e.kind == "call" and any(f.qual in qs for f in e.targets)]


def calls_named(p: Path, name: str) -> t.List[Event]:
    return [e for e in p.events if e.kind == "call" and e.attrname == name]


def ext_calls(p: Path, dotted_name: str) -> t.List[Event]:
    return [e for e in p.events if e.kind == "call" and e.ext == dotted_name]


def stores(p: Path, pred=None) -> t.List[Event]:
    return [e for e in p.events if e.kind == "store" and (pred is None or pred(e))]


def all_events(paths: t.Iterable[Path]) -> t.List[Event]:
    """flow-insensitive union of the events of several paths (one per AST node and kind)"""
    seen = {}
    for p in paths:
        for e in p.events:
            key = (id(e.node), e.kind, e.frame)
            if key not in seen:
                seen[key] = e
    return sorted(seen.values(), key=lambda e: (e.func.module.short, getattr(e.node, "lineno", 0), getattr(e.node, "col_offset", 0)))


def mentions(tm, pred) -> bool:
    return contains(tm, pred)


def mentions_param(tm, fi: FuncInfo, name: str) -> bool:
    return contains(tm, lambda s: s == ("param", fi.qual, name))


def root_attr(tm) -> t.Optional[t.Tuple[tuple, str]]:
    """innermost ('attr', base, name) on the access chain of a container expression:
    self.store[a][b] -> (self, 'store');  self.store[a].pop -> (self, 'store')"""
    cur = tm
    while True:
        if cur[0] == "attr":
            b = cur[1]
            if b[0] in ("self", "param", "new", "var", "typed") or (b[0] == "attr" and False):
                return (b, cur[2])
            # attribute of attribute: prefer the outer-most object attribute that is a container
            inner = root_attr(b)
            if inner is None:
                return (b, cur[2])
            # e.g. self.found_services.store -> ('attr', self, 'found_services'), 'store'
            return (b, cur[2])
        if cur[0] in ("item", "slice"):
            cur = cur[1]
            continue
        if cur[0] == "call":
            f = cur[1]
            if f[0] == "attr":
                cur = f[1]
                continue
            if f[0] == "ext" and cur[2]:
                cur = cur[2][0]  # iter(x), list(x), tuple(x)
                continue
            return None
        if cur[0] == "elem":
            cur = cur[1]
            continue
        if cur[0] == "await":
            cur = cur[1]
            continue
        return None


def func_src(fi: FuncInfo) -> str:
    return ast.get_source_segment(fi.module.source, fi.node) or ""


def loc(fi: FuncInfo, node=None) -> str:
    n = node if node is not None else fi.node
    return f"{getattr(fi.node, '_relpath', None) or fi.module.relpath}:{getattr(n, 'lineno', fi.node.lineno)}"


def brief(tm) -> str:
    s = show(tm)
    return s if len(s) < 160 else s[:157] + "..."


class Scan:
    """flow-insensitive view of the whole package: every function analysed without inlining,
    once per receiver class (the defining class and every in-package subclass)"""

    def __init__(self, prog: Program, policy: t.Optional[Policy] = None):
        self.prog = prog
        self.eng = Engine(prog, policy or NoInline())
        self.paths: t.Dict[t.Tuple[str, t.Optional[str]], t.List[Path]] = {}
        self.errors: t.Dict[str, str] = {}
        for q, fi in sorted(prog.functions.items()):
            if fi.kind == "nested":
                continue
            recvs: t.List[t.Optional[str]] = [None]
            if fi.cls is not None and fi.kind in ("method", "classmethod", "property"):
                recvs = [fi.cls.qual] + [c for c in prog.subclasses(fi.cls.qual)
                                         if c != fi.cls.qual and prog.lookup_method(c, fi.name) is fi]
            for r in recvs:
                try:
                    self.paths[(q, r)] = self.eng.paths(fi, recv=r)
                except AnalysisError as exc:
                    self.errors[q] = str(exc)

        # an extracted helper that is analysed in place at its call sites is part of its callers: it is not a
        # separate actor for who-may-write / who-may-call rules (unless it is also passed around as a value)
        from .sym import baseline_functions, _strip_at
        inlined, as_value = set(), set()
        self.helper_callers: t.Dict[str, t.Set[str]] = {}
        for (cq_, _r), ps in self.paths.items():
            for p in ps:
                for e in p.events:
                    if e.kind == "call" and e.inlined:
                        for f in list(e.targets) + ([e.helper] if e.helper is not None else []):
                            inlined.add(f.qual)
                            self.helper_callers.setdefault(f.qual, set()).add(e.func.qual if e.func is not None else cq_)
                    for tm in list(e.args or ()) + [v for _, v in (e.kwargs or ())] + ([e.cb] if e.cb is not None else []) + \
                            ([e.value] if isinstance(e.value, tuple) else []):
                        if isinstance(tm, tuple):
                            for s_ in subterms(tm):
                                if s_[0] in ("bound", "func") and isinstance(s_[-1], str):
                                    as_value.add(s_[-1])
        self.absorbed = {q for q in inlined if _strip_at(q) not in baseline_functions() and q not in as_value}

    def internal_helper(self, fi: FuncInfo) -> bool:
        """an extracted helper that only serves functions of its own class / module (it is judged as part of them);
        a new function that other classes call is an interface of its own"""
        if fi.qual not in self.absorbed:
            return False
        for c in self.helper_callers.get(fi.qual, ()):
            cf = self.prog.functions.get(c)
            if cf is None:
                return False
            if fi.cls is not None:
                if cf.cls is None or cf.cls.qual != fi.cls.qual:
                    return False
            elif cf.module is not fi.module:
                return False
        return True

    def events(self, qual: str, recv: t.Optional[str] = None) -> t.List[Event]:
        fi = self.prog.func(qual)
        if recv is None and fi.cls is not None and fi.kind in ("method", "classmethod", "property"):
            recv = fi.cls.qual
        return all_events(self.paths.get((qual, recv), []))

    def all(self) -> t.Iterator[t.Tuple[FuncInfo, t.Optional[str], Event]]:
        for (q, r), ps in self.paths.items():
            if q in self.absorbed:
                continue
            fi = self.prog.functions[q]
            for e in all_events(ps):
                yield fi, r, e

    def callers_of(self, *quals: str) -> t.List[t.Tuple[FuncInfo, t.Optional[str], Event]]:
        qs = set(quals)
        out = []
        for fi, r, e in self.all():
            if e.kind == "call" and (any(f.qual in qs for f in e.targets)
                                     or (e.sched and e.cb is not None and e.cb[0] in ("bound", "func") and e.cb[-1] in qs)):
                out.append((fi, r, e))
        return out

    def require_clean(self, *quals: str):
        for q in quals:
            if q in self.errors:
                raise AnalysisError(f"{q}: {self.errors[q]}")


def sched_targets(eng: Engine, p: Path, e: Event, fi: FuncInfo):
    """what a scheduling request will eventually call: [(callee term, args, kwargs)].  A lambda callback is
    evaluated with late-bound free variables (the values at the end of path p)."""
    if e.cb is None:
        return []
    if e.cb[0] in ("bound", "func"):
        return [(e.cb, tuple(e.cbargs), tuple(e.cbkwargs))]
    if e.cb[0] == "closure":
        calls = eng.deferred_lambda_calls(e.cb, p.env, fi)
        if calls is not None:
            return [(c.fterm, tuple(c.args), tuple(c.kwargs)) for c in calls if c.fterm is not None and c.fterm[0] in ("bound", "func")]
    return []


def field_of(prog: Program, tm, name: str):
    """effective value of dataclass field `name` of an object term: looks through dataclasses.replace / constructor
    field tables; returns ('default',) when a constructed object leaves the field to its default"""
    if tm[0] == "replace":
        d = dict(tm[2])
        return d[name] if name in d else field_of(prog, tm[1], name)
    if tm[0] == "new":
        d = dict(tm[2])
        return d.get(name, ("default",))
    return ("attr", tm, name)


def implied_atoms(conds) -> t.List[t.Tuple[tuple, bool]]:
    """the atomic decisions a path's branch decisions imply: `a or b` decided False gives a False and b False,
    `a and b` decided True gives both True, `not a` flips; other decisions stay as they are.  Lets a rule ask
    "was X checked on this path" independently of how the checks are grouped into if statements."""
    out: t.List[t.Tuple[tuple, bool]] = []

    def walk(c, v):
        if c[0] == "unop" and c[1] == "not":
            walk(c[2], not v)
        elif c[0] == "bool" and ((c[1] == "or" and not v) or (c[1] == "and" and v)):
            for x in c[2]:
                walk(x, v)
        elif c[0] == "call" and c[1] == ("ext", "bool") and len(c[2]) == 1:
            walk(c[2][0], v)
        else:
            out.append((c, v))
    for item in conds:
        walk(item[0], item[1])
    return out


def unwrap_iter(tm):
    """look through snapshot / conversion wrappers of an iterable: list(x), tuple(x), set(x), frozenset(x), sorted(x),
    iter(x), reversed(x) - the elements are those of x"""
    while tm[0] == "call" and tm[1][0] == "ext" and tm[1][1] in ("list", "tuple", "set", "frozenset", "sorted", "iter", "reversed") \
            and len(tm[2]) == 1:
        tm = tm[2][0]
    return tm


def buffer_tests_feasible(p: Path, build_q: str) -> bool:
    """an encoded SOME/IP header is never empty (>= 16 bytes), an untouched bytearray() / bytes() is: the emptiness tests a
    path made on buffers assembled from them (`if msgbuf:`) are decided accordingly; a path that contradicts is no
    execution.  Tests on anything else are left alone."""
    from .absint import eval_term

    def leaf(tm):
        if tm[0] == "call" and tm[1][0] == "bound" and tm[1][2] == build_q:
            return b"h" * 16
        if tm[0] == "call" and tm[1] in (("ext", "bytearray"), ("ext", "bytes")) and not tm[2]:
            return b""
        if tm[0] == "call" and tm[1][0] == "attr" and tm[1][2] == "join" and len(tm[2]) == 1 and not tm[3]:
            return bytes(eval_term(tm[1][1], leaf)).join(bytes(x) for x in eval_term(tm[2][0], leaf))
        raise AnalysisError("other")
    for c, v, _, _ in p.conds:
        try:
            if bool(eval_term(c, leaf)) != v:
                return False
        except AnalysisError:
            continue
    return True
