"""Program facts: parse /repo/src/someip/*.py (current working tree, every run) into a
small program model: modules, import aliases, classes (bases, MRO, methods, class constants,
dataclass fields), module level functions and constants.

Nothing from /repo is imported or executed: everything is read with ``ast``.
"""
from __future__ import annotations

import ast
import hashlib
import os
import typing as t

from .normalise import normalise


class AnalysisError(Exception):
    """The analyser could not decide (vanished anchor, unmodelled construct ...).

    Reported as ``ANALYSIS-ERROR`` / exit 2 - never as a violation, never as a pass."""


PKG = "someip"
MODULES = ("header", "config", "sd", "service", "utils")


def repo_root() -> str:
    return os.environ.get("VERIF_REPO", "/repo")


class FuncInfo:
    def __init__(self, qual, node, module, cls=None):
        self.qual: str = qual  # e.g. "sd.ServiceInstance.stop" / "header._find"
        self.node: ast.AST = node
        self.module: "ModuleInfo" = module
        self.cls: t.Optional["ClassInfo"] = cls
        self.name: str = node.name
        self.is_async = isinstance(node, ast.AsyncFunctionDef)
        self.decorators: t.List[str] = []
        self.kind = "function"  # function|method|classmethod|staticmethod|property
        self.log_exceptions = False
        self.parent: t.Optional["FuncInfo"] = None  # for nested defs

    @property
    def file(self):
        return getattr(self.node, "_relpath", None) or self.module.relpath

    @property
    def lineno(self):
        return self.node.lineno

    def loc(self, node=None):
        n = node if node is not None else self.node
        return f"{getattr(self.node, '_relpath', None) or self.module.relpath}:{getattr(n, 'lineno', self.node.lineno)}"

    def params(self) -> t.List[str]:
        a = self.node.args
        return [x.arg for x in a.posonlyargs + a.args]

    def __repr__(self):
        return f"<Func {self.qual}>"


class FieldInfo:
    def __init__(self, name, annotation, default, compare, node, default_factory=None):
        self.name = name
        self.annotation = annotation
        self.default = default  # ast node or None
        self.default_factory = default_factory
        self.compare = compare
        self.node = node


class ClassInfo:
    def __init__(self, qual, node, module):
        self.qual: str = qual  # "sd.ServiceInstance"
        self.name: str = node.name
        self.node: ast.ClassDef = node
        self.module: "ModuleInfo" = module
        self.base_exprs = node.bases
        self.bases: t.List[str] = []  # resolved in-package bases (quals)
        self.ext_bases: t.List[str] = []  # dotted names of external bases
        self.methods: t.Dict[str, FuncInfo] = {}
        self.consts: t.Dict[str, ast.AST] = {}  # class level assignments (value nodes)
        self.const_ann: t.Dict[str, ast.AST] = {}
        self.fields: t.Dict[str, FieldInfo] = {}  # dataclass-style annotated fields
        self.is_dataclass = False
        self.is_namedtuple = False
        self.dataclass_frozen = False
        self.decorators: t.List[str] = []
        self.mro: t.List[str] = []
        self.attr_ann: t.Dict[str, ast.AST] = {}  # self.x: T = ... in methods / class body
        self.attr_init: t.Dict[str, t.List[t.Tuple[FuncInfo, ast.AST]]] = {}

    def __repr__(self):
        return f"<Class {self.qual}>"


class ModuleInfo:
    def __init__(self, short, path, relpath, tree, source):
        self.short = short
        self.path = path
        self.relpath = relpath
        self.tree = tree
        self.source = source
        self.aliases: t.Dict[str, str] = {}  # local name -> dotted target
        self.functions: t.Dict[str, FuncInfo] = {}
        self.classes: t.Dict[str, ClassInfo] = {}
        self.consts: t.Dict[str, ast.AST] = {}
        self.rebound: t.Set[str] = set()  # module level names assigned more than once / declared global somewhere


def dotted(node) -> t.Optional[str]:
    """a.b.c -> 'a.b.c' for Name/Attribute chains, else None"""
    parts = []
    while isinstance(node, ast.Attribute):
        parts.append(node.attr)
        node = node.value
    if isinstance(node, ast.Name):
        parts.append(node.id)
        return ".".join(reversed(parts))
    return None


def _baseline_class_names() -> frozenset:
    try:
        with open(os.path.join(os.path.dirname(os.path.abspath(__file__)), "baseline_classes.txt")) as fh:
            return frozenset(l.strip() for l in fh if l.strip())
    except OSError:
        return frozenset()


class Program:
    def __init__(self, root: t.Optional[str] = None):
        self.root = root or repo_root()
        self.srcdir = os.path.join(self.root, "src", PKG)
        self.modules: t.Dict[str, ModuleInfo] = {}
        self.classes: t.Dict[str, ClassInfo] = {}
        self.functions: t.Dict[str, FuncInfo] = {}
        self.digest = ""
        self._load()

    # ------------------------------------------------------------------ loading
    def _load(self):
        if not os.path.isdir(self.srcdir):
            raise AnalysisError(f"source directory {self.srcdir} not found")
        h = hashlib.sha256()
        names = sorted(
            f[:-3] for f in os.listdir(self.srcdir) if f.endswith(".py") and f != "__init__.py"
        )
        for m in MODULES:
            if m not in names:
                raise AnalysisError(f"anchored module src/someip/{m}.py has vanished")
        for short in names:
            path = os.path.join(self.srcdir, short + ".py")
            with open(path, "rb") as fh:
                raw = fh.read()
            h.update(short.encode() + b"\0" + raw)
            try:
                tree = ast.parse(raw, filename=path)
            except SyntaxError as exc:
                raise AnalysisError(f"{path} does not parse: {exc}") from exc
            normalise(tree, _baseline_class_names(), short)
            mi = ModuleInfo(short, path, f"src/someip/{short}.py", tree, raw.decode("utf-8", "replace"))
            self.modules[short] = mi
        self.digest = h.hexdigest()
        self._undo_module_splits()
        from .renames import undo_private_renames
        self.renames = undo_private_renames({short: mi.tree for short, mi in self.modules.items()})
        for mi in self.modules.values():
            self._scan_module(mi)
        for ci in self.classes.values():
            self._resolve_bases(ci)
        for ci in self.classes.values():
            ci.mro = self._c3(ci.qual, ())
        for ci in self.classes.values():
            self._scan_attrs(ci)

    def _undo_module_splits(self):
        """N10: definitions moved out of an anchored module into a new private module and imported back by name
        (`from ._store import TimedStore`) are the anchored module's definitions: the new module's top-level statements are
        spliced in where the import stood (names the anchored module already binds are kept from it), the new module is
        dropped.  A new module nobody imports from by name stays a module of its own."""
        for short in sorted(m for m in self.modules if m not in MODULES):
            new = self.modules[short]
            users = []
            for b in MODULES:
                bm = self.modules[b]
                for i, st in enumerate(bm.tree.body):
                    if isinstance(st, ast.ImportFrom) and (
                            (st.level == 1 and st.module == short) or (st.level == 0 and st.module == f"{PKG}.{short}")) \
                            and all(a.name != "*" and not a.asname for a in st.names):
                        users.append((b, i, st))
            if len(users) != 1:
                continue  # (shared helpers of several modules stay where they are)
            b, i, st = users[0]
            bm = self.modules[b]
            bound = set()
            for x in bm.tree.body:
                if isinstance(x, (ast.FunctionDef, ast.AsyncFunctionDef, ast.ClassDef)):
                    bound.add(x.name)
                elif isinstance(x, (ast.Assign, ast.AnnAssign)):
                    for tg in (x.targets if isinstance(x, ast.Assign) else [x.target]):
                        if isinstance(tg, ast.Name):
                            bound.add(tg.id)
            moved = []
            for x in new.tree.body:
                if isinstance(x, ast.ImportFrom) and x.module == "__future__":
                    continue
                if isinstance(x, ast.Expr) and isinstance(x.value, ast.Constant):
                    continue  # module docstring
                names = [x.name] if isinstance(x, (ast.FunctionDef, ast.AsyncFunctionDef, ast.ClassDef)) else \
                    [tg.id for tg in (x.targets if isinstance(x, ast.Assign) else [x.target] if isinstance(x, ast.AnnAssign) else []) if isinstance(tg, ast.Name)]
                if names and all(n in bound for n in names):
                    continue
                for sub in ast.walk(x):
                    sub._relpath = new.relpath  # reports cite the file the text is in
                moved.append(x)
            bm.tree.body[i:i + 1] = moved
            del self.modules[short]

    def _scan_module(self, mi: ModuleInfo):
        def scan_imports(body):
            for st in body:
                if isinstance(st, ast.Import):
                    for a in st.names:
                        if a.asname:
                            mi.aliases[a.asname] = a.name
                        else:
                            # "import a.b" binds "a"; dotted() resolution handles a.b.c
                            mi.aliases.setdefault(a.name.split(".")[0], a.name.split(".")[0])
                elif isinstance(st, ast.ImportFrom):
                    for a in st.names:
                        mi.aliases[a.asname or a.name] = f"{st.module}.{a.name}"
                elif isinstance(st, ast.Try):
                    scan_imports(st.body)

        scan_imports(mi.tree.body)
        for st in mi.tree.body:
            if isinstance(st, (ast.FunctionDef, ast.AsyncFunctionDef)):
                fi = FuncInfo(f"{mi.short}.{st.name}", st, mi)
                self._decorate(fi)
                mi.functions[st.name] = fi
                self.functions[fi.qual] = fi
                self._scan_nested(fi)
            elif isinstance(st, ast.ClassDef):
                self._scan_class(mi, st)
            elif isinstance(st, ast.Assign) and len(st.targets) == 1 and isinstance(st.targets[0], ast.Name):
                if st.targets[0].id in mi.consts:
                    mi.rebound.add(st.targets[0].id)
                mi.consts[st.targets[0].id] = st.value
            elif isinstance(st, ast.AnnAssign) and isinstance(st.target, ast.Name) and st.value is not None:
                if st.target.id in mi.consts:
                    mi.rebound.add(st.target.id)
                mi.consts[st.target.id] = st.value
        for sub in ast.walk(mi.tree):
            if isinstance(sub, ast.Global):
                mi.rebound.update(sub.names)
            elif isinstance(sub, ast.AugAssign) and isinstance(sub.target, ast.Name) and sub.target.id in mi.consts \
                    and sub in mi.tree.body:
                mi.rebound.add(sub.target.id)

    def _scan_nested(self, fi: FuncInfo):
        for sub in ast.walk(fi.node):
            if sub is fi.node:
                continue
            if isinstance(sub, (ast.FunctionDef, ast.AsyncFunctionDef)):
                q = f"{fi.qual}.<locals>.{sub.name}"
                if q in self.functions:
                    # two nested defs with the same name (e.g. in both branches of an if)
                    q = f"{q}@{sub.lineno}"
                nf = FuncInfo(q, sub, fi.module, fi.cls)
                nf.parent = fi
                nf.kind = "nested"
                self.functions[q] = nf

    def _decorate(self, fi: FuncInfo):
        for d in fi.node.decorator_list:
            target = d.func if isinstance(d, ast.Call) else d
            name = dotted(target) or "?"
            fi.decorators.append(name)
            last = name.split(".")[-1]
            if last == "classmethod":
                fi.kind = "classmethod"
            elif last == "staticmethod":
                fi.kind = "staticmethod"
            elif last in ("property", "cached_property"):
                fi.kind = "property"
            elif last == "log_exceptions":
                fi.log_exceptions = True
            elif last == "abstractmethod":
                pass

    def _scan_class(self, mi: ModuleInfo, node: ast.ClassDef):
        ci = ClassInfo(f"{mi.short}.{node.name}", node, mi)
        mi.classes[node.name] = ci
        self.classes[ci.qual] = ci
        for d in node.decorator_list:
            target = d.func if isinstance(d, ast.Call) else d
            name = dotted(target) or "?"
            ci.decorators.append(name)
            if name.split(".")[-1] == "dataclass":
                ci.is_dataclass = True
                if isinstance(d, ast.Call):
                    for kw in d.keywords:
                        if kw.arg == "frozen" and isinstance(kw.value, ast.Constant):
                            ci.dataclass_frozen = bool(kw.value.value)
        if any((dotted(b) or "").split(".")[-1] == "NamedTuple" for b in node.bases):
            # class X(typing.NamedTuple): annotated fields in order, positional/keyword construction, immutable
            ci.is_dataclass = True
            ci.is_namedtuple = True
            ci.dataclass_frozen = True
        for st in node.body:
            if isinstance(st, (ast.FunctionDef, ast.AsyncFunctionDef)):
                decs = [ast.unparse(d) for d in st.decorator_list]
                if any(d.endswith(".setter") or d.endswith(".deleter") for d in decs):
                    # @x.setter / @x.deleter: the second and third part of property x, not methods of their own
                    fi = FuncInfo(f"{ci.qual}.{st.name}@{'setter' if any(d.endswith('.setter') for d in decs) else 'deleter'}", st, mi, ci)
                    fi.kind = "method"
                    if not hasattr(ci, "setters"):
                        ci.setters = {}
                    if any(d.endswith(".setter") for d in decs):
                        ci.setters[st.name] = fi
                    continue
                fi = FuncInfo(f"{ci.qual}.{st.name}", st, mi, ci)
                fi.kind = "method"
                self._decorate(fi)
                ci.methods[st.name] = fi
                self.functions[fi.qual] = fi
                self._scan_nested(fi)
            elif isinstance(st, ast.AnnAssign) and isinstance(st.target, ast.Name):
                name = st.target.id
                ann = st.annotation
                annd = dotted(ann.value) if isinstance(ann, ast.Subscript) else dotted(ann)
                if annd and annd.split(".")[-1] == "ClassVar":
                    if st.value is not None:
                        ci.consts[name] = st.value
                    ci.const_ann[name] = ann
                else:
                    default = st.value
                    compare = True
                    factory = None
                    if isinstance(default, ast.Call) and (dotted(default.func) or "").split(".")[-1] == "field":
                        fcall = default
                        default = None
                        for kw in fcall.keywords:
                            if kw.arg == "compare" and isinstance(kw.value, ast.Constant):
                                compare = bool(kw.value.value)
                            elif kw.arg == "default":
                                default = kw.value
                            elif kw.arg == "default_factory":
                                factory = kw.value
                    ci.fields[name] = FieldInfo(name, ann, default, compare, st, factory)
                    ci.attr_ann[name] = ann
            elif isinstance(st, ast.Assign) and len(st.targets) == 1 and isinstance(st.targets[0], ast.Name):
                ci.consts[st.targets[0].id] = st.value

    def _resolve_bases(self, ci: ClassInfo):
        for b in ci.base_exprs:
            if isinstance(b, ast.Subscript):  # Generic[T], AbstractIPOption[T]
                b = b.value
            name = dotted(b)
            if name is None:
                continue
            q = self.resolve_class_name(ci.module, name)
            if q:
                ci.bases.append(q)
            else:
                ci.ext_bases.append(self.expand_alias(ci.module, name))

    def _c3(self, qual, seen) -> t.List[str]:
        if qual in seen:
            raise AnalysisError(f"cyclic class hierarchy at {qual}")
        ci = self.classes[qual]
        seqs = [self._c3(b, seen + (qual,)) for b in ci.bases] + [list(ci.bases)]
        res = [qual]
        seqs = [list(s) for s in seqs if s]
        while seqs:
            for s in seqs:
                cand = s[0]
                if not any(cand in o[1:] for o in seqs):
                    break
            else:
                raise AnalysisError(f"inconsistent MRO for {qual}")
            res.append(cand)
            for s in seqs:
                if s and s[0] == cand:
                    del s[0]
            seqs = [s for s in seqs if s]
        return res

    def _scan_attrs(self, ci: ClassInfo):
        """self.x = <expr> / self.x: T = <expr> inside methods"""
        for fi in ci.methods.values():
            if fi.kind not in ("method",):
                continue
            params = fi.params()
            if not params:
                continue
            selfname = params[0]
            for sub in ast.walk(fi.node):
                tgt = val = ann = None
                if isinstance(sub, ast.AnnAssign):
                    tgt, val, ann = sub.target, sub.value, sub.annotation
                    tgts = [tgt]
                elif isinstance(sub, ast.Assign):
                    tgts, val = sub.targets, sub.value
                else:
                    continue
                for tg in tgts:
                    if (
                        isinstance(tg, ast.Attribute)
                        and isinstance(tg.value, ast.Name)
                        and tg.value.id == selfname
                    ):
                        if ann is not None:
                            ci.attr_ann.setdefault(tg.attr, ann)
                        if val is not None:
                            ci.attr_init.setdefault(tg.attr, []).append((fi, val))

    # ---------------------------------------------------------------- resolution
    def expand_alias(self, mi: ModuleInfo, name: str) -> str:
        parts = name.split(".")
        if parts[0] in mi.aliases:
            return ".".join([mi.aliases[parts[0]]] + parts[1:])
        return name

    def resolve_module(self, mi: ModuleInfo, name: str) -> t.Optional[str]:
        full = self.expand_alias(mi, name)
        if full.startswith(PKG + "."):
            short = full[len(PKG) + 1 :]
            if short in self.modules:
                return short
        return None

    def resolve_class_name(self, mi: ModuleInfo, name: str) -> t.Optional[str]:
        """dotted name as written in module mi -> class qual or None"""
        if name in mi.classes:
            return mi.classes[name].qual
        full = self.expand_alias(mi, name)
        if full.startswith(PKG + "."):
            rest = full[len(PKG) + 1 :]
            if rest in self.classes:
                return rest
        return None

    def resolve_global(self, mi: ModuleInfo, name: str):
        """dotted name -> ('class', qual) | ('func', qual) | ('module', short) |
        ('const', module short, name, node) | ('ext', dotted) | ('classattr', clsqual, attr)"""
        if "." not in name:
            if name in mi.classes:
                return ("class", mi.classes[name].qual)
            if name in mi.functions:
                return ("func", mi.functions[name].qual)
            if name in mi.consts:
                return ("const", mi.short, name, mi.consts[name])
        full = self.expand_alias(mi, name)
        if full == PKG:
            return ("module", "")
        if full.startswith(PKG + "."):
            rest = full[len(PKG) + 1 :]
            parts = rest.split(".")
            if parts[0] in self.modules:
                m2 = self.modules[parts[0]]
                if len(parts) == 1:
                    return ("module", m2.short)
                if len(parts) == 2:
                    n = parts[1]
                    if n in m2.classes:
                        return ("class", m2.classes[n].qual)
                    if n in m2.functions:
                        return ("func", m2.functions[n].qual)
                    if n in m2.consts:
                        return ("const", m2.short, n, m2.consts[n])
                    if n in m2.aliases:
                        return ("ext", m2.aliases[n])
                    return None
                if len(parts) >= 3 and parts[1] in m2.classes:
                    return ("classattr", m2.classes[parts[1]].qual, ".".join(parts[2:]))
            return None
        if "." in name and name.split(".")[0] in mi.classes:
            parts = name.split(".")
            return ("classattr", mi.classes[parts[0]].qual, ".".join(parts[1:]))
        head = full.split(".")[0]
        if head in mi.aliases.values() or name.split(".")[0] in mi.aliases:
            return ("ext", full)
        return None

    # ------------------------------------------------------------------ lookups
    def cls(self, qual: str) -> ClassInfo:
        if qual not in self.classes:
            raise AnalysisError(f"anchored class {qual} has vanished")
        return self.classes[qual]

    def func(self, qual: str) -> FuncInfo:
        if qual not in self.functions:
            raise AnalysisError(f"anchored function {qual} has vanished")
        return self.functions[qual]

    def has_func(self, qual: str) -> bool:
        return qual in self.functions

    def forwarders(self, clsqual: str) -> t.Dict[t.Tuple[str, str], str]:
        """{(h, y): X} for every property X of the class (or a base) whose getter is just `return self.h.y`: X is state of a
        component object that the class presents as its own attribute (composition).  self.h.y and self.X are one thing."""
        ci = self.classes.get(clsqual)
        if ci is None:
            return {}
        cache = getattr(ci, "_forwarders", None)
        if cache is not None:
            return cache
        out = {}
        for c in reversed(ci.mro):
            for name, fi in self.classes[c].methods.items():
                if fi.kind != "property":
                    continue
                body = list(fi.node.body)
                if body and isinstance(body[0], ast.Expr) and isinstance(body[0].value, ast.Constant) and isinstance(body[0].value.value, str):
                    body = body[1:]
                if len(body) == 1 and isinstance(body[0], ast.Return) and isinstance(body[0].value, ast.Attribute) \
                        and isinstance(body[0].value.value, ast.Attribute) and isinstance(body[0].value.value.value, ast.Name) \
                        and body[0].value.value.value.id == "self":
                    out[(body[0].value.value.attr, body[0].value.attr)] = name
        ci._forwarders = out
        return out

    def lookup_method(self, clsqual: str, name: str) -> t.Optional[FuncInfo]:
        ci = self.classes.get(clsqual)
        if ci is None:
            return None
        for c in ci.mro:
            m = self.classes[c].methods.get(name)
            if m is not None:
                return m
        return None

    def lookup_const(self, clsqual: str, name: str):
        """class level constant through the MRO -> (owner class qual, value node)"""
        ci = self.classes.get(clsqual)
        if ci is None:
            return None
        for c in ci.mro:
            cc = self.classes[c]
            if name in cc.consts:
                return (c, cc.consts[name])
        return None

    def lookup_field(self, clsqual: str, name: str) -> t.Optional[FieldInfo]:
        ci = self.classes.get(clsqual)
        if ci is None:
            return None
        for c in ci.mro:
            cc = self.classes[c]
            if name in cc.fields:
                return cc.fields[name]
        return None

    def all_fields(self, clsqual: str) -> t.List[FieldInfo]:
        """dataclass fields in definition order (base classes first)"""
        ci = self.cls(clsqual)
        out: t.Dict[str, FieldInfo] = {}
        for c in reversed(ci.mro):
            for n, f in self.classes[c].fields.items():
                out[n] = f
        return list(out.values())

    def is_subclass(self, qual: str, base: str) -> bool:
        ci = self.classes.get(qual)
        return ci is not None and base in ci.mro

    def subclasses(self, base: str) -> t.List[str]:
        return [q for q, c in self.classes.items() if base in c.mro]

    def is_dataclass(self, qual: str) -> bool:
        ci = self.classes.get(qual)
        return bool(ci) and any(self.classes[c].is_dataclass for c in ci.mro)

    def mangle(self, clsqual: str, attr: str) -> str:
        return attr

    def functions_in(self, short: str) -> t.List[FuncInfo]:
        return [f for f in self.functions.values() if f.module.short == short]
