"""Terms: the normal form expressions of the analysed program are translated to.

A term is a nested tuple whose first element is a tag:

  ('const', v)                       literal (ints, str, bytes, bool, None, Ellipsis)
  ('var', name)                      free local / parameter (unbound)
  ('param', funcqual, name)          parameter of the analysed root function
  ('self', clsqual)                  receiver object of class clsqual
  ('cls', clsqual)                   class object
  ('mod', short) / ('ext', dotted)   package module / external (stdlib) object
  ('func', qual)                     function object of the package
  ('bound', recv_term, qual)         bound method
  ('closure', qual, envid)           nested def / lambda with captured environment
  ('attr', base, name)
  ('item', base, index)              subscript load
  ('slice', base, lo, hi)            lo/hi terms or None
  ('call', func, args, kwargs, site) result of a call that was not inlined
  ('new', clsqual, fields, site)     dataclass / class construction; fields = ((name, term),...)
  ('replace', base, fields)          dataclasses.replace on an opaque object
  ('tuple'|'list'|'set', elems)      literal / tracked containers
  ('dict', items)
  ('binop', op, l, r) ('unop', op, x) ('cmp', op, l, r) ('bool', 'and'|'or', terms)
  ('ite', c, a, b)
  ('elem', iterable, site, n)        n-th element drawn from iterating `iterable`
  ('comp', kind, elt, gens)          comprehension; gens = ((target_term, iter, conds),...)
  ('await', x)  ('starred', x)  ('fstr',)  ('unknown', site)
"""
from __future__ import annotations

import ast
import typing as t

Term = tuple

BINOPS = {
    ast.Add: "+", ast.Sub: "-", ast.Mult: "*", ast.Div: "/", ast.FloorDiv: "//",
    ast.Mod: "%", ast.Pow: "**", ast.LShift: "<<", ast.RShift: ">>", ast.BitOr: "|",
    ast.BitAnd: "&", ast.BitXor: "^", ast.MatMult: "@",
}
CMPOPS = {
    ast.Eq: "==", ast.NotEq: "!=", ast.Lt: "<", ast.LtE: "<=", ast.Gt: ">", ast.GtE: ">=",
    ast.Is: "is", ast.IsNot: "is not", ast.In: "in", ast.NotIn: "not in",
}
UNOPS = {ast.Not: "not", ast.USub: "-", ast.UAdd: "+", ast.Invert: "~"}

NEG = {"==": "!=", "!=": "==", "<": ">=", ">=": "<", ">": "<=", "<=": ">",
       "is": "is not", "is not": "is", "in": "not in", "not in": "in"}


def const(v):
    return ("const", v)


NONE = const(None)
TRUE = const(True)
FALSE = const(False)


def is_const(tm) -> bool:
    return isinstance(tm, tuple) and tm and tm[0] == "const"


def fold_binop(op, l, r):
    if op in ("is", "is not") and is_const(l) and is_const(r) and type(l[1]) is type(r[1]) and l[1] == r[1] and l[1] is not None \
            and not isinstance(l[1], bool) and type(l[1]).__name__ != "EnumVal" and not (type(l[1]) is int and -5 <= l[1] <= 256):
        return ("cmp", op, l, r)  # identity of two equal non-singleton constants is not decided by their value
    if is_const(l) and is_const(r):
        a, b = l[1], r[1]
        try:
            if op == "+":
                return const(a + b)
            if op == "-":
                return const(a - b)
            if op == "*":
                return const(a * b)
            if op == "<<":
                return const(a << b)
            if op == ">>":
                return const(a >> b)
            if op == "|":
                return const(a | b)
            if op == "&":
                return const(a & b)
            if op == "^":
                return const(a ^ b)
            if op == "**" and isinstance(b, int) and abs(b) < 64:
                return const(a ** b)
            if op == "//":
                return const(a // b)
            if op == "%":
                return const(a % b)
        except Exception:
            pass
    return ("binop", op, l, r)


def fold_cmp(op, l, r):
    if is_const(l) and is_const(r):
        a, b = l[1], r[1]
        try:
            return const({
                "==": lambda: a == b, "!=": lambda: a != b, "<": lambda: a < b,
                "<=": lambda: a <= b, ">": lambda: a > b, ">=": lambda: a >= b,
                "is": lambda: a is b or (a == b and type(a) is type(b)),
                "is not": lambda: not (a is b or (a == b and type(a) is type(b))),
            }[op]())
        except Exception:
            pass
    if op in ("in", "not in") and is_const(l) and r[0] in ("tuple", "list", "set") and all(is_const(e) for e in r[1]):
        res = any(l[1] == e[1] for e in r[1])
        return const(res if op == "in" else not res)
    if op in ("==", "is") and l == r and l[0] in ("const", "var", "param", "self"):
        return TRUE
    return ("cmp", op, l, r)


def truthy(tm) -> t.Optional[bool]:
    """static truth value of a term, None when unknown"""
    tag = tm[0]
    if tag == "const":
        try:
            return bool(tm[1])
        except Exception:
            return None
    if tag in ("tuple", "list", "set"):
        if any(e[0] == "starred" for e in tm[1]):
            return None
        return len(tm[1]) > 0
    if tag == "dict":
        return len(tm[1]) > 0
    if tag in ("new", "func", "bound", "closure", "self", "cls", "mod"):
        return True
    if tag == "unop" and tm[1] == "not":
        v = truthy(tm[2])
        return None if v is None else not v
    if tag == "bool":
        vals = [truthy(x) for x in tm[2]]
        if tm[1] == "and":
            if any(v is False for v in vals):
                return False
            if all(v is True for v in vals):
                return True
        else:
            if any(v is True for v in vals):
                return True
            if all(v is False for v in vals):
                return False
    return None


def negate(tm):
    if tm[0] == "unop" and tm[1] == "not":
        return tm[2]
    if tm[0] == "cmp" and tm[1] in NEG:
        return ("cmp", NEG[tm[1]], tm[2], tm[3])
    if tm[0] == "const":
        return const(not tm[1])
    return ("unop", "not", tm)


def strip_sites(tm):
    """remove call-site identities so that two syntactically equal computations compare equal"""
    if not isinstance(tm, tuple):
        return tm
    tag = tm[0] if tm else None
    if tag == "call":
        return ("call", strip_sites(tm[1]), strip_sites(tm[2]), strip_sites(tm[3]))
    if tag == "new":
        return ("new", tm[1], strip_sites(tm[2]))
    if tag == "elem":
        return ("elem", strip_sites(tm[1]), tm[3] if len(tm) > 3 else 0)
    if tag == "unknown":
        return ("unknown",)
    if tag == "comp":
        return ("comp", tm[1], strip_sites(tm[2]), strip_sites(tm[3]))
    if tag == "closure":
        return ("closure", tm[1])
    return tuple(strip_sites(x) for x in tm)


def subterms(tm):
    """pre-order generator over all sub-terms"""
    if isinstance(tm, tuple):
        if tm and isinstance(tm[0], str):
            yield tm
        for x in tm:
            if isinstance(x, tuple):
                yield from subterms(x)


def contains(tm, pred) -> bool:
    return any(pred(s) for s in subterms(tm))


def mentions_attr(tm, name) -> bool:
    return contains(tm, lambda s: s[0] == "attr" and s[2] == name)


def show(tm, depth=0) -> str:
    """compact human readable rendering"""
    if not isinstance(tm, tuple) or not tm:
        return repr(tm)
    tag = tm[0]
    if depth > 6:
        return "…"
    d = depth + 1
    if tag == "const":
        v = tm[1]
        if isinstance(v, int) and not isinstance(v, bool) and v > 9:
            return hex(v)
        return repr(v)
    if tag == "var":
        return tm[1]
    if tag == "param":
        return tm[2]
    if tag == "self":
        return f"self<{tm[1]}>"
    if tag == "cls":
        return tm[1]
    if tag in ("mod", "ext", "func"):
        return tm[1]
    if tag == "bound":
        return f"{show(tm[1], d)}.{tm[2].split('.')[-1]}"
    if tag == "closure":
        return f"<closure {tm[1]}>"
    if tag == "attr":
        return f"{show(tm[1], d)}.{tm[2]}"
    if tag == "item":
        return f"{show(tm[1], d)}[{show(tm[2], d)}]"
    if tag == "slice":
        lo = show(tm[2], d) if tm[2] is not None else ""
        hi = show(tm[3], d) if tm[3] is not None else ""
        return f"{show(tm[1], d)}[{lo}:{hi}]"
    if tag == "call":
        args = [show(a, d) for a in tm[2]] + [f"{k}={show(v, d)}" for k, v in tm[3]]
        return f"{show(tm[1], d)}({', '.join(args)})"
    if tag == "new":
        return f"{tm[1]}({', '.join(f'{k}={show(v, d)}' for k, v in tm[2])})"
    if tag == "replace":
        return f"replace({show(tm[1], d)}, {', '.join(f'{k}={show(v, d)}' for k, v in tm[2])})"
    if tag in ("tuple", "list", "set"):
        o, c = {"tuple": "()", "list": "[]", "set": "{}"}[tag]
        return o + ", ".join(show(e, d) for e in tm[1]) + c
    if tag == "dict":
        return "{" + ", ".join(f"{show(k, d)}: {show(v, d)}" for k, v in tm[1]) + "}"
    if tag == "binop":
        return f"({show(tm[2], d)} {tm[1]} {show(tm[3], d)})"
    if tag == "unop":
        return f"({tm[1]} {show(tm[2], d)})"
    if tag == "cmp":
        return f"({show(tm[2], d)} {tm[1]} {show(tm[3], d)})"
    if tag == "bool":
        return "(" + f" {tm[1]} ".join(show(x, d) for x in tm[2]) + ")"
    if tag == "ite":
        return f"({show(tm[2], d)} if {show(tm[1], d)} else {show(tm[3], d)})"
    if tag == "elem":
        return f"elem({show(tm[1], d)})"
    if tag == "comp":
        return f"<{tm[1]}comp {show(tm[2], d)} for … in {show(tm[3][0][1], d) if tm[3] else '?'}>"
    if tag == "fstr":
        if len(tm) < 2:
            return "<fstr>"
        return "f'" + "".join(x[1] if x[0] == "const" else "{" + show(x[1], d) + "}" for x in tm[1]) + "'"
    if tag == "classconst":
        return f"{tm[1].split('.')[-1]}.{tm[2]}"
    if tag == "coro":
        return f"<coroutine {show(tm[1], d)}>"
    if tag == "await":
        return f"await {show(tm[1], d)}"
    if tag == "starred":
        return f"*{show(tm[1], d)}"
    return f"<{tag}>"
