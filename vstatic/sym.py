"""Path enumerator: a syntax-directed walk over a function body that produces, for every
(acyclic, loop-bounded) path, the ordered list of events (calls with resolved targets,
attribute/subscript stores, awaits, scheduling requests), the branch decisions taken and
the outcome (return value term / raised exception / loop cut).

It is *not* an executor: nothing of the analysed program runs; expressions are translated to
terms (vstatic.terms), calls are resolved through a small project specific type inference and
optionally inlined (callee paths spliced into the caller path with parameters substituted).
Branch conditions are kept syntactically; no solver is involved - a condition is decided only
by constant folding and by facts recorded from earlier branch decisions on the same path.
"""
from __future__ import annotations

import ast
import itertools
import os
import re
import struct as _struct
import typing as t

from .facts import AnalysisError, ClassInfo, FuncInfo, Program, dotted
from .terms import (BINOPS, CMPOPS, FALSE, NONE, TRUE, UNOPS, const, contains, fold_binop,
                    fold_cmp, is_const, negate, show, subterms, truthy)


class EnumVal(int):
    """an IntEnum member of the analysed program: behaves as its integer value, remembers its name"""

    def __new__(cls, value, clsqual, name):
        o = int.__new__(cls, value)
        o.clsqual = clsqual
        o.member = name
        return o

    def __repr__(self):
        return f"{self.clsqual.split('.')[-1]}.{self.member}"

    __str__ = __repr__


EXT_INT_CONSTS = {"socket.IPPROTO_TCP": 6, "socket.IPPROTO_UDP": 17}


def _const_int(node) -> t.Optional[int]:
    """value of an integer constant expression (literals combined with + - * | & << >> and unary -/~)"""
    if isinstance(node, ast.Constant) and isinstance(node.value, int) and not isinstance(node.value, bool):
        return node.value
    if isinstance(node, ast.UnaryOp) and isinstance(node.op, (ast.USub, ast.Invert, ast.UAdd)):
        v = _const_int(node.operand)
        return None if v is None else (-v if isinstance(node.op, ast.USub) else ~v if isinstance(node.op, ast.Invert) else v)
    if isinstance(node, ast.BinOp):
        a, b = _const_int(node.left), _const_int(node.right)
        if a is None or b is None:
            return None
        ops = {ast.Add: lambda x, y: x + y, ast.Sub: lambda x, y: x - y, ast.Mult: lambda x, y: x * y, ast.BitOr: lambda x, y: x | y,
               ast.BitAnd: lambda x, y: x & y, ast.LShift: lambda x, y: x << y if 0 <= y < 64 else None,
               ast.RShift: lambda x, y: x >> y if 0 <= y < 64 else None}
        f = ops.get(type(node.op))
        return f(a, b) if f else None
    return None


def enum_members(prog, clsqual):
    """{name: EnumVal} for an (Int)Enum class of the package, None for other classes"""
    ci = prog.classes.get(clsqual)
    if ci is None or not any(b.split(".")[-1] in ("IntEnum", "Enum", "IntFlag") for b in ci.ext_bases):
        return None
    out = {}
    for name, node in ci.consts.items():
        cv = _const_int(node)
        if cv is not None:
            out[name] = EnumVal(cv, clsqual, name)
        else:
            d = dotted(node)
            full = prog.expand_alias(ci.module, d) if d else None
            if full in EXT_INT_CONSTS:
                out[name] = EnumVal(EXT_INT_CONSTS[full], clsqual, name)
    return out


# ----------------------------------------------------------------------------- exceptions

BUILTIN_EXC_PARENT = {
    "BaseException": None,
    "Exception": "BaseException",
    "asyncio.CancelledError": "BaseException",
    "KeyboardInterrupt": "BaseException",
    "ArithmeticError": "Exception",
    "ZeroDivisionError": "ArithmeticError",
    "OverflowError": "ArithmeticError",
    "AssertionError": "Exception",
    "AttributeError": "Exception",
    "EOFError": "Exception",
    "asyncio.IncompleteReadError": "EOFError",
    "LookupError": "Exception",
    "KeyError": "LookupError",
    "IndexError": "LookupError",
    "NotImplementedError": "RuntimeError",
    "RuntimeError": "Exception",
    "RecursionError": "RuntimeError",
    "StopIteration": "Exception",
    "TypeError": "Exception",
    "ValueError": "Exception",
    "UnicodeError": "ValueError",
    "UnicodeDecodeError": "UnicodeError",
    "UnicodeEncodeError": "UnicodeError",
    "struct.error": "Exception",
    "OSError": "Exception",
    "socket.gaierror": "OSError",
    "ipaddress.AddressValueError": "ValueError",
    "AnyException": "Exception",  # "some subclass of Exception we know nothing about"
}


class ExcHierarchy:
    def __init__(self, prog: Program):
        self.prog = prog

    def parents(self, name: str) -> t.List[str]:
        out = [name]
        seen = set()
        cur = name
        while cur and cur not in seen:
            seen.add(cur)
            if cur in self.prog.classes:
                ci = self.prog.classes[cur]
                nxt = None
                if ci.bases:
                    nxt = ci.bases[0]
                elif ci.ext_bases:
                    nxt = ci.ext_bases[0]
                    if nxt.startswith("builtins."):
                        nxt = nxt[9:]
                cur = nxt
            else:
                cur = BUILTIN_EXC_PARENT.get(cur)
            if cur:
                out.append(cur)
        return out

    def is_sub(self, a: str, b: str) -> bool:
        return b in self.parents(a)

    def catches(self, handler_types: t.Optional[t.List[str]], exc: str) -> str:
        """'yes' (always caught), 'maybe' (exc is generic and may be of the handler type), 'no'"""
        if handler_types is None:  # bare except
            return "yes"
        for h in handler_types:
            if self.is_sub(exc, h):
                return "yes"
        if exc == "AnyException":
            for h in handler_types:
                if self.is_sub(h, "Exception"):
                    return "maybe"
        return "no"


# ----------------------------------------------------------------------------- events


class Event:
    __slots__ = ("known", "handlers", "kind", "node", "func", "depth", "fterm", "args", "kwargs", "targets", "result",
                 "ext", "sched", "cb", "cbargs", "cbkwargs", "delay", "in_comp", "raised",
                 "target", "value", "frame", "inlined", "recv", "seq", "attrname", "coro", "loopdepth", "helper", "via_value")

    def __init__(self, kind, node, func, depth):
        self.kind = kind
        self.node = node
        self.func: FuncInfo = func
        self.depth = depth
        self.fterm = None
        self.args = ()
        self.kwargs = ()
        self.targets: t.List[FuncInfo] = []
        self.result = None
        self.ext = None
        self.sched = None
        self.cb = None
        self.cbargs = ()
        self.cbkwargs = ()
        self.delay = None
        self.in_comp = False
        self.raised = None
        self.target = None
        self.value = None
        self.frame = ()
        self.inlined = False
        self.via_value = False  # the callee was reached through a callable value (a bound method handed over as a callback)
        self.helper = None  # the unknown helper function analysed in place at this call (then targets is empty)
        self.recv = None
        self.seq = 0
        self.attrname = None
        self.coro = False
        self.loopdepth = 0
        self.known = None
        self.handlers = ()

    @property
    def loc(self):
        return f"{self.func.module.relpath}:{getattr(self.node, 'lineno', 0)}"

    def callee_names(self) -> t.List[str]:
        if self.targets:
            return [f.qual for f in self.targets]
        if self.ext:
            return [self.ext]
        return []

    def arg(self, idx: int, name: t.Optional[str] = None):
        """argument by position or keyword (position counted without self)"""
        if name is not None:
            for k, v in self.kwargs:
                if k == name:
                    return v
        if idx is not None and idx < len(self.args):
            a = self.args[idx]
            if a[0] != "starred":
                return a
        return None

    def __repr__(self):
        if self.kind == "call":
            nm = ",".join(self.callee_names()) or show(self.fterm)
            extra = f" sched={self.sched}->{show(self.cb)}" if self.sched else ""
            return f"<call {nm}({', '.join(show(a) for a in self.args)}{''.join(f', {k}={show(v)}' for k, v in self.kwargs)}) @{self.loc}{extra}>"
        if self.kind == "store":
            return f"<store {show(self.target)} = {show(self.value)} @{self.loc}>"
        return f"<{self.kind} @{self.loc}>"


class Path:
    def __init__(self):
        self.events: t.List[Event] = []
        self.conds: t.List[t.Tuple[tuple, bool, ast.AST, FuncInfo]] = []
        self.outcome: t.Tuple = ("fall",)
        self.truncated = False
        self.swallowed = None  # exception type that a wrapping @log_exceptions turned into `return None`
        self.env: t.Dict[str, tuple] = {}
        self.heap: t.Dict = {}

    def calls(self, pred=None) -> t.List[Event]:
        return [e for e in self.events if e.kind == "call" and (pred is None or pred(e))]

    def returns(self):
        return self.outcome[0] in ("return", "fall")

    def retval(self):
        if self.outcome[0] == "return":
            return self.outcome[1]
        if self.outcome[0] == "fall":
            return NONE
        return None

    def describe(self) -> str:
        cs = " & ".join((("" if v else "not ") + show(c)) for c, v, _, _ in self.conds) or "true"
        return f"[{cs}] -> {self.outcome[0]}" + (f" {show(self.outcome[1])}" if len(self.outcome) > 1 and isinstance(self.outcome[1], tuple) else (f" {self.outcome[1]}" if len(self.outcome) > 1 else ""))


class _State:
    __slots__ = ("env", "heap", "events", "conds", "known", "truncated", "loopdepth")

    def __init__(self):
        self.env: t.Dict[str, tuple] = {}
        self.heap: t.Dict = {}
        self.events: t.List[Event] = []
        self.conds: t.List = []
        self.known: t.Dict = {}
        self.truncated = False
        self.loopdepth = 0

    def copy(self) -> "_State":
        s = _State()
        s.env = dict(self.env)
        s.heap = dict(self.heap)
        s.events = list(self.events)
        s.conds = list(self.conds)
        s.known = dict(self.known)
        s.truncated = self.truncated
        s.loopdepth = self.loopdepth
        return s


class Pitfall(AnalysisError):
    """a construct on a path the analysis needs that is wrong whatever the property says (reported as a violation of the
    property whose analysis reads it, rule LP)"""

    def __init__(self, construct, where, msg):
        super().__init__(f"{construct}: {msg}")
        self.construct, self.where, self.msg = construct, where, msg


class _RaiseSignal(Exception):
    def __init__(self, exc: str, term=None, node=None):
        self.exc = exc
        self.term = term
        self.node = node


class _Chooser:
    """enumerates non-deterministic choices by re-execution (DFS over choice scripts)"""

    def __init__(self):
        self.script: t.List[t.List[int]] = []
        self.pos = 0
        self.cache: t.Dict = {}

    def start(self):
        self.pos = 0

    def prefix(self) -> tuple:
        return tuple(c for c, _ in self.script[: self.pos])

    def choose(self, n: int) -> int:
        if n <= 1:
            return 0
        if self.pos < len(self.script):
            c = self.script[self.pos][0]
            self.script[self.pos][1] = n
        else:
            self.script.append([0, n])
            c = 0
        self.pos += 1
        return c

    def advance(self) -> bool:
        del self.script[self.pos:]
        while self.script and self.script[-1][0] >= self.script[-1][1] - 1:
            self.script.pop()
        if not self.script:
            return False
        self.script[-1][0] += 1
        return True


CALL_SITES: t.Set[tuple] = set()  # distinct call sites (function, line, column) the enumerator evaluated in this process
_BASELINE: t.Optional[t.FrozenSet[str]] = None


def _strip_at(q: str) -> str:
    return re.sub(r"@\d+", "", q)


def baseline_functions() -> t.FrozenSet[str]:
    """qualified names of the functions of the tree the rules were written against (tools/mkbaseline.py)"""
    global _BASELINE
    if _BASELINE is None:
        path = os.path.join(os.path.dirname(os.path.abspath(__file__)), "baseline_functions.txt")
        try:
            with open(path) as fh:
                _BASELINE = frozenset(_strip_at(l.strip()) for l in fh if l.strip())
        except OSError as exc:
            raise AnalysisError(f"baseline function list missing: {exc}")
    return _BASELINE


_BASELINE_CLASSES = None


def baseline_classes() -> t.FrozenSet[str]:
    """qualified names of the classes of the tree the rules were written against (tools/mkbaseline.py)"""
    global _BASELINE_CLASSES
    if _BASELINE_CLASSES is None:
        path = os.path.join(os.path.dirname(os.path.abspath(__file__)), "baseline_classes.txt")
        try:
            with open(path) as fh:
                _BASELINE_CLASSES = frozenset(l.strip() for l in fh if l.strip())
        except OSError as exc:
            raise AnalysisError(f"baseline class list missing: {exc}")
    return _BASELINE_CLASSES


def _immutable_literal(node) -> bool:
    """tuple display whose elements are constants, dotted names (enum members) or such tuples"""
    if isinstance(node, ast.Tuple):
        return all(_immutable_literal(e) or isinstance(e, ast.Constant) or
                   (isinstance(e, (ast.Attribute, ast.Name)) and dotted(e) is not None) for e in node.elts)
    if isinstance(node, ast.Call) and isinstance(node.func, ast.Name) and node.func.id in ("frozenset", "tuple") \
            and len(node.args) == 1 and not node.keywords and isinstance(node.args[0], (ast.Tuple, ast.List, ast.Set)):
        return _immutable_literal(ast.Tuple(elts=node.args[0].elts, ctx=ast.Load()))
    return False


# library calls whose result is never None
_NEVER_NONE = frozenset({"random.uniform", "random.random", "random.randint", "len", "int", "float", "str", "bytes", "bytearray", "bool",
                         "abs", "min", "max", "sum", "round", "tuple", "list", "set", "frozenset", "dict", "sorted", "range",
                         "enumerate", "zip", "map", "time.time", "time.monotonic", "asyncio.get_event_loop",
                         "asyncio.get_running_loop", "asyncio.create_task", "struct.pack", "struct.Struct", "isinstance"})


def _unique_namedtuple_fields(prog) -> t.Dict[str, t.Tuple[str, int]]:
    """field name -> (NamedTuple class, index) for names that belong to exactly one NamedTuple of the package and are
    no attribute, field or method of any other package class and no method of tuple itself"""
    cache = getattr(prog, "_nt_unique", None)
    if cache is not None:
        return cache
    owners: t.Dict[str, t.List[t.Tuple[str, int]]] = {}
    taken: t.Set[str] = set(dir(tuple))
    for q, ci in prog.classes.items():
        if getattr(ci, "is_namedtuple", False):
            for i, f in enumerate(prog.all_fields(q)):
                owners.setdefault(f.name, []).append((q, i))
            taken |= set(ci.methods)
        else:
            taken |= set(ci.fields) | set(ci.methods) | set(ci.attr_init) | set(ci.attr_ann) | set(ci.consts)
    out = {n: o[0] for n, o in owners.items() if len(o) == 1 and n not in taken}
    prog._nt_unique = out
    return out


def _elem_term(it, site, n, symbolic_index=False):
    """the n-th element drawn from iterable term `it`.  enumerate(X[, start]) and zip(A, B, ..) are looked through:
    their n-th element is the pair (n + start, n-th of X) resp. the tuple of n-th elements, so that an index
    variable added to a loop does not change what the loop variable is"""
    if it[0] == "call" and it[1] == ("ext", "enumerate") and 1 <= len(it[2]) <= 2 and not symbolic_index:
        start = it[2][1] if len(it[2]) == 2 else None
        for k, v in it[3]:
            if k == "start":
                start = v
        idx = const(n) if start is None else fold_binop("+", const(n), start)
        return ("tuple", (idx, _elem_term(it[2][0], site, n)))
    if it[0] == "call" and it[1] == ("ext", "zip") and it[2] and not it[3]:
        return ("tuple", tuple(_elem_term(x, site, n, symbolic_index) for x in it[2]))
    if it[0] == "call" and it[1] == ("ext", "itertools.repeat") and len(it[2]) == 1 and not it[3]:
        return it[2][0]  # every element of repeat(X) is X
    if it[0] == "comp" and it[1] in ("list", "gen") and len(it[3]) == 1 and not it[3][0][2]:
        # the n-th element of [ELT for T in X] (no filter) is ELT with T bound to the n-th element of X
        gel, git, _ = it[3][0]
        if gel[0] == "elem":
            new = _elem_term(git, gel[2], n, symbolic_index)

            def sub(x):
                if x == gel:
                    return new
                if isinstance(x, tuple):
                    return tuple(sub(y) for y in x)
                return x
            return sub(it[2])
    return ("elem", it, site, n)


def _filter_calls_element_method(g: ast.comprehension) -> bool:
    bound = {n.id for n in ast.walk(g.target) if isinstance(n, ast.Name)}
    for c in g.ifs:
        for n in ast.walk(c):
            if isinstance(n, ast.Call) and isinstance(n.func, ast.Attribute) and isinstance(n.func.value, ast.Name) \
                    and n.func.value.id in bound:
                return True
    return False


def _has_yield(fi: FuncInfo) -> bool:
    v = getattr(fi, "_has_yield", None)
    if v is None:
        v = False
        stack = list(fi.node.body)
        while stack:
            n = stack.pop()
            if isinstance(n, (ast.Yield, ast.YieldFrom)):
                v = True
                break
            if isinstance(n, (ast.FunctionDef, ast.AsyncFunctionDef, ast.Lambda, ast.ClassDef)):
                continue
            stack.extend(ast.iter_child_nodes(n))
        fi._has_yield = v
    return v


class Policy:
    """what to inline, how far to unroll, which exceptions to fork on"""

    max_depth = 3
    unroll = 2
    cancel_at_await = False
    max_paths = 20000
    inline_properties = True
    inline_ctors = True
    transparent_helpers = True
    fork_uncaught = False  # fork raise outcomes even when no enclosing handler exists
    load_raises = ("KeyError",)  # what a subscript load may raise
    snapshot_facts = False  # record the path facts / enclosing handlers on every call event

    def inline(self, fi: FuncInfo, depth: int, ev: Event) -> bool:
        return depth < self.max_depth

    def may_raise(self, ev: Event, eng: "Engine") -> t.List[str]:
        """exceptions a *non-inlined* raise point may raise"""
        if ev.kind == "load":
            return list(self.load_raises)
        if ev.kind == "store":
            return ["KeyError"] if ev.value == ("deleted",) else []
        if ev.kind == "await":
            return ["asyncio.CancelledError"] if self.cancel_at_await else []
        if ev.kind == "call":
            if ev.targets:
                names = {f.qual for f in ev.targets}
                if any(eng.is_listener_iface(n) for n in names):
                    return ["AnyException"]
                return []
            if ev.ext:
                if ev.ext.startswith("enumconv:"):
                    return ["ValueError"]
                return EXT_RAISES.get(ev.ext, [])
            if ev.attrname in ("pop", "remove"):
                if ev.attrname == "pop" and len(ev.args) >= 2:
                    return []  # pop(key, default) never raises
                return {"pop": ["KeyError"], "remove": ["ValueError", "KeyError"]}[ev.attrname]
            if ev.fterm is not None and ev.fterm[0] in ("var", "param", "item", "elem", "call"):
                return ["AnyException"]  # a callback value (parameter, stored or looked-up callable)
        return []


EXT_RAISES = {
    "struct.unpack": ["struct.error"],
    "struct.pack": ["struct.error"],
    "int": ["ValueError"],
    "next": ["StopIteration"],
    "ipaddress.ip_address": ["ValueError"],
    "socket.getnameinfo": ["socket.gaierror"],
}


# ----------------------------------------------------------------------------- typing


class Typer:
    def __init__(self, prog: Program):
        self.prog = prog
        self._attr_cache: t.Dict = {}
        self._alias_active: t.Set[str] = set()
        self._ret_active: t.Set[str] = set()

    def ann_type(self, ann, mi) -> t.Optional[tuple]:
        if ann is None:
            return None
        if isinstance(ann, ast.Constant) and isinstance(ann.value, str):
            try:
                ann = ast.parse(ann.value, mode="eval").body
            except SyntaxError:
                return None
        if isinstance(ann, ast.Subscript):
            head = dotted(ann.value) or ""
            last = head.split(".")[-1]
            sl = ann.slice
            elts = list(sl.elts) if isinstance(sl, ast.Tuple) else [sl]
            if last in ("Optional", "ClassVar", "Final", "Type"):
                return self.ann_type(elts[0], mi)
            if last in ("List", "list", "Sequence", "Collection", "Iterable", "Iterator", "MutableSequence"):
                return ("list", self.ann_type(elts[0], mi))
            if last in ("Set", "set", "FrozenSet", "frozenset", "AbstractSet"):
                return ("set", self.ann_type(elts[0], mi))
            if last in ("Dict", "dict", "DefaultDict", "Mapping", "MutableMapping"):
                return ("dict", self.ann_type(elts[0], mi), self.ann_type(elts[1], mi) if len(elts) > 1 else None)
            if last in ("Tuple", "tuple"):
                if len(elts) == 2 and isinstance(elts[1], ast.Constant) and elts[1].value is Ellipsis:
                    return ("list", self.ann_type(elts[0], mi))
                return ("tuple", tuple(self.ann_type(e, mi) for e in elts))
            if last == "Union":
                for e in elts:
                    ty = self.ann_type(e, mi)
                    if ty is not None:
                        return ty
                return None
            if last == "Callable":
                return ("callable",)
            q = self.prog.resolve_class_name(mi, head)
            if q:
                return ("cls", q)
            return None
        name = dotted(ann)
        if name is None:
            return None
        q = self.prog.resolve_class_name(mi, name)
        if q:
            return ("cls", q)
        # a module level type alias  _T_X = typing.Collection[Y]  stands for its value
        if "." not in name and name in mi.consts and name not in mi.rebound and name not in self._alias_active \
                and isinstance(mi.consts[name], (ast.Subscript, ast.Attribute)):
            self._alias_active.add(name)
            try:
                return self.ann_type(mi.consts[name], mi)
            finally:
                self._alias_active.discard(name)
        return None

    def attr_type(self, clsqual: str, attr: str) -> t.Optional[tuple]:
        key = (clsqual, attr)
        if key in self._attr_cache:
            return self._attr_cache[key]
        self._attr_cache[key] = None
        res = None
        ci = self.prog.classes.get(clsqual)
        if ci is not None:
            for c in ci.mro:
                cc = self.prog.classes[c]
                if attr in cc.attr_ann:
                    res = self.ann_type(cc.attr_ann[attr], cc.module)
                    if res is not None:
                        break
                if attr in cc.attr_init:
                    for fi, val in cc.attr_init[attr]:
                        res = self._expr_type_simple(val, fi)
                        if res is not None:
                            break
                    if res is not None:
                        break
        self._attr_cache[key] = res
        return res

    def _expr_type_simple(self, expr, fi: FuncInfo) -> t.Optional[tuple]:
        """type of an initialiser expression inside method fi (no environment)"""
        mi = fi.module
        if isinstance(expr, ast.Call):
            name = dotted(expr.func)
            if name:
                q = self.prog.resolve_class_name(mi, name)
                if q:
                    return ("cls", q)
            return None
        if isinstance(expr, ast.Name):
            for a in fi.node.args.args + fi.node.args.kwonlyargs:
                if a.arg == expr.id and a.annotation is not None:
                    return self.ann_type(a.annotation, mi)
            return None
        if isinstance(expr, ast.Attribute):
            base = self._expr_type_simple(expr.value, fi)
            if base and base[0] == "cls":
                return self.attr_type(base[1], expr.attr)
            return None
        if isinstance(expr, ast.BoolOp):
            for v in expr.values:
                ty = self._expr_type_simple(v, fi)
                if ty:
                    return ty
        return None

    def param_type(self, fi: FuncInfo, name: str) -> t.Optional[tuple]:
        a = fi.node.args
        for p in a.posonlyargs + a.args + a.kwonlyargs:
            if p.arg == name and p.annotation is not None:
                return self.ann_type(p.annotation, fi.module)
        return None

    def return_type(self, fi: FuncInfo) -> t.Optional[tuple]:
        if fi.node.returns is not None:
            ty = self.ann_type(fi.node.returns, fi.module)
            if ty is not None:
                return ty
        # no (usable) annotation: every `return` constructs the same package class
        found = set()
        for sub in ast.walk(fi.node):
            if isinstance(sub, ast.Return) and sub.value is not None:
                v = sub.value
                if isinstance(v, ast.Constant) and v.value is None:
                    continue
                q = None
                if isinstance(v, ast.Call):
                    name = dotted(v.func)
                    if name:
                        q = self.prog.resolve_class_name(fi.module, name)
                        if q is None and name == "cls" and fi.cls is not None and fi.kind == "classmethod":
                            q = fi.cls.qual
                        if q is None and name.split(".")[-1] == "replace" and v.args and isinstance(v.args[0], ast.Name) \
                                and fi.params() and v.args[0].id == fi.params()[0] and fi.cls is not None:
                            q = fi.cls.qual
                        if q is None and name.split(".")[-1] == "replace" and v.args and isinstance(v.args[0], ast.Attribute) \
                                and isinstance(v.args[0].value, ast.Name) and fi.params() and v.args[0].value.id == fi.params()[0] \
                                and fi.cls is not None and fi.qual not in self._ret_active:
                            # return dataclasses.replace(self.<property>, ..): the type of that property
                            m_ = self.prog.lookup_method(fi.cls.qual, v.args[0].attr)
                            if m_ is not None and m_.kind == "property":
                                self._ret_active.add(fi.qual)
                                try:
                                    rt_ = self.return_type(m_)
                                finally:
                                    self._ret_active.discard(fi.qual)
                                if rt_ and rt_[0] == "cls":
                                    q = rt_[1]
                        if q is None and fi.cls is not None and isinstance(v.func, ast.Attribute) and isinstance(v.func.value, ast.Name) \
                                and fi.params() and v.func.value.id == fi.params()[0] and fi.qual not in self._ret_active:
                            # return self._helper(...): what that method of the same class returns
                            m_ = self.prog.lookup_method(fi.cls.qual, v.func.attr)
                            if m_ is not None and m_ is not fi:
                                self._ret_active.add(fi.qual)
                                try:
                                    rt_ = self.return_type(m_)
                                finally:
                                    self._ret_active.discard(fi.qual)
                                if rt_ and rt_[0] == "cls":
                                    q = rt_[1]
                found.add(q)
        if len(found) == 1 and None not in found:
            return ("cls", found.pop())
        return None

    def type_of(self, tm, hint: t.Optional[t.Dict] = None) -> t.Optional[tuple]:
        tag = tm[0]
        if tag == "self":
            return ("cls", tm[1])
        if tag == "new":
            return ("cls", tm[1])
        if tag == "cls":
            return ("type", tm[1])
        if tag == "param":
            fi = self.prog.functions.get(tm[1])
            if fi is not None:
                return self.param_type(fi, tm[2])
            return None
        if tag == "typed":
            return tm[1]
        if tag == "attr":
            bt = self.type_of(tm[1])
            if bt and bt[0] == "cls":
                ty = self.attr_type(bt[1], tm[2])
                if ty:
                    return ty
                m = self.prog.lookup_method(bt[1], tm[2])
                if m is not None and m.kind == "property":
                    return self.return_type(m)
            return None
        if tag == "replace":
            return self.type_of(tm[1])
        if tag == "elem":
            it = self.type_of(tm[1])
            if it and it[0] in ("list", "set"):
                return it[1]
            if it and it[0] == "dict":
                return it[1]
            return None
        if tag == "item":
            bt = self.type_of(tm[1])
            if bt and bt[0] == "dict":
                return bt[2]
            if bt and bt[0] == "list":
                return bt[1]
            if bt and bt[0] == "tuple" and is_const(tm[2]) and isinstance(tm[2][1], int) and tm[2][1] < len(bt[1]):
                return bt[1][tm[2][1]]
            return None
        if tag == "call":
            f = tm[1]
            if f[0] == "bound":
                fi = self.prog.functions.get(f[2])
                if fi is not None:
                    rt = self.return_type(fi)
                    if rt:
                        return rt
                # dict views
            if f[0] == "attr":
                bt = self.type_of(f[1])
                if bt and bt[0] == "dict":
                    if f[2] == "keys":
                        return ("list", bt[1])
                    if f[2] == "values":
                        return ("list", bt[2])
                    if f[2] == "items":
                        return ("list", ("tuple", (bt[1], bt[2])))
                    if f[2] in ("get", "pop"):
                        return bt[2]
            if f[0] == "func":
                fi = self.prog.functions.get(f[1])
                if fi is not None:
                    return self.return_type(fi)
            if f[0] == "ext" and f[1] in ("list", "tuple", "sorted", "reversed", "iter", "set", "frozenset") and len(tm[2]) == 1:
                # a snapshot / conversion keeps the element type
                it = self.type_of(tm[2][0])
                if it and it[0] in ("list", "set"):
                    return ("list", it[1])
                if it and it[0] == "dict":
                    return ("list", it[1])
            return None
        if tag == "ite":
            return self.type_of(tm[2]) or self.type_of(tm[3])
        if tag == "bool":
            for x in tm[2]:
                ty = self.type_of(x)
                if ty:
                    return ty
        if tag == "await":
            return self.type_of(tm[1])
        if tag == "list" or tag == "tuple":
            if tm[1]:
                return ("list", self.type_of(tm[1][0]))
        return None


# ----------------------------------------------------------------------------- engine

LOOPISH = ("asyncio.get_event_loop", "asyncio.get_running_loop", "asyncio.new_event_loop")
SCHED = {"call_soon": "soon", "call_soon_threadsafe": "soon", "call_later": "later",
         "call_at": "later", "create_task": "task", "ensure_future": "task"}

LISTENER_IFACES = ("sd.ClientServiceListener", "sd.ServerServiceListener")


class Engine:
    def __init__(self, prog: Program, policy: t.Optional[Policy] = None):
        self.prog = prog
        self.policy = policy or Policy()
        self.typer = Typer(prog)
        self.exc = ExcHierarchy(prog)
        self._seq = itertools.count(1)
        self._active: t.List[str] = []
        self.unresolved: t.List[Event] = []
        self._closures: t.Dict[int, t.Tuple[FuncInfo, t.Dict]] = {}
        self._budget = 0
        self._nt_terms: t.Dict[tuple, str] = {}
        self._const_active: t.Set[tuple] = set()
        self._nt_unique: t.Dict[str, t.Tuple[str, int]] = _unique_namedtuple_fields(prog)

    # ------------------------------------------------------------------ helpers
    def is_listener_iface(self, qual: str) -> bool:
        parts = qual.rsplit(".", 1)
        return parts[0] in LISTENER_IFACES

    def site(self, node, fi, s=None):
        """identity of an evaluation: source position plus the loop-iteration stamp of the path, so
        that one call expression evaluated in two unrolled iterations gives two distinct value terms"""
        base = (fi.module.short, getattr(node, "lineno", 0), getattr(node, "col_offset", 0))
        it = s.env.get("$iter") if s is not None else None
        return base + (it,) if it else base

    # ------------------------------------------------------------------ public
    def paths(self, fi: FuncInfo, recv: t.Optional[str] = None, args=None, kwargs=None,
              recv_term=None, depth=0, env0=None, known0=None) -> t.List[Path]:
        """enumerate the paths of function fi. recv = class qual of the receiver (for methods)"""
        self._budget = 0
        self._modelled_decorators(fi)
        st = _State()
        if env0:
            st.env.update(env0)
        if known0:
            st.known.update(known0)
        self._bind_params(fi, st, recv, recv_term, args, kwargs, root=(depth == 0 and args is None))
        outs = self._run_body(fi, fi.node.body, st, depth)
        res = []
        for kind, val, s in outs:
            p = Path()
            p.events = s.events
            p.conds = s.conds
            p.truncated = s.truncated
            p.env = s.env
            p.heap = s.heap
            if kind == "normal":
                p.outcome = ("fall",)
            elif kind == "return":
                p.outcome = ("return", val)
            elif kind == "raise":
                p.outcome = ("raise", val[0], val[1])
                if fi.log_exceptions and depth == 0 and self.exc.is_sub(val[0], "Exception") and getattr(self.policy, "decorators_apply", True):
                    # the function is wrapped by @log_exceptions: what its callers (and awaiters) see of an exception
                    # raised in the body is a normal return of None
                    p.outcome = ("return", NONE)
                    p.swallowed = val[0]
            else:
                p.outcome = (kind,)
            res.append(p)
        return res

    # ------------------------------------------------------------------ binding
    def _bind_params(self, fi: FuncInfo, st: _State, recv, recv_term, args, kwargs, root):
        a = fi.node.args
        names = [x.arg for x in a.posonlyargs + a.args]
        defaults = [None] * (len(names) - len(a.defaults)) + list(a.defaults)
        pos = list(args or ())
        kw = dict(kwargs or ())
        idx = 0
        if fi.kind in ("method", "property") and names:
            clsq = recv or (fi.cls.qual if fi.cls else None)
            st.env[names[0]] = recv_term if recv_term is not None else ("self", clsq)
            idx = 1
        elif fi.kind == "classmethod" and names:
            clsq = recv or (fi.cls.qual if fi.cls else None)
            st.env[names[0]] = recv_term if (recv_term is not None and recv_term[0] == "cls") else ("cls", clsq)
            idx = 1
        if fi.kind == "nested" and fi.parent is not None and root:
            pass
        star_seen = False
        for i in range(idx, len(names)):
            n = names[i]
            if n in kw:
                st.env[n] = kw.pop(n)
            elif pos and not star_seen:
                v = pos.pop(0)
                if v[0] == "starred":
                    star_seen = True
                    st.env[n] = ("unknown", ("star", fi.qual, n))
                else:
                    st.env[n] = v
            elif root or star_seen:
                st.env[n] = ("param", fi.qual, n)
            elif defaults[i] is not None:
                st.env[n] = self._eval_static(defaults[i], fi)
            else:
                st.env[n] = ("param", fi.qual, n)
        for p, d in zip(a.kwonlyargs, a.kw_defaults):
            if p.arg in kw:
                st.env[p.arg] = kw.pop(p.arg)
            elif root:
                st.env[p.arg] = ("param", fi.qual, p.arg)
            elif d is not None:
                st.env[p.arg] = self._eval_static(d, fi)
            else:
                st.env[p.arg] = ("param", fi.qual, p.arg)
        if a.vararg:
            st.env[a.vararg.arg] = ("tuple", tuple(pos)) if not root else ("param", fi.qual, a.vararg.arg)
        if a.kwarg:
            st.env[a.kwarg.arg] = (("dict", tuple((const(k), v) for k, v in kw.items()))
                                   if not root else ("param", fi.qual, a.kwarg.arg))

    def _eval_static(self, node, fi: FuncInfo):
        st = _State()
        try:
            return self._eval(node, st, fi, 99, _Chooser())
        except _RaiseSignal:
            return ("unknown", self.site(node, fi))

    # ------------------------------------------------------------------ statements
    def _run_body(self, fi, body, st: _State, depth) -> t.List[t.Tuple[str, t.Any, _State]]:
        """returns list of (kind, value, state); kind in normal|return|raise|break|continue|cut"""
        states = [st]
        finished = []
        for stmt in body:
            nxt = []
            for s in states:
                for kind, val, s2 in self._run_stmt(fi, stmt, s, depth):
                    if kind == "normal":
                        nxt.append(s2)
                    else:
                        finished.append((kind, val, s2))
            states = nxt
            self._budget += len(states)
            if self._budget > 400000 or len(states) + len(finished) > self.policy.max_paths:
                raise AnalysisError(f"path explosion in {fi.qual}")
            if not states:
                break
        return finished + [("normal", None, s) for s in states]

    def _simple(self, fi, stmt, st, depth, action) -> t.List:
        """run `action(state, chooser)` under all non-deterministic choices"""
        out = []
        ch = _Chooser()
        while True:
            s = st.copy()
            ch.start()
            try:
                res = action(s, ch)
                out.append(res if res is not None else ("normal", None, s))
            except _RaiseSignal as r:
                out.append(("raise", (r.exc, r.term, r.node if r.node is not None else stmt), s))
            if not ch.advance():
                break
            if len(out) > self.policy.max_paths:
                raise AnalysisError(f"path explosion in {fi.qual} at line {stmt.lineno}")
        return out

    def _run_stmt(self, fi, stmt, st: _State, depth):
        ev = lambda e, s, ch: self._eval(e, s, fi, depth, ch)  # noqa: E731
        if isinstance(stmt, ast.Expr):
            if isinstance(stmt.value, ast.Constant):
                return [("normal", None, st)]
            if isinstance(stmt.value, ast.Yield):
                return self._run_yield(fi, stmt, st, depth)
            if isinstance(stmt.value, ast.YieldFrom):
                # `yield from X`  ==  `for v in X: yield v`  (no value is sent into these generators)
                loop = getattr(stmt, "_as_loop", None)
                if loop is None:
                    tmp = ast.Name(id="$yield_from", ctx=ast.Store())
                    y = ast.Expr(value=ast.Yield(value=ast.Name(id="$yield_from", ctx=ast.Load())))
                    loop = ast.For(target=tmp, iter=stmt.value.value, body=[y], orelse=[], type_comment=None)
                    for n in (tmp, y, y.value, y.value.value, loop):
                        ast.copy_location(n, stmt)
                    stmt._as_loop = loop
                return self._run_for(fi, loop, st, depth)

            def act(s, ch):
                ev(stmt.value, s, ch)

            return self._simple(fi, stmt, st, depth, act)
        if isinstance(stmt, (ast.Assign, ast.AnnAssign)):
            if isinstance(stmt, ast.AnnAssign) and stmt.value is None:
                return [("normal", None, st)]
            targets = stmt.targets if isinstance(stmt, ast.Assign) else [stmt.target]

            def act(s, ch):
                v = ev(stmt.value, s, ch)
                for tg in targets:
                    self._assign(tg, v, s, fi, depth, ch)

            return self._simple(fi, stmt, st, depth, act)
        if isinstance(stmt, ast.AugAssign):
            def act(s, ch):
                cur = ev(stmt.target, s, ch)
                v = ev(stmt.value, s, ch)
                op = BINOPS.get(type(stmt.op), "?")
                self._assign(stmt.target, fold_binop(op, cur, v), s, fi, depth, ch, aug=op)

            return self._simple(fi, stmt, st, depth, act)
        if isinstance(stmt, ast.Return):
            def act(s, ch):
                v = ev(stmt.value, s, ch) if stmt.value is not None else NONE
                return ("return", v, s)

            return self._simple(fi, stmt, st, depth, act)
        if isinstance(stmt, ast.Raise):
            def act(s, ch):
                if stmt.exc is None:
                    cur = s.env.get("$exc")
                    raise _RaiseSignal(cur[1] if cur else "AnyException", cur[2] if cur else None, stmt)
                v = ev(stmt.exc, s, ch)
                if stmt.cause is not None:
                    ev(stmt.cause, s, ch)
                raise _RaiseSignal(self._exc_name(v), v, stmt)

            return self._simple(fi, stmt, st, depth, act)
        if isinstance(stmt, ast.Assert):
            def act(s, ch):
                if not self._cond(stmt.test, s, fi, depth, ch, stmt):
                    raise _RaiseSignal("AssertionError", None, stmt)

            return self._simple(fi, stmt, st, depth, act)
        if isinstance(stmt, ast.If):
            out = []

            def act(s, ch):
                tv = self._cond(stmt.test, s, fi, depth, ch, stmt)
                return ("branch", tv, s)

            for kind, val, s in self._simple(fi, stmt, st, depth, act):
                if kind == "branch":
                    out.extend(self._run_body(fi, stmt.body if val else stmt.orelse, s, depth))
                else:
                    out.append((kind, val, s))
            return out
        if isinstance(stmt, (ast.For, ast.AsyncFor)):
            return self._run_for(fi, stmt, st, depth)
        if isinstance(stmt, ast.While):
            return self._run_while(fi, stmt, st, depth)
        if isinstance(stmt, ast.Try):
            return self._run_try(fi, stmt, st, depth)
        if isinstance(stmt, (ast.With, ast.AsyncWith)):
            def act(s, ch):
                for item in stmt.items:
                    v = ev(item.context_expr, s, ch)
                    e = self._event("with", item.context_expr, fi, depth, s)
                    e.value = v
                    if item.optional_vars is not None:
                        self._assign(item.optional_vars, v, s, fi, depth, ch)

            out = []
            for kind, val, s in self._simple(fi, stmt, st, depth, act):
                if kind == "normal":
                    for k2, v2, s2 in self._run_body(fi, stmt.body, s, depth):
                        e = self._event("endwith", stmt, fi, depth, s2)
                        out.append((k2, v2, s2))
                else:
                    out.append((kind, val, s))
            return out
        if isinstance(stmt, (ast.FunctionDef, ast.AsyncFunctionDef)):
            q = None
            for cand in self.prog.functions.values():
                if cand.node is stmt:
                    q = cand
                    break
            if q is None:
                raise AnalysisError(f"nested function {stmt.name} in {fi.qual} not indexed")
            cid = next(self._seq)
            self._closures[cid] = (q, st.env)
            st.env[stmt.name] = ("closure", q.qual, cid)
            return [("normal", None, st)]
        if isinstance(stmt, ast.Pass):
            return [("normal", None, st)]
        if isinstance(stmt, ast.Break):
            return [("break", None, st)]
        if isinstance(stmt, ast.Continue):
            return [("continue", None, st)]
        if isinstance(stmt, ast.Delete):
            def act(s, ch):
                for tg in stmt.targets:
                    if isinstance(tg, ast.Subscript):
                        b = ev(tg.value, s, ch)
                        i = ev(tg.slice, s, ch)
                        if isinstance(tg.value, ast.Name) and b[0] == "dict" and s.env.get(tg.value.id) == b and is_const(i) \
                                and all(is_const(k) for k, _ in b[1]) and any(k == i for k, _ in b[1]):
                            # tracked local dict display:  d = {...}; del d["k"]
                            s.env[tg.value.id] = ("dict", tuple((k, v) for k, v in b[1] if k != i))
                            continue
                        e = self._event("store", tg, fi, depth, s)
                        e.target = ("item", b, i)
                        e.value = ("deleted",)
                        self._raise_point(e, s, ch, tg)  # (a missing key / index)
                    elif isinstance(tg, ast.Name):
                        s.env.pop(tg.id, None)

            return self._simple(fi, stmt, st, depth, act)
        if isinstance(stmt, (ast.Import, ast.ImportFrom, ast.Global, ast.Nonlocal, ast.ClassDef)):
            return [("normal", None, st)]
        raise AnalysisError(f"unmodelled statement {type(stmt).__name__} in {fi.qual} line {stmt.lineno}")

    # loops ------------------------------------------------------------------
    def _iter_elems(self, it):
        """known finite element list of an iterable term or None"""
        if it[0] in ("tuple", "list") and not any(e[0] == "starred" for e in it[1]):
            return list(it[1])
        if it[0] == "call" and it[1] == ("ext", "range") and len(it[2]) == 1 and is_const(it[2][0]) \
                and isinstance(it[2][0][1], int) and it[2][0][1] <= 4:
            return [const(i) for i in range(it[2][0][1])]
        if it[0] == "call" and it[1] == ("ext", "enumerate") and 1 <= len(it[2]) <= 2:
            inner = self._iter_elems(it[2][0])
            start = it[2][1] if len(it[2]) == 2 else dict(it[3]).get("start", const(0))
            if inner is not None and is_const(start) and isinstance(start[1], int):
                return [("tuple", (const(i + start[1]), x)) for i, x in enumerate(inner)]
        if it[0] == "call" and it[1] == ("ext", "zip") and it[2] and not it[3]:
            inners = [self._iter_elems(x) for x in it[2]]
            if all(x is not None for x in inners):
                return [("tuple", tuple(xs)) for xs in zip(*inners)]
        if it[0] == "call" and it[1] == ("ext", "reversed") and len(it[2]) == 1 and not it[3]:
            inner = self._iter_elems(it[2][0])
            if inner is not None:
                return list(reversed(inner))
        return None

    def _run_for(self, fi, stmt, st, depth):
        out = []

        def act(s, ch):
            it = self._eval(stmt.iter, s, fi, depth, ch)
            return ("iter", it, s)

        for kind, it, s0 in self._simple(fi, stmt, st, depth, act):
            if kind != "iter":
                out.append((kind, it, s0))
                continue
            gen = self._generator_call(it, s0) if isinstance(stmt, ast.For) else None
            if gen is not None:
                out.extend(self._run_for_generator(fi, stmt, s0, depth, gen))
                continue
            if isinstance(stmt, ast.For) and not stmt.orelse and self._is_iterator_object(it):
                # an object of a package class that implements the iterator protocol itself (__iter__ returns self):
                #     for T in OBJ: BODY   ==   while True:
                #                                   try: T = OBJ.__next__()
                #                                   except StopIteration: break
                #                                   BODY
                tmp = f"_it_{stmt.lineno}_{stmt.col_offset}"
                s0.env[tmp] = it
                nxt_call = ast.Call(func=ast.Attribute(value=ast.Name(id=tmp, ctx=ast.Load()), attr="__next__", ctx=ast.Load()), args=[], keywords=[])
                tr = ast.Try(body=[ast.Assign(targets=[stmt.target], value=nxt_call)],
                             handlers=[ast.ExceptHandler(type=ast.Name(id="StopIteration", ctx=ast.Load()), name=None, body=[ast.Break()])],
                             orelse=[], finalbody=[])
                loop = ast.While(test=ast.Constant(value=True), body=[tr] + list(stmt.body), orelse=[])
                for n_ in ast.walk(loop):
                    if not hasattr(n_, "lineno"):
                        ast.copy_location(n_, stmt)
                ast.fix_missing_locations(loop)
                key = ("iterloop", id(stmt))
                cache = self.__dict__.setdefault("_synth", {})
                loop = cache.setdefault(key, loop)  # one node per statement (events are keyed by node identity)
                out.extend(self._run_body(fi, [loop], s0, depth))
                continue
            elems = self._iter_elems(it)
            K = len(elems) if elems is not None else self.policy.unroll
            site = self.site(stmt, fi)
            frontier = [s0]
            # `for i in range(N)` with a symbolic N: the number of iterations taken is a decision about N
            bound = it[2][0] if elems is None and it[0] == "call" and it[1] == ("ext", "range") and len(it[2]) == 1 \
                and not it[3] else None
            for n in range(K + 1):
                # exit after n iterations
                if elems is None or n == len(elems):
                    for s in frontier:
                        sx = s.copy()
                        if bound is not None:
                            sx.conds.append((("cmp", "<=", bound, const(n)), True, stmt, fi))
                        # leaving a for loop after n iterations is a complete execution for an iterable
                        # of n elements (only cut `while` loops are marked truncated)
                        if stmt.orelse:
                            out.extend(self._run_body(fi, stmt.orelse, sx, depth))
                        else:
                            out.append(("normal", None, sx))
                if n == K:
                    break
                nxt = []
                for s in frontier:
                    s1 = s.copy()
                    s1.loopdepth += 1
                    s1.env["$iter"] = (s.env.get("$iter") or ()) + ((stmt.lineno, n),)
                    if bound is not None:
                        s1.conds = [c for c in s1.conds if not (c[2] is stmt and c[0][2] == bound)]
                        s1.conds.append((("cmp", ">", bound, const(n)), True, stmt, fi))
                    el = elems[n] if elems is not None else _elem_term(it, site, n)

                    def bind(sb, ch, el=el):
                        self._assign(stmt.target, el, sb, fi, depth, ch)

                    for k1, v1, s2 in self._simple(fi, stmt, s1, depth, bind):
                        if k1 != "normal":
                            out.append((k1, v1, s2))
                            continue
                        for k2, v2, s3 in self._run_body(fi, stmt.body, s2, depth):
                            s3.loopdepth = s.loopdepth
                            if s.env.get("$iter"):
                                s3.env["$iter"] = s.env["$iter"]
                            else:
                                s3.env.pop("$iter", None)
                            if k2 in ("normal", "continue"):
                                nxt.append(s3)
                            elif k2 == "break":
                                out.append(("normal", None, s3))
                            else:
                                out.append((k2, v2, s3))
                frontier = nxt
                if not frontier:
                    break
        return out

    def _is_iterator_object(self, it) -> bool:
        cq = it[1] if it[0] == "new" else None
        if cq is None:
            ty = self.typer.type_of(it) if it[0] in ("attr", "param", "var", "call") else None
            cq = ty[1] if ty and ty[0] == "cls" else None
        if cq is None or cq not in self.prog.classes:
            return False
        nx, itr = self.prog.lookup_method(cq, "__next__"), self.prog.lookup_method(cq, "__iter__")
        if nx is None or itr is None or nx.is_async:
            return False
        body = [b for b in itr.node.body if not (isinstance(b, ast.Expr) and isinstance(b.value, ast.Constant))]
        return len(body) == 1 and isinstance(body[0], ast.Return) and isinstance(body[0].value, ast.Name) and body[0].value.id == itr.params()[0]

    # generators ------------------------------------------------------------------
    def _generator_call(self, it, s: _State):
        """`it` is the value of a call of a package generator function evaluated as the iterable of a for
        statement -> (callee, receiver term, receiver class, args, kwargs, call event)"""
        if it[0] != "call" or it[1][0] not in ("bound", "func"):
            return None
        targets, recv, rc = self._resolve_targets(it[1])
        if not targets:
            return None
        callee = targets[0]
        if recv is not None and rc is not None and callee.cls is not None and it[1][0] == "bound":
            callee = self.prog.lookup_method(rc, callee.name) or callee
        if not _has_yield(callee) or callee.is_async or callee.qual in self._active:
            return None
        ev = None
        for e in reversed(s.events):
            if e.kind == "call" and e.result == it:
                ev = e
                break
        return (callee, recv, rc, it[2], it[3], ev)

    def _run_for_generator(self, fi, stmt, s0: _State, depth, gen):
        """for T in g(...): BODY   with g a generator function of the package: g's body is executed in place, every
        `yield v` runs BODY with T = v (the consumer's variables and the generator's live side by side, as they
        do at run time); the loop ends when g's body ends"""
        callee, recv, rc, args, kwargs, ev = gen
        if ev is not None:
            ev.inlined = True
        g = s0.copy()
        cons_env = g.env
        g.env = {}
        g.env["$handlers"] = cons_env.get("$handlers", ())
        g.env["$iter"] = (cons_env.get("$iter") or ()) + ((-1, stmt.lineno, stmt.col_offset),)
        self._bind_params(callee, g, rc, recv, args, kwargs, root=False)
        g.env["$consumer"] = (cons_env, stmt, fi, depth)
        enter = self._event("enter", stmt.iter, fi, depth, g)
        enter.targets = [callee]
        self._active.append(callee.qual)
        try:
            outs = self._run_body(callee, callee.node.body, g, depth + 1)
        finally:
            self._active.pop()
        out = []
        for kind, val, sg in outs:
            if kind in ("normal", "return"):
                # generator exhausted: the loop ends normally
                cons = sg.env.get("$consumer")
                sg.env = dict(cons[0]) if cons is not None else dict(cons_env)
                leave = self._event("leave", stmt.iter, fi, depth, sg)
                leave.targets = [callee]
                if stmt.orelse:
                    out.extend(self._run_body(fi, stmt.orelse, sg, depth))
                else:
                    out.append(("normal", None, sg))
            elif kind == "genexit":
                k2, v2 = val
                if k2 == "break":
                    out.append(("normal", None, sg))
                else:
                    out.append((k2, v2, sg))
            elif kind in ("raise", "cut"):
                cons = sg.env.get("$consumer")
                sg.env = dict(cons[0]) if cons is not None else dict(cons_env)
                out.append((kind, val, sg))
            else:
                raise AnalysisError(f"generator {callee.qual} ends with {kind}")
        return out

    def _run_yield(self, fi, stmt, st: _State, depth):
        out = []

        def act(s, ch):
            v = self._eval(stmt.value.value, s, fi, depth, ch) if stmt.value.value is not None else NONE
            return ("yield", v, s)

        for kind, v, s in self._simple(fi, stmt, st, depth, act):
            if kind != "yield":
                out.append((kind, v, s))
                continue
            cons = s.env.get("$consumer")
            if cons is None:
                # the generator analysed on its own: the consumer is not part of this enumeration
                e = self._event("call", stmt, fi, depth, s)
                e.ext = "yield"
                e.args = (v,)
                out.append(("normal", None, s))
                continue
            cons_env, cstmt, cfi, cdepth = cons
            gen_env = s.env
            s.env = dict(cons_env)
            s.env["$iter"] = (cons_env.get("$iter") or ()) + tuple(gen_env.get("$iter") or ()) + ((stmt.lineno, 0),)
            s.loopdepth += 1

            def bind(sb, ch, v=v):
                self._assign(cstmt.target, v, sb, cfi, cdepth, ch)

            for k1, v1, s2 in self._simple(cfi, cstmt, s, cdepth, bind):
                if k1 != "normal":
                    s2.loopdepth -= 1
                    out.append(("genexit", (k1, v1), s2))
                    continue
                for k2, v2, s3 in self._run_body(cfi, cstmt.body, s2, cdepth):
                    s3.loopdepth -= 1
                    if cons_env.get("$iter"):
                        s3.env["$iter"] = cons_env["$iter"]
                    else:
                        s3.env.pop("$iter", None)
                    if k2 in ("normal", "continue"):
                        new_cons = s3.env
                        s3.env = dict(gen_env)
                        s3.env["$consumer"] = (new_cons, cstmt, cfi, cdepth)
                        out.append(("normal", None, s3))
                    else:
                        out.append(("genexit", (k2, v2), s3))
        return out

    def _run_while(self, fi, stmt, st, depth):
        out = []
        frontier = [st]
        K = self.policy.unroll
        for n in range(K + 1):
            nxt = []
            for s in frontier:
                def act(sb, ch):
                    tv = self._cond(stmt.test, sb, fi, depth, ch, stmt)
                    return ("branch", tv, sb)

                for kind, val, s1 in self._simple(fi, stmt, s, depth, act):
                    if kind != "branch":
                        out.append((kind, val, s1))
                        continue
                    if not val:
                        if stmt.orelse:
                            out.extend(self._run_body(fi, stmt.orelse, s1, depth))
                        else:
                            out.append(("normal", None, s1))
                        continue
                    if n == K:
                        s1.truncated = True
                        out.append(("cut", None, s1))
                        continue
                    s1.loopdepth += 1
                    s1.env["$iter"] = (s.env.get("$iter") or ()) + ((stmt.lineno, n),)
                    for k2, v2, s3 in self._run_body(fi, stmt.body, s1, depth):
                        s3.loopdepth = s.loopdepth
                        if s.env.get("$iter"):
                            s3.env["$iter"] = s.env["$iter"]
                        else:
                            s3.env.pop("$iter", None)
                        if k2 in ("normal", "continue"):
                            nxt.append(s3)
                        elif k2 == "break":
                            out.append(("normal", None, s3))
                        else:
                            out.append((k2, v2, s3))
            frontier = nxt
            if not frontier:
                break
        return out

    # try ----------------------------------------------------------------------
    def _handler_types(self, h: ast.ExceptHandler, fi) -> t.Optional[t.List[str]]:
        if h.type is None:
            return None
        nodes = list(h.type.elts) if isinstance(h.type, ast.Tuple) else [h.type]
        res = []
        for n in nodes:
            name = dotted(n)
            if name is None:
                raise AnalysisError(f"unmodelled except clause in {fi.qual} line {h.lineno}")
            res.append(self._exc_class_name(name, fi))
        return res

    def _exc_class_name(self, name: str, fi) -> str:
        g = self.prog.resolve_global(fi.module, name)
        if g and g[0] == "class":
            return g[1]
        if g and g[0] == "ext":
            name = g[1]
        if name.startswith("builtins."):
            name = name[9:]
        if name.startswith("asyncio.exceptions."):
            name = "asyncio." + name.split(".")[-1]
        return name

    def _exc_name(self, v) -> str:
        if v is None:
            return "AnyException"
        if v[0] == "new":
            return v[1]
        if v[0] == "cls":
            return v[1]
        if v[0] == "call" and v[1][0] == "ext":
            return v[1][1]
        if v[0] == "ext":
            return v[1]
        if v[0] == "exc":
            return v[1]
        return "AnyException"

    def _run_try(self, fi, stmt: ast.Try, st, depth):
        handlers = [(h, self._handler_types(h, fi)) for h in stmt.handlers]
        st0 = st
        tag = ("$try", id(stmt))
        # mark that handlers exist (used by raise points to decide whether forking is useful)
        pushed = st0.env.get("$handlers", ())
        allh = []
        for _, ts in handlers:
            allh.append(tuple(ts) if ts is not None else None)
        if stmt.finalbody:
            allh.append(("$finally",))
        st0 = st0.copy()
        st0.env["$handlers"] = pushed + (tuple(allh),)
        body_out = self._run_body(fi, stmt.body, st0, depth)
        after = []
        for kind, val, s in body_out:
            s.env["$handlers"] = pushed
            if kind == "normal":
                if stmt.orelse:
                    after.extend(self._run_body(fi, stmt.orelse, s, depth))
                else:
                    after.append((kind, val, s))
            elif kind == "raise":
                exc, term, node = val
                handled_def = False
                for h, types in handlers:
                    c = self.exc.catches(types, exc)
                    if c == "no":
                        continue
                    s2 = s.copy()
                    caught = exc
                    if c == "maybe":
                        caught = [x for x in types if self.exc.is_sub(x, "Exception")][0]
                    if h.name:
                        s2.env[h.name] = ("exc", caught, term)
                    prev = s2.env.get("$exc")
                    s2.env["$exc"] = ("exc", caught, term)
                    e = self._event("caught", h, fi, depth, s2)
                    e.value = caught
                    for k3, v3, s3 in self._run_body(fi, h.body, s2, depth):
                        if prev is None:
                            s3.env.pop("$exc", None)
                        else:
                            s3.env["$exc"] = prev
                        after.append((k3, v3, s3))
                    if c == "yes":
                        handled_def = True
                        break
                if not handled_def:
                    after.append((kind, val, s))
            else:
                after.append((kind, val, s))
        if not stmt.finalbody:
            return after
        out = []
        for kind, val, s in after:
            for k2, v2, s2 in self._run_body(fi, stmt.finalbody, s, depth):
                if k2 == "normal":
                    out.append((kind, val, s2))
                else:
                    out.append((k2, v2, s2))
        return out

    # assignment ---------------------------------------------------------------
    def _assign(self, tg, v, s: _State, fi, depth, ch, aug=None):
        if isinstance(tg, ast.Name):
            s.env[tg.id] = v
            return
        if isinstance(tg, (ast.Tuple, ast.List)):
            n = len(tg.elts)
            ntv = self.namedtuple_values(v)
            if ntv is not None:
                v = ("tuple", tuple(ntv))
            if v[0] in ("tuple", "list") and len(v[1]) == n and not any(e[0] == "starred" for e in v[1]):
                parts = list(v[1])
            else:
                if not any(isinstance(x, ast.Starred) for x in tg.elts):
                    # unpacking a value of unknown length into n names may raise ValueError
                    e = self._event("unpack", tg, fi, depth, s)
                    e.value = v
                    e.attrname = str(n)
                    self._raise_point(e, s, ch, tg)
                parts = [("item", v, const(i)) for i in range(n)]
            for sub, p in zip(tg.elts, parts):
                if isinstance(sub, ast.Starred):
                    sub = sub.value
                self._assign(sub, p, s, fi, depth, ch)
            return
        if isinstance(tg, ast.Attribute):
            b = self._eval(tg.value, s, fi, depth, ch)
            b, an = self._canon_attr(b, tg.attr)
            e = self._event("store", tg, fi, depth, s)
            e.target = ("attr", b, an)
            e.value = v
            e.attrname = an
            s.heap[(b, an)] = v
            self._forget(s, an)
            return
        if isinstance(tg, ast.Subscript):
            b = self._eval(tg.value, s, fi, depth, ch)
            i = self._eval(tg.slice, s, fi, depth, ch)
            e = self._event("store", tg, fi, depth, s)
            e.target = ("item", b, i)
            e.value = v
            return
        if isinstance(tg, ast.Starred):
            self._assign(tg.value, v, s, fi, depth, ch)
            return
        raise AnalysisError(f"unmodelled assignment target in {fi.qual} line {tg.lineno}")

    def _forget(self, s: _State, attr: str):
        for k in [k for k in s.known if contains(k, lambda x: x[0] == "attr" and x[2] == attr)]:
            del s.known[k]

    # conditions ----------------------------------------------------------------
    def _cond(self, node, s: _State, fi, depth, ch, stmt) -> bool:
        """decide a branch condition.  `not`, `and`, `or` are executed as the short-circuit control flow they are
        (an operand that is not reached is not evaluated, one path per way the condition can come out), so the
        recorded decisions are atomic: `if a or b`, `if a: .. elif b:`, `if not (not a and not b)` and two
        consecutive guards all record the same facts on the same paths."""
        if isinstance(node, ast.UnaryOp) and isinstance(node.op, ast.Not):
            return not self._cond(node.operand, s, fi, depth, ch, stmt)
        if isinstance(node, ast.BoolOp):
            if isinstance(node.op, ast.And):
                for v in node.values:
                    if not self._cond(v, s, fi, depth, ch, stmt):
                        return False
                return True
            for v in node.values:
                if self._cond(v, s, fi, depth, ch, stmt):
                    return True
            return False
        c = self._eval(node, s, fi, depth, ch)
        # the same decomposition for conditions that reach us as terms (a helper that returned `a and b`)
        return self._cond_term(c, s, ch, stmt, fi)

    def _cond_term(self, c, s: _State, ch, stmt, fi) -> bool:
        if c[0] == "unop" and c[1] == "not":
            return not self._cond_term(c[2], s, ch, stmt, fi)
        if c[0] == "call" and c[1] == ("ext", "bool") and len(c[2]) == 1 and not c[3]:
            return self._cond_term(c[2][0], s, ch, stmt, fi)
        if c[0] == "bool":
            if c[1] == "and":
                for x in c[2]:
                    if not self._cond_term(x, s, ch, stmt, fi):
                        return False
                return True
            for x in c[2]:
                if self._cond_term(x, s, ch, stmt, fi):
                    return True
            return False
        if c[0] == "cmp" and c[1] in ("==", "!=") and c[2][0] == "tuple" and c[3][0] == "tuple" and len(c[2][1]) == len(c[3][1]) \
                and len(c[2][1]) > 1 and not any(x[0] == "starred" for x in c[2][1] + c[3][1]):
            # (a, b, ..) == (A, B, ..): elementwise, left to right, stopping at the first difference
            eq = True
            for x, y in zip(c[2][1], c[3][1]):
                if not self._cond_term(fold_cmp("==", x, y), s, ch, stmt, fi):
                    eq = False
                    break
            return eq if c[1] == "==" else not eq
        tv = self._decide(c, s)
        if tv is None:
            tv = ch.choose(2) == 0
            s.conds.append((c, tv, stmt, fi))
            self._learn(c, tv, s)
        return tv

    def _table_lookup(self, table, key, s: _State, ch, node, fi):
        """TABLE[key] / TABLE.get(key) on a dict display with distinct constant keys (a dispatch table): the lookup is the
        if/elif chain `key == K1 -> V1, key == K2 -> V2, ...`; one path per key (the decisions are recorded like those of
        the chain) and one on which no key matches (result None here: the caller supplies default / KeyError)"""
        if table[0] != "dict" or not table[1] or len(table[1]) > 12 or s.env.get("$incomp"):
            return None
        keys = [k for k, _ in table[1]]
        if not all(is_const(k) for k in keys) or len({repr(k[1]) for k in keys}) != len(keys):
            return None
        for k, v in table[1]:
            if is_const(key):
                if key == k:
                    return v
                continue
            if self._cond_term(fold_cmp("==", key, k), s, ch, node, fi):
                return v
        return None

    def _decide(self, c, s: _State) -> t.Optional[bool]:
        tv = truthy(c)
        if tv is not None:
            return tv
        if c in s.known:
            return s.known[c]
        n = negate(c)
        if n in s.known:
            return not s.known[n]
        if c[0] == "unop" and c[1] == "not":
            v = self._decide(c[2], s)
            return None if v is None else not v
        if c[0] == "bool":
            vals = [self._decide(x, s) for x in c[2]]
            if c[1] == "and":
                if any(v is False for v in vals):
                    return False
                if all(v is True for v in vals):
                    return True
            else:
                if any(v is True for v in vals):
                    return True
                if all(v is False for v in vals):
                    return False
            return None
        if c[0] == "cmp":
            op, l, r = c[1], c[2], c[3]
            eq = s.known.get(("$eq", l))
            if eq is not None and (is_const(r) or r[0] in ("tuple", "list", "set")):
                f = fold_cmp(op, eq, r)
                if is_const(f):
                    return bool(f[1])
            if op in ("is", "is not", "==", "!=") and r == NONE:
                tl = truthy(l)
                if l[0] in ("new", "bound", "func", "closure", "self", "tuple", "list", "dict", "set", "fstr", "binop", "comp") or \
                        (l[0] == "call" and l[1][0] == "ext" and l[1][1] in _NEVER_NONE):
                    return op in ("is not", "!=")
                if l[0] == "const":
                    return (l[1] is None) == (op in ("is", "=="))
                if l[0] == "call" and l[1][0] in ("bound", "func") and self._never_returns_none(l[1][-1]):
                    return op in ("is not", "!=")
        return None

    def _never_returns_none(self, qual: str) -> bool:
        """the callee's declared return type excludes None (and it is no coroutine / generator)"""
        fi = self.prog.functions.get(qual)
        if fi is None or fi.node.returns is None or fi.is_async:
            return False
        txt = ast.unparse(fi.node.returns)
        if "None" in txt or "Optional" in txt or "Any" in txt or txt in ("object",):
            return False
        # every return statement returns a value
        for n in ast.walk(fi.node):
            if isinstance(n, ast.Return) and (n.value is None or (isinstance(n.value, ast.Constant) and n.value.value is None)):
                return False
        return True

    def _pure(self, c) -> bool:
        # call terms carry their evaluation identity (site + iteration stamp) and denote one value
        return not contains(c, lambda x: x[0] in ("await", "unknown"))

    def _learn(self, c, val: bool, s: _State):
        if not self._pure(c):
            return
        s.known[c] = val
        if c[0] == "cmp" and c[1] in ("==", "is") and val and is_const(c[3]):
            s.known[("$eq", c[2])] = c[3]
        if c[0] == "cmp" and c[1] in ("!=", "is not") and not val and is_const(c[3]):
            s.known[("$eq", c[2])] = c[3]
        if c[0] == "unop" and c[1] == "not":
            self._learn(c[2], not val, s)
        if c[0] == "bool":
            if c[1] == "and" and val:
                for x in c[2]:
                    self._learn(x, True, s)
            if c[1] == "or" and not val:
                for x in c[2]:
                    self._learn(x, False, s)

    # events ---------------------------------------------------------------------
    def _event(self, kind, node, fi, depth, s: _State) -> Event:
        if kind == "call":
            CALL_SITES.add((fi.qual if fi is not None else "?", getattr(node, "lineno", 0), getattr(node, "col_offset", 0)))
        e = Event(kind, node, fi, depth)
        e.seq = next(self._seq)
        e.frame = tuple(self._active)
        e.loopdepth = s.loopdepth
        if kind == "call" and self.policy.snapshot_facts:
            e.known = dict(s.known)
            e.handlers = s.env.get("$handlers", ())
        s.events.append(e)
        return e

    def _raise_point(self, e: Event, s: _State, ch: _Chooser, node):
        self.cur_state = s
        excs = self.policy.may_raise(e, self)
        if not excs:
            return
        hs = s.env.get("$handlers", ())
        opts = []
        for x in excs:
            if self.policy.fork_uncaught:
                opts.append(x)
                continue
            for level in hs:
                if any(h == ("$finally",) or self.exc.catches(list(h) if h is not None else None, x) != "no" for h in level):
                    opts.append(x)
                    break
        if not opts:
            return
        k = ch.choose(len(opts) + 1)
        if k > 0:
            e.raised = opts[k - 1]
            raise _RaiseSignal(opts[k - 1], None, node)

    # expressions ----------------------------------------------------------------
    def _eval(self, node, s: _State, fi: FuncInfo, depth: int, ch: _Chooser):
        ev = lambda n: self._eval(n, s, fi, depth, ch)  # noqa: E731
        if node is None:
            return NONE
        if isinstance(node, ast.Constant):
            return const(node.value)
        if isinstance(node, ast.Name):
            return self._eval_name(node, s, fi)
        if isinstance(node, ast.Attribute):
            base = ev(node.value)
            return self._load_attr(base, node.attr, node, s, fi, depth, ch)
        if isinstance(node, ast.Call):
            return self._eval_call(node, s, fi, depth, ch)
        if isinstance(node, ast.Subscript):
            base = ev(node.value)
            if isinstance(node.slice, ast.Slice):
                lo = ev(node.slice.lower) if node.slice.lower is not None else None
                hi = ev(node.slice.upper) if node.slice.upper is not None else None
                if base[0] in ("tuple", "list") and (lo is None or is_const(lo)) and (hi is None or is_const(hi)) \
                        and not any(e[0] == "starred" for e in base[1]):
                    return (base[0], tuple(base[1][(lo[1] if lo else None):(hi[1] if hi else None)]))
                return ("slice", base, lo, hi)
            idx = ev(node.slice)
            ntv = self.namedtuple_values(base)
            if ntv is not None:
                base = ("tuple", tuple(ntv))
            if base[0] in ("tuple", "list") and is_const(idx) and isinstance(idx[1], int) \
                    and -len(base[1]) <= idx[1] < len(base[1]) and not any(e[0] == "starred" for e in base[1]):
                return base[1][idx[1]]
            if base[0] == "ext" or base[0] == "cls":
                return base  # typing subscripts such as EndpointOption[Any]
            hit = self._table_lookup(base, idx, s, ch, node, fi)
            if hit is not None:
                return hit
            if is_const(idx) and isinstance(idx[1], int) and not isinstance(idx[1], bool) and base[0] == "call" and base[1][0] == "attr" \
                    and base[1][2] in ("unpack", "unpack_from"):
                # a constant index into the tuple Struct.unpack returns, within the number of fields of the format
                from . import layout as _layout
                fm = _layout.struct_fmt(self, base[1][1])
                if fm is not None and -len(fm.items) <= idx[1] < len(fm.items):
                    return ("item", base, idx)
            e = self._event("load", node, fi, depth, s)
            e.target = ("item", base, idx)
            self._raise_point(e, s, ch, node)
            return ("item", base, idx)
        if isinstance(node, ast.BinOp):
            l, r = ev(node.left), ev(node.right)
            op = BINOPS.get(type(node.op), "?")
            if op == "+" and l[0] == r[0] and l[0] in ("tuple", "list"):
                return (l[0], l[1] + r[1])
            return fold_binop(op, l, r)
        if isinstance(node, ast.UnaryOp):
            x = ev(node.operand)
            op = UNOPS[type(node.op)]
            if op == "not":
                tv = self._decide(x, s)
                if tv is not None:
                    return const(not tv)
                return negate(x)
            if is_const(x):
                try:
                    return const({"-": lambda v: -v, "+": lambda v: +v, "~": lambda v: ~v}[op](x[1]))
                except Exception:
                    pass
            return ("unop", op, x)
        if isinstance(node, ast.BoolOp):
            kind = "and" if isinstance(node.op, ast.And) else "or"
            vals = []
            for v in node.values:
                x = ev(v)
                tv = self._decide(x, s)
                if kind == "and":
                    if tv is False:
                        return x if not vals else ("bool", kind, tuple(vals + [x]))
                    if tv is True and v is not node.values[-1]:
                        continue
                else:
                    if tv is True:
                        return x if not vals else ("bool", kind, tuple(vals + [x]))
                    if tv is False and v is not node.values[-1]:
                        continue
                vals.append(x)
            if len(vals) == 1:
                return vals[0]
            return ("bool", kind, tuple(vals))
        if isinstance(node, ast.Compare):
            left = ev(node.left)
            parts = []
            for op, comp in zip(node.ops, node.comparators):
                right = ev(comp)
                parts.append(fold_cmp(CMPOPS[type(op)], left, right))
                left = right
            if len(parts) == 1:
                return parts[0]
            return ("bool", "and", tuple(parts))
        if isinstance(node, ast.IfExp):
            if s.env.get("$incomp"):
                # inside a comprehension kept as a term the choice is per element: stays a conditional term
                c = ev(node.test)
                tv = self._decide(c, s)
                if tv is True:
                    return ev(node.body)
                if tv is False:
                    return ev(node.orelse)
                return ("ite", c, ev(node.body), ev(node.orelse))
            # `a if c else b` is the statement `if c: a else: b`: one path per outcome
            return ev(node.body) if self._cond(node.test, s, fi, depth, ch, node) else ev(node.orelse)
        if isinstance(node, (ast.Tuple, ast.List, ast.Set)):
            tag = {ast.Tuple: "tuple", ast.List: "list", ast.Set: "set"}[type(node)]
            elems = []
            for e in node.elts:
                x = ev(e)
                if x[0] == "starred" and x[1][0] in ("tuple", "list"):
                    elems.extend(x[1][1])
                else:
                    elems.append(x)
            return (tag, tuple(elems))
        if isinstance(node, ast.Dict):
            if not node.keys and getattr(self.policy, "empty_dict_identity", False):
                # an empty display that is going to be filled: a new object per evaluation, like dict()
                return ("call", ("ext", "dict"), (), (), self.site(node, fi, s))
            items = []
            for k, v in zip(node.keys, node.values):
                items.append((ev(k) if k is not None else ("starred", NONE), ev(v)))
            return ("dict", tuple(items))
        if isinstance(node, ast.Starred):
            return ("starred", ev(node.value))
        if isinstance(node, ast.JoinedStr):
            parts = []
            opaque = False
            for v in node.values:
                if isinstance(v, ast.FormattedValue):
                    # evaluate for events but tolerate unbound names inside log strings
                    try:
                        x = ev(v.value)
                    except AnalysisError:
                        opaque = True
                        continue
                    if v.format_spec is not None or v.conversion not in (-1, 115):
                        opaque = True
                    parts.append(("fmt", x))
                elif isinstance(v, ast.Constant):
                    parts.append(const(v.value))
            if opaque:
                return ("fstr",)
            return ("fstr", tuple(parts))
        if isinstance(node, ast.FormattedValue):
            return ("fstr",)
        if isinstance(node, ast.Await):
            v = ev(node.value)
            e = self._event("await", node, fi, depth, s)
            e.value = v
            self._raise_point(e, s, ch, node)
            if v[0] == "coro":
                # `await f(...)`: the call that merely created the coroutine object is replaced by
                # the awaited (synchronously spliced) call
                for i in range(len(s.events) - 1, -1, -1):
                    if s.events[i].kind == "call" and s.events[i].coro and s.events[i].result == v:
                        del s.events[i]
                        break
                res = self._call_function(v[1], v[2], v[3], v[4], node, s, fi, depth, ch, awaited=True)
                # a coroutine analysed in place suspends at its own awaits, not at this one
                if any(x.kind == "call" and x.inlined and x.node is node for x in s.events) and e in s.events and e.raised is None:
                    s.events.remove(e)
                return res
            return ("await", v)
        if isinstance(node, ast.Lambda):
            cid = next(self._seq)
            self._closures[cid] = (("lambda", node, fi), s.env)
            return ("closure", f"{fi.qual}.<lambda>@{node.lineno}", cid)
        if isinstance(node, (ast.ListComp, ast.SetComp, ast.GeneratorExp, ast.DictComp)):
            return self._eval_comp(node, s, fi, depth, ch)
        if isinstance(node, ast.NamedExpr):
            v = ev(node.value)
            s.env[node.target.id] = v
            return v
        if isinstance(node, ast.Slice):
            return ("sliceobj",)
        raise AnalysisError(f"unmodelled expression {type(node).__name__} in {fi.qual} line {getattr(node, 'lineno', '?')}")

    def _eval_name(self, node, s: _State, fi: FuncInfo):
        name = node.id
        if name in s.env:
            return s.env[name]
        # closure environment handled by caller via env chaining
        enc = s.env.get("$outer")
        while enc is not None:
            if name in enc:
                return enc[name]
            enc = enc.get("$outer")
        g = self.prog.resolve_global(fi.module, name)
        if g:
            return self._global_term(g, fi)
        if name in ("True", "False", "None"):
            return const({"True": True, "False": False, "None": None}[name])
        return ("ext", name) if name in BUILTIN_NAMES else ("var", name)

    def _global_term(self, g, fi):
        if g[0] == "class":
            return ("cls", g[1])
        if g[0] == "func":
            return ("func", g[1])
        if g[0] == "module":
            return ("mod", g[1])
        if g[0] == "ext":
            return ("ext", g[1])
        if g[0] == "const":
            mi = self.prog.modules[g[1]]
            node = g[3]
            if isinstance(node, ast.Constant):
                return const(node.value)
            if (_immutable_literal(node) or self._namedtuple_literal(node, mi)) and g[2] not in mi.rebound:
                # module level tuple of constants / enum members: its value, not its name
                v = self._eval_in_module(node, mi)
                if v[0] != "unknown":
                    return v
            if isinstance(node, (ast.BinOp, ast.UnaryOp, ast.Attribute, ast.Name, ast.Call)) and g[2] not in mi.rebound \
                    and (g[1], g[2]) not in self._const_active:
                # a constant computed from other constants (sizes, masks), or a precompiled struct.Struct
                self._const_active.add((g[1], g[2]))
                try:
                    v = self._eval_in_module(node, mi)
                finally:
                    self._const_active.discard((g[1], g[2]))
                if is_const(v) and isinstance(v[1], (int, str, bytes)) and not isinstance(v[1], EnumVal):
                    return v
                if v[0] == "call" and v[1] == ("ext", "struct.Struct") and len(v[2]) == 1 and is_const(v[2][0]) \
                        and isinstance(v[2][0][1], str) and not v[3]:
                    return v
                if isinstance(node, ast.Call) and dotted(node.func) is not None and not any(isinstance(a, ast.Starred) for a in node.args):
                    # NAME = helper(<constants>): a record built once at import time by a function of the package that
                    # computes its value from its arguments alone (one path, no effects)
                    gf = self.prog.resolve_global(mi, dotted(node.func))
                    callee = self.prog.functions.get(gf[1]) if gf and gf[0] == "func" else None
                    if callee is not None and not callee.is_async and not _has_yield(callee):
                        av = tuple(self._eval_in_module(a, mi) for a in node.args)
                        kv = tuple((k.arg, self._eval_in_module(k.value, mi)) for k in node.keywords if k.arg)
                        if all(x[0] != "unknown" for x in av + tuple(x for _, x in kv)) and len(kv) == len(node.keywords):
                            try:
                                sub = Engine(self.prog, self.policy)
                                ps = sub.paths(callee, args=av, kwargs=kv, depth=1)
                            except AnalysisError:
                                ps = []
                            if len(ps) == 1 and ps[0].outcome[0] == "return" and not any(
                                    e.kind in ("store", "await") or (e.kind == "call" and e.sched) for e in ps[0].events):
                                self._nt_terms.update(sub._nt_terms)
                                return ps[0].outcome[1]
                if v[0] == "new" and isinstance(node, ast.Call) and v[1] in self.prog.classes and self.prog.is_dataclass(v[1]) \
                        and getattr(self.prog.classes[v[1]], "dataclass_frozen", False) and v[1] not in baseline_classes() \
                        and all(x[0] in ("const", "cls", "tuple", "set") for _, x in v[2]):
                    return ("new", v[1], v[2], ("const", g[1], g[2]))  # an immutable private record built at import time
                if v[0] in ("set", "tuple") and isinstance(node, ast.Call) and dotted(node.func) in ("frozenset", "tuple") \
                        and all(is_const(x) for x in v[1]):
                    return v  # an immutable collection of constants computed at import time
                if v[0] == "cls" and isinstance(node, (ast.Attribute, ast.Name)):
                    return v  # a private alias of a class
                if v[0] == "call" and v[1][0] == "ext" and v[1][1] in ("operator.attrgetter", "operator.itemgetter") \
                        and v[2] and all(is_const(a) for a in v[2]) and not v[3]:
                    return v  # a precomputed getter
            return ("attr", ("mod", g[1]), g[2])
        if g[0] == "classattr":
            em = enum_members(self.prog, g[1])
            if em is not None and g[2] in em:
                return const(em[g[2]])
            if "." not in g[2]:
                m = self.prog.lookup_method(g[1], g[2])
                if m is not None:
                    if m.kind == "classmethod":
                        return ("bound", ("cls", g[1]), m.qual)
                    return ("func", m.qual)
                c = self.prog.lookup_const(g[1], g[2])
                if c is not None and isinstance(c[1], ast.Constant):
                    return const(c[1].value)
            return ("attr", ("cls", g[1]), g[2])
        return ("unknown", ("global",))

    def _nt_field(self, base, attr):
        """(class, index) if `base.attr` reads a NamedTuple field: the instance term is known, or base is typed as
        the NamedTuple, or attr names a field of exactly one NamedTuple of the package and nothing else"""
        cq = self._nt_terms.get(base) if base[0] == "tuple" else None
        if cq is None:
            ty = self.typer.type_of(base)
            if ty and ty[0] == "cls" and getattr(self.prog.classes.get(ty[1]), "is_namedtuple", False):
                cq = ty[1]
        if cq is not None:
            names = [f.name for f in self.prog.all_fields(cq)]
            return (cq, names.index(attr)) if attr in names else (cq, None)
        if base[0] in ("call", "item", "elem", "var", "param", "await") and attr in self._nt_unique:
            return self._nt_unique[attr]
        return None

    def _owner_class(self, tm) -> t.Optional[str]:
        if tm[0] == "self":
            return tm[1]
        ty = self.typer.type_of(tm)
        return ty[1] if ty and ty[0] == "cls" else None

    def _injected(self, base, attr):
        """owner.h.attr where  owner.__init__ does  self.h = Component(ARG, ..)  and  Component.__init__ does
        self.attr = <that parameter>  (and nothing else ever assigns h / attr): the injected value is ARG evaluated in the
        owner (a bound method of the owner handed to a private component, a shared table, a constant)"""
        if base[0] != "attr" or base[1][0] != "self" or not self.policy.transparent_helpers:
            return None
        oc = base[1][1]
        hc = self.typer.type_of(base)
        if not hc or hc[0] != "cls" or hc[1] in baseline_classes() or hc[1] not in self.prog.classes:
            return None
        oci, cci = self.prog.classes.get(oc), self.prog.classes[hc[1]]
        if oci is None:
            return None
        hin = [(f_, v_) for c_ in oci.mro for (f_, v_) in self.prog.classes[c_].attr_init.get(base[2], [])]
        ain = cci.attr_init.get(attr, [])
        if len(hin) != 1 or len(ain) != 1 or hin[0][0].name != "__init__" or ain[0][0].name != "__init__":
            return None
        call, pv = hin[0][1], ain[0][1]
        cinit = ain[0][0]
        if not (isinstance(call, ast.Call) and isinstance(pv, ast.Name) and pv.id in cinit.params()[1:]):
            return None
        if any(isinstance(a_, ast.Starred) for a_ in call.args):
            return None
        idx = cinit.params()[1:].index(pv.id)
        arg = call.args[idx] if idx < len(call.args) else next((k.value for k in call.keywords if k.arg == pv.id), None)
        if arg is None:
            return None
        # ARG may only mention self (the owner) and constants
        if any(isinstance(n_, ast.Name) and n_.id != "self" for n_ in ast.walk(arg) if isinstance(n_, ast.Name)) \
                and not all(isinstance(n_, ast.Name) and (n_.id == "self" or n_.id in BUILTIN_NAMES or self.prog.resolve_global(hin[0][0].module, n_.id))
                            for n_ in ast.walk(arg) if isinstance(n_, ast.Name)):
            return None
        st = _State()
        st.env["self"] = base[1]
        try:
            return self._eval(arg, st, hin[0][0], 99, _Chooser())
        except (_RaiseSignal, AnalysisError):
            return None

    _ONESHOT_CALLS = ("map", "filter", "zip", "iter", "reversed", "enumerate", "itertools.chain", "itertools.starmap")

    def _bound_once(self, base, attr, fi):
        """self.X where X is assigned exactly once, in __init__, to a collection built from the object's own parts and
        constants (`tuple(part.m for part in (self.a, self.b))`, `[self.a.m, self.b.m]`): its elements, evaluated in the
        object.  When the assigned value is a *one-shot iterator* (a generator expression, map / filter / zip / iter ...)
        the attribute is empty after its first traversal: reading it from a method that can run more than once is a
        defect whatever the property (Pitfall)."""
        if base[0] != "self" or base[1] not in self.prog.classes or not self.policy.transparent_helpers or fi.name == "__init__":
            return None
        ci = self.prog.classes[base[1]]
        ini = [(f_, v_) for c_ in ci.mro if c_ in self.prog.classes for (f_, v_) in self.prog.classes[c_].attr_init.get(attr, [])]
        if len(ini) != 1 or ini[0][0].name != "__init__":
            return None
        init, val = ini[0]
        oneshot = isinstance(val, ast.GeneratorExp) or (isinstance(val, ast.Call) and (dotted(val.func) or "") in self._ONESHOT_CALLS)
        # (immutable collections only: a list bound in __init__ is filled and emptied by the methods)
        shaped = oneshot or (isinstance(val, ast.Tuple) and val.elts) or (
            isinstance(val, ast.Call) and (dotted(val.func) or "") in ("tuple", "frozenset") and len(val.args) == 1
            and isinstance(val.args[0], (ast.GeneratorExp, ast.ListComp, ast.Tuple, ast.List)))
        if not shaped:
            return None
        pnames = set(init.params()[1:])
        bound_in = {n_.id for n_ in ast.walk(val) if isinstance(n_, ast.Name) and isinstance(n_.ctx, ast.Store)}
        for n_ in ast.walk(val):
            if isinstance(n_, ast.Name) and isinstance(n_.ctx, ast.Load) and n_.id != "self" and n_.id not in bound_in \
                    and (n_.id in pnames or not (n_.id in BUILTIN_NAMES or self.prog.resolve_global(init.module, n_.id))):
                return None  # depends on a constructor argument / a local of __init__
        if oneshot and not getattr(self.policy, "report_pitfalls", True):
            return None
        if oneshot:
            raise Pitfall(f"{ci.qual}.{attr}", f"{init.module.relpath}:{val.lineno}",
                          f"self.{attr} is bound once, in __init__, to a one-shot iterator ({type(val).__name__ if not isinstance(val, ast.Call) else dotted(val.func) + '(..)'}); "
                          f"{fi.qual} traverses it on every call - the first traversal exhausts it, every later call finds it empty")
        st = _State()
        st.env["self"] = base
        try:
            v = self._eval(val, st, init, 99, _Chooser())
        except (_RaiseSignal, AnalysisError):
            return None
        if v[0] in ("tuple", "set") and v[1] and not any(x[0] == "starred" for x in v[1]):
            return v
        return None

    def _canon_attr(self, base, attr):
        """composition: `owner.h.y` where the owner's class has a property X that just returns self.h.y is the owner's own
        attribute X (and X itself is read as a plain attribute, not as a call of its getter)"""
        if base[0] == "attr":
            oc = self._owner_class(base[1])
            if oc is not None:
                x = self.prog.forwarders(oc).get((base[2], attr))
                if x is not None:
                    return base[1], x
        return base, attr

    def _load_attr(self, base, attr, node, s: _State, fi: FuncInfo, depth, ch):
        base, attr = self._canon_attr(base, attr)
        # heap (flow sensitive attribute values on this path)
        if (base, attr) in s.heap:
            return s.heap[(base, attr)]
        oc_ = self._owner_class(base) if base[0] in ("self", "attr", "param", "var") else None
        if oc_ is not None and attr in self.prog.forwarders(oc_).values():
            return ("attr", base, attr)  # a forwarding property: the attribute it presents
        inj = self._injected(base, attr)
        if inj is not None:
            return inj
        bo = self._bound_once(base, attr, fi)
        if bo is not None:
            return bo
        nt = self._nt_field(base, attr)
        if nt is not None:
            cq, idx = nt
            if idx is not None:
                if base[0] == "tuple" and idx < len(base[1]):
                    return base[1][idx]
                return ("item", base, const(idx))
            m = self.prog.lookup_method(cq, attr)
            if m is not None:
                if m.kind == "property":
                    ev_ = self._event("call", node, fi, depth, s)
                    ev_.fterm = ("bound", base, m.qual)
                    ev_.targets = [m]
                    ev_.recv = base
                    ev_.attrname = attr
                    if self.policy.inline_properties or _strip_at(m.qual) not in baseline_functions():
                        return self._inline(m, base, cq, (), (), ev_, node, s, fi, depth, ch)
                    ev_.result = ("call", ("bound", base, m.qual), (), (), self.site(node, fi, s))
                    return ev_.result
                return ("bound", base, m.qual)
        tag = base[0]
        if tag == "call" and attr == "size" and base[1] == ("ext", "struct.Struct") and len(base[2]) == 1 and is_const(base[2][0]) \
                and isinstance(base[2][0][1], str) and not base[3]:
            try:
                return const(_struct.calcsize(base[2][0][1]))
            except _struct.error:
                pass
        if tag == "mod":
            if base[1] == "":
                if attr in self.prog.modules:
                    return ("mod", attr)
            else:
                mi = self.prog.modules[base[1]]
                g = self.prog.resolve_global(mi, attr)
                if g:
                    return self._global_term(g, fi)
                return ("attr", base, attr)
        if tag == "ext":
            return ("ext", f"{base[1]}.{attr}")
        if tag == "const" and isinstance(base[1], EnumVal):
            if attr == "value":
                return const(int(base[1]))
            if attr == "name":
                return const(base[1].member)
        if tag == "cls":
            em = enum_members(self.prog, base[1])
            if em is not None and attr in em:
                return const(em[attr])
        if tag == "new":
            for k, v in base[2]:
                if k == attr:
                    return v
            f = self.prog.lookup_field(base[1], attr)
            if f is not None:
                ci = self.prog.cls(base[1])
                if f.default is not None:
                    return self._eval_static(f.default, FuncInfo.__new__(FuncInfo)) if False else self._eval_in_class(f.default, base[1])
                if f.default_factory is not None:
                    d = dotted(f.default_factory)
                    if d in ("tuple",):
                        return ("tuple", ())
                    if d in ("frozenset", "set"):
                        return ("set", ())
                    if d in ("list",):
                        return ("list", ())
        if tag == "replace":
            for k, v in base[2]:
                if k == attr:
                    return v
            ty0 = self.typer.type_of(base[1])
            if ty0 and ty0[0] == "cls" and self.prog.lookup_field(ty0[1], attr) is not None:
                return self._load_attr(base[1], attr, node, s, fi, depth, ch)
            # methods / properties are bound to the modified copy itself (handled below)
        cq = None
        is_clsobj = False
        if tag == "cls":
            cq, is_clsobj = base[1], True
        else:
            ty = self.typer.type_of(base)
            if ty and ty[0] == "cls":
                cq = ty[1]
        if cq is not None and cq in self.prog.classes:
            # private name mangling: __x refers to the lexically enclosing class
            if attr.startswith("__") and not attr.endswith("__") and fi.cls is not None:
                owner = fi.cls
                if attr in owner.consts:
                    if _immutable_literal(owner.consts[attr]) and attr not in owner.attr_init:
                        v = self._eval_in_class(owner.consts[attr], owner.qual)
                        if v[0] != "unknown":
                            return v
                    return ("classconst", owner.qual, attr)
            m = self.prog.lookup_method(cq, attr)
            if m is not None:
                if m.kind == "property" and not is_clsobj:
                    if self.policy.inline_properties or (self.policy.transparent_helpers and _strip_at(m.qual) not in baseline_functions()):
                        return self._call_function(("bound", base, m.qual), (), (), self.site(node, fi, s), node, s, fi, depth, ch, prop=True)
                    return ("attr", base, attr)
                if m.kind == "staticmethod":
                    return ("func", m.qual)
                if m.kind == "classmethod":
                    return ("bound", ("cls", cq), m.qual)
                if is_clsobj:
                    return ("func", m.qual)
                return ("bound", base, m.qual)
            c = self.prog.lookup_const(cq, attr)
            if c is not None and not (attr in (self.prog.classes[cq].attr_init) and not is_clsobj):
                owner, cnode = c
                if isinstance(cnode, ast.Constant):
                    return const(cnode.value)
                if _immutable_literal(cnode) and attr not in self.prog.classes[owner].attr_init:
                    v = self._eval_in_class(cnode, owner)
                    if v[0] != "unknown":
                        return v
                return ("classconst", owner, attr)
        return ("attr", base, attr)

    def _eval_in_class(self, node, clsqual):
        ci = self.prog.cls(clsqual)
        # evaluate a default value expression in the defining module's context
        fake = FuncInfo.__new__(FuncInfo)
        fake.qual = clsqual + ".<default>"
        fake.node = node
        fake.module = ci.module
        fake.cls = ci
        fake.name = "<default>"
        fake.kind = "function"
        fake.parent = None
        st = _State()
        try:
            return self._eval(node, st, fake, 99, _Chooser())
        except (_RaiseSignal, AnalysisError):
            return ("unknown", ("default", clsqual))

    def namedtuple_values(self, tm) -> t.Optional[t.List[tuple]]:
        """field values, in field order, of a constructed NamedTuple instance term (defaults filled in)"""
        if tm[0] != "new":
            return None
        ci = self.prog.classes.get(tm[1])
        if ci is None or not getattr(ci, "is_namedtuple", False):
            return None
        given = dict(tm[2])
        out = []
        for f in self.prog.all_fields(tm[1]):
            if f.name in given:
                out.append(given[f.name])
            elif f.default is not None:
                out.append(self._eval_in_class(f.default, tm[1]))
            else:
                return None
        return out

    def _namedtuple_literal(self, node, mi) -> bool:
        """module level `NAME = SomeNamedTuple(<constants / enum members>)`: an immutable record"""
        if not isinstance(node, ast.Call) or dotted(node.func) is None:
            return False
        g = self.prog.resolve_global(mi, dotted(node.func))
        if not g or g[0] != "class" or not getattr(self.prog.classes[g[1]], "is_namedtuple", False):
            return False
        parts = list(node.args) + [k.value for k in node.keywords]
        return all(isinstance(e, ast.Constant) or _immutable_literal(e) or
                   (isinstance(e, (ast.Attribute, ast.Name)) and dotted(e) is not None) for e in parts)

    def _eval_in_module(self, node, mi):
        fake = FuncInfo.__new__(FuncInfo)
        fake.qual = mi.short + ".<module>"
        fake.node = node
        fake.module = mi
        fake.cls = None
        fake.name = "<module>"
        fake.kind = "function"
        fake.parent = None
        try:
            return self._eval(node, _State(), fake, 99, _Chooser())
        except (_RaiseSignal, AnalysisError):
            return ("unknown", ("module-const", mi.short))

    def classconst_value(self, tm):
        """('classconst', cls, name) -> evaluated term of the class level constant"""
        ci = self.prog.cls(tm[1])
        return self._eval_in_class(ci.consts[tm[2]], tm[1])

    # comprehension ------------------------------------------------------------
    def _eval_comp(self, node, s: _State, fi, depth, ch):
        kind = {ast.ListComp: "list", ast.SetComp: "set", ast.GeneratorExp: "gen", ast.DictComp: "dict"}[type(node)]
        saved = dict(s.env)
        gens = []
        n0 = len(s.events)
        first_it = None
        at_import = fi.name == "<module>"
        if len(node.generators) == 1 and not node.generators[0].is_async and (not node.generators[0].ifs or at_import) and kind != "dict":
            # a comprehension over a display of known elements is the display of its results (at import time also with
            # filters, when they fold to constants: a table computed from an enum / a constant tuple)
            g = node.generators[0]
            first_it = self._eval(g.iter, s, fi, depth, ch)
            elems = self._iter_elems(first_it)
            if elems is None and at_import and first_it[0] == "cls":
                em = enum_members(self.prog, first_it[1])
                if em:
                    elems = [const(v) for v in em.values()]
            if elems is not None and len(elems) <= (64 if at_import else 8):
                out = []
                outer_iter = s.env.get("$iter")
                decided = True
                for i_, el in enumerate(elems):
                    s.env["$iter"] = (outer_iter or ()) + ((node.lineno, node.col_offset, i_),)  # evaluation identity per element
                    self._assign(g.target, el, s, fi, depth, ch)
                    keep = True
                    for c_ in g.ifs:
                        tv = truthy(self._eval(c_, s, fi, depth, ch))
                        if tv is None:
                            decided = False
                        keep = keep and bool(tv)
                    if keep:
                        out.append(self._eval(node.elt, s, fi, depth, ch))
                if not decided:
                    raise AnalysisError(f"{fi.qual}: a table computed at import time has a filter that does not fold to a constant")
                s.env.clear()
                s.env.update(saved)
                return ({"list": "list", "set": "set", "gen": "tuple"}[kind], tuple(out))
        if kind == "list" and len(node.generators) == 1 and not node.generators[0].is_async \
                and not getattr(self.policy, "comp_symbolic", False) \
                and (_filter_calls_element_method(node.generators[0]) or self._calls_branching_helper(node.elt, fi)
                     or self._filter_applies_local_callable(node.generators[0], s)):
            return self._comp_as_loop(node, s, fi, depth, ch, saved)
        s.env["$incomp"] = True
        for gi, g in enumerate(node.generators):
            it = first_it if gi == 0 and first_it is not None else self._eval(g.iter, s, fi, depth, ch)
            el = _elem_term(it, self.site(g.iter, fi), 0, symbolic_index=True)
            self._assign(g.target, el, s, fi, depth, ch)
            conds = tuple(self._eval(c, s, fi, depth, ch) for c in g.ifs)
            gens.append((el, it, conds))
        if kind == "dict":
            elt = ("tuple", (self._eval(node.key, s, fi, depth, ch), self._eval(node.value, s, fi, depth, ch)))
        else:
            elt = self._eval(node.elt, s, fi, depth, ch)
        for e in s.events[n0:]:
            e.in_comp = True
        s.env.clear()
        s.env.update(saved)
        return ("comp", kind, elt, tuple(gens), self.site(node, fi, s))

    def _filter_applies_local_callable(self, g: ast.comprehension, s: _State) -> bool:
        """the filter applies a callable object held in a local (operator.methodcaller / functools.partial / a bound method /
        a closure) to the element: `keep = operator.methodcaller("m", a); [x for x in xs if keep(x)]` asks every element
        like `[x for x in xs if x.m(a)]` does"""
        bound = {n.id for n in ast.walk(g.target) if isinstance(n, ast.Name)}
        for c in g.ifs:
            for n in ast.walk(c):
                if isinstance(n, ast.Call) and isinstance(n.func, ast.Name) and n.func.id in s.env \
                        and any(isinstance(a, ast.Name) and a.id in bound for a in n.args):
                    v = s.env[n.func.id]
                    if v[0] in ("closure", "bound") or (v[0] == "call" and v[1][0] == "ext" and
                                                         v[1][1] in ("operator.methodcaller", "functools.partial")):
                        return True
        return False

    def _calls_branching_helper(self, expr, fi: FuncInfo) -> bool:
        """does `expr` call a function the rules were not written against (an extracted helper)?  What it does and decides
        is per element: the comprehension is enumerated like the loop it abbreviates (per iteration events)."""
        if not self.policy.transparent_helpers:
            return False
        for n in ast.walk(expr):
            if not isinstance(n, ast.Call):
                continue
            callee = None
            if isinstance(n.func, ast.Name) and getattr(fi, "module", None) is not None:
                g = self.prog.resolve_global(fi.module, n.func.id)
                if g and g[0] == "func":
                    callee = self.prog.functions.get(g[1])
            elif isinstance(n.func, ast.Attribute) and isinstance(n.func.value, ast.Name) and n.func.value.id in ("self", "cls"):
                c = fi.cls if fi.cls is not None else (fi.parent.cls if getattr(fi, "parent", None) is not None else None)
                if c is not None:
                    callee = self.prog.lookup_method(c.qual, n.func.attr)
            if callee is None or not self.is_unknown_helper(callee):
                continue
            return True
        return False

    def _comp_as_loop(self, node, s: _State, fi, depth, ch, saved):
        """[ELT for T in IT if COND] where COND asks the element itself (a method call on T): enumerated like the
        loop `for T in IT: if COND: out.append(ELT)` - per iteration events and branch decisions, result a list
        display - so that the work COND does is visible to path rules exactly as in the statement form"""
        g = node.generators[0]
        it = self._eval(g.iter, s, fi, depth, ch)
        elems = self._iter_elems(it)
        if elems is not None:
            n = len(elems)
        else:
            n = ch.choose(self.policy.unroll + 1)
        site = self.site(g.iter, fi)
        outer_iter = s.env.get("$iter")
        out = []
        s.loopdepth += 1
        try:
            for i in range(n):
                s.env["$iter"] = (outer_iter or ()) + ((node.lineno, i),)
                el = elems[i] if elems is not None else _elem_term(it, site, i)
                self._assign(g.target, el, s, fi, depth, ch)
                keep = True
                for cnode in g.ifs:
                    if not self._cond(cnode, s, fi, depth, ch, cnode):
                        keep = False
                        break
                if keep:
                    out.append(self._eval(node.elt, s, fi, depth, ch))
        finally:
            s.loopdepth -= 1
            it_now = outer_iter
            s.env.clear()
            s.env.update(saved)
            if it_now:
                s.env["$iter"] = it_now
            else:
                s.env.pop("$iter", None)
        return ("list", tuple(out))

    # calls ----------------------------------------------------------------------
    def _eval_call(self, node: ast.Call, s: _State, fi: FuncInfo, depth, ch):
        if isinstance(node.func, ast.Name) and node.func.id == "next" and 1 <= len(node.args) <= 2 and not node.keywords \
                and isinstance(node.args[0], ast.GeneratorExp) and len(node.args[0].generators) == 1 \
                and not node.args[0].generators[0].is_async and "next" not in s.env and not s.env.get("$incomp"):
            # next((ELT for T in TABLE if COND), default): first-match search.  Over a display of known elements it is the
            # if/elif chain over them (decisions recorded per element); otherwise evaluated as any other call
            g = node.args[0].generators[0]
            it = self._eval(g.iter, s, fi, depth, ch)
            elems = self._iter_elems(it)
            if elems is not None and len(elems) <= 8:
                saved = dict(s.env)
                try:
                    for el in elems:
                        self._assign(g.target, el, s, fi, depth, ch)
                        if all(self._cond(c, s, fi, depth, ch, c) for c in g.ifs):
                            return self._eval(node.args[0].elt, s, fi, depth, ch)
                finally:
                    keep = {k: v for k, v in s.env.items() if k.startswith("$")}
                    s.env.clear()
                    s.env.update(saved)
                    s.env.update({k: v for k, v in keep.items() if k in saved})
                if len(node.args) == 2:
                    return self._eval(node.args[1], s, fi, depth, ch)
        f = self._eval(node.func, s, fi, depth, ch)
        args = []
        for a in node.args:
            x = self._eval(a, s, fi, depth, ch)
            if x[0] == "starred" and self.namedtuple_values(x[1]) is not None:
                x = ("starred", ("tuple", tuple(self.namedtuple_values(x[1]))))
            if x[0] == "starred" and x[1][0] == "call" and x[1][1][0] == "attr" and x[1][1][2] in ("unpack", "unpack_from"):
                # *Struct.unpack(..): as many values as the format has fields
                from . import layout as _layout
                fm = _layout.struct_fmt(self, x[1][1][1])
                if fm is not None:
                    x = ("starred", ("tuple", tuple(("item", x[1], const(i)) for i in range(len(fm.items)))))
            if x[0] == "starred" and x[1][0] in ("tuple", "list") and not any(e[0] == "starred" for e in x[1][1]):
                args.extend(x[1][1])
            else:
                args.append(x)
        kwargs = []
        for kw in node.keywords:
            v = self._eval(kw.value, s, fi, depth, ch)
            if kw.arg is None:
                if v[0] == "dict" and all(is_const(k) for k, _ in v[1]):
                    kwargs.extend((k[1], x) for k, x in v[1])
                else:
                    kwargs.append(("**", v))
            else:
                kwargs.append((kw.arg, v))
        return self._call_function(f, tuple(args), tuple(kwargs), self.site(node, fi, s), node, s, fi, depth, ch)

    def _resolve_targets(self, f) -> t.Tuple[t.List[FuncInfo], t.Optional[tuple], t.Optional[str]]:
        """-> (targets, receiver term, receiver class)"""
        if f[0] == "func":
            fi = self.prog.functions.get(f[1])
            return ([fi] if fi else [], None, None)
        if f[0] == "bound":
            fi = self.prog.functions.get(f[2])
            recv = f[1]
            rc = None
            if recv[0] == "cls":
                rc = recv[1]
            else:
                ty = self.typer.type_of(recv)
                if ty and ty[0] == "cls":
                    rc = ty[1]
            return ([fi] if fi else [], recv, rc)
        return ([], None, None)

    def _call_function(self, f, args, kwargs, site, node, s: _State, fi: FuncInfo, depth, ch,
                       awaited=False, prop=False):
        if f[0] == "attr" and f[2] == "_asdict" and not args and not kwargs and f[1][0] == "tuple" and f[1] in self._nt_terms:
            names = [fl.name for fl in self.prog.all_fields(self._nt_terms[f[1]])]
            return ("dict", tuple((const(n), v) for n, v in zip(names, f[1][1])))
        if f[0] == "attr" and f[2] == "get" and f[1][0] == "dict" and 1 <= len(args) <= 2 and not kwargs and f[1][1] \
                and all(is_const(k) for k, _ in f[1][1]) and not s.env.get("$incomp") and len(f[1][1]) <= 12:
            hit = self._table_lookup(f[1], args[0], s, ch, node, fi)
            if hit is not None:
                return hit
            return args[1] if len(args) == 2 else NONE
        # dict(k=v, ...): the same value as the display {"k": v, ...}
        if f == ("ext", "dict") and not args and kwargs and all(k != "**" for k, _ in kwargs):
            return ("dict", tuple((const(k), v) for k, v in kwargs))
        # operator.attrgetter / itemgetter / methodcaller objects applied to a value
        if f[0] == "call" and f[1][0] == "ext" and f[1][1] in ("operator.attrgetter", "operator.itemgetter", "operator.methodcaller") \
                and f[2] and not (f[1][1] != "operator.methodcaller" and f[3]) and len(args) == 1 and not kwargs:
            obj = args[0]
            kind = f[1][1].split(".")[1]
            if kind == "attrgetter" and all(is_const(a) and isinstance(a[1], str) and a[1].isidentifier() for a in f[2]):
                vals = [self._load_attr(obj, a[1], node, s, fi, depth, ch) for a in f[2]]
                return vals[0] if len(vals) == 1 else ("tuple", tuple(vals))
            if kind == "itemgetter" and all(is_const(a) for a in f[2]):
                def item(a):
                    if obj[0] in ("tuple", "list") and isinstance(a[1], int) and -len(obj[1]) <= a[1] < len(obj[1]) \
                            and not any(x[0] == "starred" for x in obj[1]):
                        return obj[1][a[1]]
                    return ("item", obj, a)
                vals = [item(a) for a in f[2]]
                return vals[0] if len(vals) == 1 else ("tuple", tuple(vals))
            if kind == "methodcaller" and is_const(f[2][0]) and isinstance(f[2][0][1], str) and f[2][0][1].isidentifier():
                m = self._load_attr(obj, f[2][0][1], node, s, fi, depth, ch)
                return self._call_function(m, tuple(f[2][1:]), tuple(f[3]), site, node, s, fi, depth, ch, awaited=awaited)
        # tracked local dict display:  d = {...}; d.update(k=v, ...) / d.update({...})
        if f[0] == "attr" and f[2] == "update" and f[1][0] == "dict" and all(is_const(k) for k, _ in f[1][1]) \
                and isinstance(node, ast.Call) and isinstance(node.func, ast.Attribute) and isinstance(node.func.value, ast.Name) \
                and s.env.get(node.func.value.id) == f[1] and len(args) <= 1 and all(k != "**" for k, _ in kwargs) \
                and (not args or (args[0][0] == "dict" and all(is_const(k) for k, _ in args[0][1]))):
            d = dict(f[1][1])
            for k, v in (args[0][1] if args else ()):
                d[k] = v
            for k, v in kwargs:
                d[const(k)] = v
            s.env[node.func.value.id] = ("dict", tuple(d.items()))
            return NONE
        # NT._make(iterable): the NamedTuple of the iterable's items
        if f[0] == "attr" and f[2] == "_make" and f[1][0] == "cls" and len(args) == 1 and not kwargs \
                and getattr(self.prog.classes.get(f[1][1]), "is_namedtuple", False):
            names = [fl.name for fl in self.prog.all_fields(f[1][1])]
            src = args[0]
            if src[0] in ("tuple", "list") and len(src[1]) == len(names) and not any(x[0] == "starred" for x in src[1]):
                res = ("tuple", tuple(src[1]))
            else:
                res = ("tuple", tuple(("item", src, const(i)) for i in range(len(names))))
            self._nt_terms[res] = f[1][1]
            return res
        # calling a functools.partial object calls the wrapped callable with the bound arguments first
        if f[0] == "call" and f[1] == ("ext", "functools.partial") and f[2]:
            return self._call_function(f[2][0], tuple(f[2][1:]) + tuple(args), tuple(f[3]) + tuple(kwargs), site, node, s, fi,
                                       depth, ch, awaited=awaited, prop=prop)
        # --- special forms that are pure term rewrites
        if f[0] == "ext":
            name = f[1]
            if name in ("typing.cast",) and len(args) == 2:
                return args[1]
            if name == "dataclasses.replace" and args:
                base = args[0]
                kws = tuple((k, v) for k, v in kwargs)
                if base[0] == "new":
                    d = dict(base[2])
                    d.update(kws)
                    return ("new", base[1], tuple(d.items()), base[3])
                if base[0] == "replace":
                    d = dict(base[2])
                    d.update(kws)
                    return ("replace", base[1], tuple(d.items()))
                return ("replace", base, kws)
            if name in ("tuple", "list") and len(args) == 1 and args[0][0] in ("tuple", "list") and not kwargs:
                return (name, args[0][1])
            if name in ("tuple", "list") and not args:
                return (name, ())
            if name == "frozenset" and len(args) == 1 and not kwargs and args[0][0] in ("tuple", "list", "set") \
                    and not any(x[0] == "starred" for x in args[0][1]):
                return ("set", tuple(args[0][1]))
            if name == "len" and len(args) == 1 and args[0][0] in ("tuple", "list") \
                    and not any(e[0] == "starred" for e in args[0][1]):
                return const(len(args[0][1]))
            if name == "divmod" and len(args) == 2 and not kwargs and is_const(args[1]) and isinstance(args[1][1], int) \
                    and not isinstance(args[1][1], bool) and args[1][1] > 0 and args[1][1] & (args[1][1] - 1) == 0:
                # divmod(a, 2**k) == (a >> k, a & (2**k - 1)) for every int a
                k = args[1][1].bit_length() - 1
                return ("tuple", (("binop", ">>", args[0], const(k)), ("binop", "&", args[0], const(args[1][1] - 1))))
            if name == "getattr" and len(args) == 2 and not kwargs and is_const(args[1]) and isinstance(args[1][1], str) \
                    and args[1][1].isidentifier():
                # getattr(x, "name") is x.name
                return self._load_attr(args[0], args[1][1], node, s, fi, depth, ch)
            if name in ("bytes", "bytearray") and len(args) == 1 and not kwargs and args[0][0] in ("tuple", "list") and args[0][1] \
                    and all(is_const(x) and isinstance(x[1], int) and not isinstance(x[1], bool) and 0 <= int(x[1]) <= 255 for x in args[0][1]) \
                    and getattr(fi, "name", "") == "<module>":
                return const(bytes(int(x[1]) for x in args[0][1]))  # (import-time constants only: function bodies keep the term)
            if name == "struct.pack" and args and not kwargs and all(is_const(x) for x in args) and isinstance(args[0][1], str) \
                    and getattr(fi, "name", "") == "<module>":
                try:
                    return const(_struct.pack(args[0][1], *[int(x[1]) if isinstance(x[1], int) else x[1] for x in args[1:]]))
                except (_struct.error, TypeError, ValueError):
                    pass
            if name == "bool" and len(args) == 1:
                tv = self._decide(args[0], s)
                if tv is not None:
                    return const(tv)
            if name == "map" and len(args) == 2 and not kwargs:
                # map(f, X)  ==  (f(x) for x in X)
                msite = self.site(node, fi, s)
                el = _elem_term(args[1], msite, 0, symbolic_index=True)
                n0 = len(s.events)
                elt = self._call_function(args[0], (el,), (), msite, node, s, fi, depth, ch)
                for e_ in s.events[n0:]:
                    e_.in_comp = True
                return ("comp", "gen", elt, ((el, args[1], ()),), msite)
            if name in ("any", "all") and len(args) == 1 and not kwargs and args[0][0] in ("tuple", "list") \
                    and not any(x[0] == "starred" for x in args[0][1]):
                if not args[0][1]:
                    return const(name == "all")
                if len(args[0][1]) == 1:
                    return ("call", ("ext", "bool"), (args[0][1][0],), (), site)
                return ("bool", "or" if name == "any" else "and", tuple(args[0][1]))
        e = self._event("call", node, fi, depth, s)
        e.fterm, e.args, e.kwargs = f, args, kwargs
        if f[0] == "attr":
            e.attrname = f[2]
            e.recv = f[1]
        elif f[0] == "bound":
            e.attrname = f[2].split(".")[-1]
            e.recv = f[1]
        elif f[0] == "ext":
            e.ext = f[1]
        self._classify_sched(e, s)
        # tracked local list mutation:  x = []; x.append(y)   (also  (a if flag else b).append(y)  with a plain name as flag)
        if f[0] == "attr" and f[2] == "append" and f[1][0] == "list" and len(args) == 1 and isinstance(node, ast.Call) \
                and isinstance(node.func, ast.Attribute):
            rn = node.func.value
            while isinstance(rn, ast.IfExp) and isinstance(rn.test, ast.Name):
                tv = self._decide(s.env.get(rn.test.id, ("var", rn.test.id)), s)
                if tv is None:
                    break
                rn = rn.body if tv else rn.orelse
            if isinstance(rn, ast.Name):
                nm = rn.id
                if s.env.get(nm) == f[1]:
                    s.env[nm] = ("list", f[1][1] + (args[0],))
        # tracked local byte buffer:  buf = bytearray(..); buf.append(x) / buf.extend(y)
        if f[0] == "attr" and f[2] in ("append", "extend") and len(args) == 1 and isinstance(node, ast.Call) \
                and isinstance(node.func, ast.Attribute) and isinstance(node.func.value, ast.Name) and _is_bytebuf(f[1]):
            nm = node.func.value.id
            if s.env.get(nm) == f[1]:
                add = ("call", ("ext", "bytes"), (("list", (args[0],)),), (), site) if f[2] == "append" else args[0]
                s.env[nm] = ("binop", "+", f[1], add)
        # closures -------------------------------------------------------------
        if f[0] == "closure":
            return self._call_closure(f, args, kwargs, e, node, s, fi, depth, ch)
        # classes ---------------------------------------------------------------
        if f[0] == "cls":
            return self._construct(f[1], args, kwargs, site, e, node, s, fi, depth, ch)
        targets, recv, rc = self._resolve_targets(f)
        e.targets = targets
        if not targets:
            if f[0] in ("var", "param", "item", "elem", "attr", "unknown", "call"):
                if f[0] != "attr" or self._looks_internal(f):
                    self.unresolved.append(e)
            self._raise_point(e, s, ch, node)
            res = ("call", f, args, kwargs, site)
            e.result = res
            return res
        callee = targets[0]
        # virtual dispatch on the receiver's class
        if recv is not None and rc is not None and callee.cls is not None and f[0] == "bound":
            m = self.prog.lookup_method(rc, callee.name)
            if m is not None:
                callee = m
                e.targets = [m]
        # argument style: keyword arguments that name the next positional parameters of the resolved callee are the same call as
        # the positional spelling - rules read `args[i]`, terms compare equal
        if kwargs and not any(a_[0] == "starred" for a_ in args) and all(k_ != "**" for k_, _ in kwargs):
            pn = [x.arg for x in callee.node.args.posonlyargs + callee.node.args.args]
            if callee.kind in ("method", "classmethod", "property") and pn and f[0] in ("bound",) or (callee.kind in ("method", "classmethod") and pn and recv is not None):
                pn = pn[1:]
            npos = len(callee.node.args.posonlyargs)
            kwd = dict(kwargs)
            moved = list(args)
            while len(moved) < len(pn) and len(moved) >= npos and pn[len(moved)] in kwd:
                moved.append(kwd.pop(pn[len(moved)]))
            if len(moved) != len(args):
                args = tuple(moved)
                kwargs = tuple((k_, v_) for k_, v_ in kwargs if k_ in kwd)
                e.args, e.kwargs = args, kwargs
        if callee.is_async and not awaited:
            e.coro = True
            res = ("coro", ("bound", recv, callee.qual) if recv is not None else ("func", callee.qual), args, kwargs, site)
            e.result = res
            return res
        if f[0] == "func" and callee.kind in ("method", "property") and callee.cls is not None and recv is None and args \
                and args[0][0] != "starred":
            # Class.method(obj, ...): an unbound method applied to its receiver
            recv, args = args[0], tuple(args[1:])
            rc = self._owner_class(recv) or callee.cls.qual
            e.recv = recv
        if f[0] == "bound" and isinstance(node, ast.Call) and not isinstance(node.func, ast.Attribute):
            e.via_value = True
        if self._should_inline(callee, depth, e):
            return self._inline(callee, recv, rc, args, kwargs, e, node, s, fi, depth, ch)
        self._raise_point(e, s, ch, node)
        res = ("call", f, args, kwargs, site)
        e.result = res
        return ("await", res) if awaited else res

    def _looks_internal(self, f) -> bool:
        return False

    def _should_inline(self, callee: FuncInfo, depth, e: Event) -> bool:
        if callee.qual in self._active:
            return False
        if self.is_listener_iface(callee.qual):
            return False
        if callee.qual in getattr(self.policy, "opaque", ()):
            return False  # a rule wants to see this call as a call (it analyses the callee on its own)
        if self._serves_caller(callee, e) and depth < 12:
            # a function the rules were not written against (extracted helper): analysed in place
            return True
        return self.policy.inline(callee, depth, e)

    def _serves_caller(self, callee: FuncInfo, e: Event) -> bool:
        if self.transparent(callee, e.func):
            return True
        # a bound method the rules were not written against that was handed over as a value (a callback wrapping another):
        # whoever invokes the value runs the wrapper's body on behalf of the object that created the binding
        return e.via_value and self.policy.transparent_helpers and self.is_unknown_helper(callee) \
            and callee.qual not in getattr(self.policy, "opaque", ()) and callee.kind == "method"

    def transparent(self, callee: FuncInfo, caller: t.Optional[FuncInfo]) -> bool:
        if callee.qual in getattr(self.policy, "opaque", ()):
            return False
        return self._transparent(callee, caller)

    def _transparent(self, callee: FuncInfo, caller: t.Optional[FuncInfo]) -> bool:
        """an unknown function that serves its caller: a module-level function, or a method of the caller's own class
        (hierarchy).  A new method that is invoked on *another* object is a new interface of that object: it stays a
        call and is analysed on its own like the known ones."""
        if not self.policy.transparent_helpers or not self.is_unknown_helper(callee):
            return False
        if callee.cls is None:
            return True
        if callee.cls.qual not in baseline_classes():
            # a method of a class the rules were not written against (a new private value class): part of its user
            return True
        ccls = caller.cls if caller is not None else None
        if ccls is None and caller is not None and caller.kind == "nested" and getattr(caller, "parent", None) is not None:
            ccls = caller.parent.cls
        if ccls is None:
            return False
        if ccls.qual not in baseline_classes():
            return True  # a private component calling back into an (equally new) private method of its owner
        return self.prog.is_subclass(ccls.qual, callee.cls.qual) or self.prog.is_subclass(callee.cls.qual, ccls.qual)

    def is_unknown_helper(self, callee: FuncInfo) -> bool:
        return _strip_at(callee.qual) not in baseline_functions() and callee.kind != "property" \
            and not _has_yield(callee)

    _KNOWN_DECORATORS = frozenset({"staticmethod", "classmethod", "property", "cached_property", "abstractmethod", "log_exceptions",
                                   "contextmanager", "wraps", "overload", "final", "override", "lru_cache", "cache", "setter", "deleter", "getter"})

    def _modelled_decorators(self, fi: FuncInfo):
        """a decorator replaces the function by whatever it returns: the body that is read here describes the call only for
        decorators whose effect is modelled"""
        for d in getattr(fi, "decorators", ()):
            if d.split(".")[-1] not in self._KNOWN_DECORATORS:
                raise AnalysisError(f"{fi.qual}: the effect of decorator @{d} is not modelled (what a call of {fi.name} does is decided there)")

    def _inline(self, callee: FuncInfo, recv, rc, args, kwargs, e: Event, node, s: _State, fi, depth, ch):
        self._modelled_decorators(callee)
        e.inlined = True
        if self._serves_caller(callee, e):
            # the call of an extracted helper is not an action of its own: rules see the helper's body instead
            e.helper = callee
            e.targets = []
        sub = _State()
        sub.heap = dict(s.heap)
        sub.known = dict(s.known)
        sub.env["$handlers"] = s.env.get("$handlers", ())
        sub.env["$iter"] = (s.env.get("$iter") or ()) + ((-1, getattr(node, "lineno", 0), getattr(node, "col_offset", 0)),)
        if s.env.get("$incomp"):
            sub.env["$incomp"] = True
        sub.loopdepth = s.loopdepth
        recv_term = recv
        self._bind_params(callee, sub, rc, recv_term, args, kwargs, root=False)
        key = (ch.prefix(), callee.qual, id(node), s.env.get("$iter"))
        outs = ch.cache.get(key)
        if outs is None:
            self._active.append(callee.qual)
            try:
                sub.events = []
                # an unknown helper is part of its caller: its body runs at the caller's depth (a rule that inlines
                # "one level" still sees one level below the helper)
                d2 = depth if self.transparent(callee, e.func) and depth < 12 else depth + 1
                outs = self._run_body(callee, callee.node.body, sub, d2)
            finally:
                self._active.pop()
            ch.cache[key] = outs
        if not outs:
            raise AnalysisError(f"no path through {callee.qual}")
        k = ch.choose(len(outs))
        kind, val, s2 = outs[k]
        enter = self._event("enter", node, fi, depth, s)
        enter.targets = [callee]
        s.events.extend(s2.events)
        leave = self._event("leave", node, fi, depth, s)
        leave.targets = [callee]
        s.conds.extend(s2.conds)
        s.heap = dict(s2.heap)
        s.known = dict(s2.known)
        s.truncated = s.truncated or s2.truncated
        # a mutable buffer / list handed to the helper by name and extended there in place (buf += .., buf.extend(..),
        # xs.append(..)) is the caller's object: the caller's variable sees the extension
        if isinstance(node, ast.Call) and self.transparent(callee, e.func):
            pnames = [a_.arg for a_ in callee.node.args.posonlyargs + callee.node.args.args]
            if callee.kind in ("method", "classmethod", "property") and pnames:
                pnames = pnames[1:]
            for an_, pn_ in zip(node.args, pnames):
                if isinstance(an_, ast.Name) and an_.id in s.env and pn_ in s2.env:
                    before, after = s.env[an_.id], s2.env[pn_]
                    if before != after and (_is_bytebuf(before) or before[0] == "list"):
                        grown = after
                        while grown[0] == "binop" and grown[1] == "+" and grown != before:
                            grown = grown[2]
                        if grown == before or (before[0] == "list" and after[0] == "list" and after[1][:len(before[1])] == before[1]):
                            s.env[an_.id] = after
        if kind == "raise":
            exc, term, n2 = val
            if callee.log_exceptions and self.exc.is_sub(exc, "Exception"):
                e.result = NONE
                return NONE
            e.raised = exc
            raise _RaiseSignal(exc, term, n2)
        if kind == "cut":
            s.truncated = True
            e.result = ("unknown", ("cut",))
            return e.result
        res = val if kind == "return" else NONE
        e.result = res
        return res

    def _call_closure(self, f, args, kwargs, e: Event, node, s: _State, fi, depth, ch):
        target, cenv = self._closures[f[2]]
        if isinstance(target, tuple) and target[0] == "lambda":
            lam, lfi = target[1], target[2]
            sub_env = {"$outer": cenv}
            names = [a.arg for a in lam.args.args]
            for n, v in zip(names, args):
                sub_env[n] = v
            for k, v in kwargs:
                sub_env[k] = v
            saved = s.env
            s.env = dict(sub_env)
            s.env["$handlers"] = saved.get("$handlers", ())
            try:
                res = self._eval(lam.body, s, lfi, depth + 1, ch)
            finally:
                s.env = saved
            e.inlined = True
            e.result = res
            return res
        callee: FuncInfo = target
        e.targets = [callee]
        if callee.is_async:
            e.coro = True
            res = ("coro", f, args, kwargs, self.site(node, fi, s))
            e.result = res
            return res
        if callee.qual in self._active or depth + 1 > self.policy.max_depth + 2:
            res = ("call", f, args, kwargs, self.site(node, fi, s))
            e.result = res
            return res
        e.inlined = True
        sub = _State()
        sub.heap = s.heap
        sub.known = s.known
        sub.env["$outer"] = cenv
        sub.env["$handlers"] = s.env.get("$handlers", ())
        sub.env["$iter"] = (s.env.get("$iter") or ()) + ((-1, getattr(node, "lineno", 0), getattr(node, "col_offset", 0)),)
        sub.loopdepth = s.loopdepth
        self._bind_params(callee, sub, None, None, args, kwargs, root=False)
        self._active.append(callee.qual)
        try:
            outs = self._run_body(callee, callee.node.body, sub, depth + 1)
        finally:
            self._active.pop()
        k = ch.choose(len(outs))
        kind, val, s2 = outs[k]
        s.events.extend(s2.events)
        s.conds.extend(s2.conds)
        s.heap = s2.heap
        if kind == "raise":
            raise _RaiseSignal(val[0], val[1], val[2])
        res = val if kind == "return" else NONE
        e.result = res
        return res

    def _construct(self, cq, args, kwargs, site, e: Event, node, s: _State, fi, depth, ch):
        ci = self.prog.classes.get(cq)
        e.targets = []
        em = enum_members(self.prog, cq) if ci is not None else None
        if em is not None:
            # Enum(value): conversion, raises ValueError for values that are no member
            e.ext = "enumconv:" + cq
            if len(args) == 1 and is_const(args[0]):
                for m in em.values():
                    if int(m) == args[0][1]:
                        e.result = const(m)
                        return e.result
            self._raise_point(e, s, ch, node)
            res = ("call", ("cls", cq), args, kwargs, site)
            e.result = res
            return res
        if ci is None:
            res = ("call", ("cls", cq), args, kwargs, site)
            e.result = res
            return res
        init = self.prog.lookup_method(cq, "__init__")
        if getattr(ci, "is_namedtuple", False):
            # a NamedTuple instance IS the tuple of its field values (indexing, unpacking, star-args and comparison
            # work on it as on any tuple); the class is remembered on the side for field names and methods
            given = {}
            names = [f.name for f in self.prog.all_fields(cq)]
            for n, v in zip(names, args):
                given[n] = v
            for k, v in kwargs:
                given[k] = v
            vals = []
            for f in self.prog.all_fields(cq):
                if f.name in given:
                    vals.append(given[f.name])
                elif f.default is not None:
                    vals.append(self._eval_in_class(f.default, cq))
                else:
                    vals = None
                    break
            if vals is not None:
                res = ("tuple", tuple(vals))
                self._nt_terms[res] = cq
                e.result = res
                e.ext = None
                return res
        if init is None and self.prog.is_dataclass(cq):
            fields = [f for f in self.prog.all_fields(cq)]
            vals = {}
            names = [f.name for f in fields]
            for n, v in zip(names, args):
                vals[n] = v
            for k, v in kwargs:
                vals[k] = v
            res = ("new", cq, tuple(vals.items()), site)
            e.result = res
            e.ext = None
            return res
        if init is None:
            # exception classes and plain classes without __init__
            res = ("new", cq, tuple((f"${i}", a) for i, a in enumerate(args)), site)
            e.result = res
            return res
        obj = ("new", cq, (), site)
        e.targets = [init]
        if (self.policy.inline_ctors or (self.policy.transparent_helpers and cq not in baseline_classes())) and self._should_inline(init, depth, e):
            self._inline(init, obj, cq, args, kwargs, e, node, s, fi, depth, ch)
        e.result = obj
        return obj

    def _classify_sched(self, e: Event, s: _State):
        f = e.fterm
        name = None
        if f[0] == "attr" and f[2] in SCHED:
            name = f[2]
        elif f[0] == "ext" and f[1].split(".")[-1] in SCHED and f[1].startswith("asyncio."):
            name = f[1].split(".")[-1]
        if name is None:
            return
        kind = SCHED[name]
        args = list(e.args)
        if kind == "soon":
            if not args:
                return
            e.sched, e.cb, e.cbargs = "soon", args[0], tuple(args[1:])
        elif kind == "later":
            if len(args) < 2:
                return
            e.sched, e.delay, e.cb, e.cbargs = "later", args[0], args[1], tuple(args[2:])
        else:
            if not args:
                return
            c = args[0]
            e.sched = "task"
            if c[0] == "coro":
                e.cb, e.cbargs, e.cbkwargs = c[1], c[2], c[3]
            else:
                e.cb = c
        # unwrap functools.partial / lambda wrappers
        cb = e.cb
        if cb is not None and cb[0] == "call" and cb[1] == ("ext", "functools.partial") and cb[2]:
            e.cb = cb[2][0]
            e.cbargs = tuple(cb[2][1:]) + tuple(e.cbargs)
            e.cbkwargs = tuple(cb[3]) + tuple(e.cbkwargs)

    def deferred_lambda_calls(self, cb, final_env, fi: FuncInfo):
        """A lambda handed to call_soon/call_later runs *after* the function that created it has gone on:
        its free variables see the values they have then (Python closures bind late).  Evaluate the
        lambda's body with defaults bound at creation and free names looked up in `final_env` (the
        environment at the end of the enumerated path).  Returns the call events of the body, or None
        when `cb` is no lambda closure."""
        tgt = self._closures.get(cb[2]) if cb and cb[0] == "closure" else None
        if tgt is None or not (isinstance(tgt[0], tuple) and tgt[0][0] == "lambda"):
            return None
        lam, lfi = tgt[0][1], tgt[0][2]
        cenv = tgt[1]
        st = _State()
        st.env = {k: v for k, v in cenv.items() if k not in ("$handlers",)}
        st.env.update({k: v for k, v in final_env.items() if not k.startswith("$")})
        a = lam.args
        names = [x.arg for x in a.args]
        for nm, d in zip(names[len(names) - len(a.defaults):], a.defaults):
            try:
                cst = _State()
                cst.env = dict(cenv)
                st.env[nm] = self._eval(d, cst, lfi, 99, _Chooser())
            except (_RaiseSignal, AnalysisError):
                st.env[nm] = ("unknown", ("default", nm))
        try:
            self._eval(lam.body, st, lfi, 1, _Chooser())
        except _RaiseSignal:
            pass
        return [e for e in st.events if e.kind == "call"]

    def closure_target(self, cb):
        """('closure', qual, id) -> (FuncInfo | ('lambda', node, fi), env)"""
        return self._closures.get(cb[2])


def _is_bytebuf(tm) -> bool:
    while tm[0] == "binop" and tm[1] == "+":
        tm = tm[2]
    return tm[0] == "call" and tm[1] == ("ext", "bytearray")


BUILTIN_NAMES = {
    "len", "range", "tuple", "list", "set", "frozenset", "dict", "bool", "int", "str", "bytes",
    "bytearray", "isinstance", "issubclass", "any", "all", "next", "iter", "repr", "getattr",
    "hasattr", "super", "print", "sorted", "reversed", "enumerate", "zip", "min", "max", "sum",
    "abs", "type", "id", "map", "filter", "format", "hex", "ord", "chr", "object", "property",
    "ValueError", "KeyError", "TypeError", "RuntimeError", "IndexError", "Exception",
    "BaseException", "NotImplementedError", "AssertionError", "StopIteration", "OSError",
    "UnicodeDecodeError", "UnicodeError", "LookupError", "AttributeError", "EOFError",
    "memoryview", "divmod", "pow", "round", "callable", "vars", "setattr", "float",
}
