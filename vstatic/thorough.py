"""thorough tier: the quick rules with deeper bounds (tier='thorough' is passed to the rule
modules) plus the self-validation corpus of the property: breaking mutants must be reported by the
check, benign twins must leave it silent.  Mutants are applied to a scratch copy of the *current*
tree (tempfile, removed afterwards); a mutant whose anchor text is not present in the current tree is
skipped and listed.  Self-validation results are evidence about the checker, never a verdict about
the tree: the exit code is the verdict of the rules on /repo itself."""
from __future__ import annotations

import ast
import json
import os
import shutil
import tempfile
import time
from concurrent.futures import ProcessPoolExecutor

from . import report
from .facts import repo_root


def _apply(root: str, m: dict, dst: str) -> str:
    """copy src/ of root to dst and apply the edits of mutant m; returns '' or the reason it does not apply"""
    shutil.copytree(os.path.join(root, "src"), os.path.join(dst, "src"))
    if m.get("diff"):
        # a whole behaviour-preserving refactoring kept as a unified diff (benign/<id>/refactor.diff)
        import subprocess
        if m.get("base"):
            r0 = subprocess.run(["patch", "-p1", "-s", "--no-backup-if-mismatch", "-i", os.path.join(report.VERIF, m["base"])],
                                cwd=dst, capture_output=True, text=True)
            if r0.returncode != 0:
                return "base refactoring does not apply to this tree"
        r = subprocess.run(["patch", "-p1", "-s", "--no-backup-if-mismatch", "-i", os.path.join(report.VERIF, m["diff"])],
                           cwd=dst, capture_output=True, text=True)
        if r.returncode != 0:
            return "diff does not apply to this tree"
        for dirpath, _, files in os.walk(os.path.join(dst, "src")):
            for f in files:
                if f.endswith(".py"):
                    with open(os.path.join(dirpath, f)) as fh:
                        try:
                            ast.parse(fh.read())
                        except SyntaxError as exc:
                            return f"patched {f} does not parse: {exc}"
        return ""
    for fname, old, new in m["edits"]:
        p = os.path.join(dst, "src", "someip", fname)
        with open(p) as fh:
            s = fh.read()
        if s.count(old) != 1:
            return f"anchor occurs {s.count(old)}x in {fname}"
        s = s.replace(old, new)
        try:
            ast.parse(s)
        except SyntaxError as exc:
            return f"edit does not parse: {exc}"
        with open(p, "w") as fh:
            fh.write(s)
    return ""


def _one(args):
    prop, m, root, seed = args
    from .main import run_property
    d = tempfile.mkdtemp(prefix="vstatic-mut-")
    try:
        why = _apply(root, m, d)
        if why:
            return {"name": m["name"], "kind": m["kind"], "status": "skipped", "why": why}
        lines = []
        rc = run_property(prop, "quick", seed, d, out=lines.append, write_evidence=False)
        rules = sorted({l.split("rule=")[1].split()[0] for l in lines if l.strip().startswith("rule=")})
        return {"name": m["name"], "kind": m["kind"], "rc": rc, "rules": rules,
                "status": "ok", "first": next((l.strip()[:200] for l in lines if l.strip().startswith("rule=")), "")}
    finally:
        shutil.rmtree(d, ignore_errors=True)


def run(prop: str, seed: int, root: str, write_evidence=True) -> int:
    from .main import run_property
    from .selftest.corpus import CORPUS
    t0 = time.time()
    lines = []
    rc = run_property(prop, "thorough", seed, root, out=lines.append, write_evidence=write_evidence)
    for l in lines:
        print(l)
    muts = [m for m in CORPUS if prop in m["props"]]
    results = []
    if muts:
        with ProcessPoolExecutor(max_workers=min(16, len(muts))) as ex:
            results = list(ex.map(_one, [(prop, m, root, seed) for m in muts]))
    detected = [r for r in results if r["kind"] == "break" and r.get("rc") == 1]
    missed = [r for r in results if r["kind"] == "break" and r["status"] == "ok" and r.get("rc") != 1]
    silent = [r for r in results if r["kind"] == "benign" and r.get("rc") == 0]
    noisy = [r for r in results if r["kind"] == "benign" and r["status"] == "ok" and r.get("rc") != 0]
    skipped = [r for r in results if r["status"] == "skipped"]
    for r in missed:
        print(f"SELFTEST-MISS property={prop} mutant={r['name']} rc={r.get('rc')}")
    for r in noisy:
        print(f"SELFTEST-NOISY property={prop} twin={r['name']} rc={r.get('rc')} {r.get('first', '')}")
    print(f"{prop} [thorough] self-validation: {len(detected)}/{len(detected) + len(missed)} breaking mutants reported, "
          f"{len(silent)}/{len(silent) + len(noisy)} benign twins silent, {len(skipped)} not applicable to this tree, {time.time() - t0:.1f}s")
    if write_evidence:
        path = os.path.join(report.EVIDENCE_DIR, f"{prop}.json")
        try:
            with open(path) as fh:
                ev = json.load(fh)
            ev["tier"] = "thorough"
            ev["coverage"]["selftest"] = {
                "breaking_mutants": len(detected) + len(missed), "reported": len(detected),
                "missed": [r["name"] for r in missed],
                "benign_twins": len(silent) + len(noisy), "silent": len(silent), "noisy": [r["name"] for r in noisy],
                "not_applicable_to_this_tree": [f"{r['name']}: {r['why']}" for r in skipped],
                "reported_by_rule": {r["name"]: r["rules"] for r in detected},
            }
            ev["coverage"]["evaluations"] = ev["coverage"].get("evaluations", 0) + len(results)
            ev["wall_s"] = round(time.time() - t0, 3)
            with open(path + ".tmp", "w") as fh:
                json.dump(ev, fh, indent=1, default=str)
            os.replace(path + ".tmp", path)
        except (OSError, ValueError):
            pass
    return rc
