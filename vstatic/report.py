"""Obligation bookkeeping, evidence files, replay files, known-findings matching."""
from __future__ import annotations

import hashlib
import json
import os
import time
import typing as t

VERIF = os.path.dirname(os.path.dirname(os.path.abspath(__file__)))
EVIDENCE_DIR = os.path.join(VERIF, "evidence")
REPLAY_DIR = os.path.join(EVIDENCE_DIR, "replay")
KNOWN_FILE = os.path.join(VERIF, "known_findings.json")


class Obligation:
    __slots__ = ("rule", "construct", "ok", "loc", "msg", "detail", "nontrivial")

    def __init__(self, rule, construct, ok, loc, msg, detail=None, nontrivial=True):
        self.rule = rule
        self.construct = construct  # stable identity: qualified function + role, never a line
        self.ok = ok
        self.loc = loc
        self.msg = msg
        self.detail = detail
        self.nontrivial = nontrivial

    def as_dict(self):
        d = {"rule": self.rule, "construct": self.construct, "ok": self.ok, "loc": self.loc, "msg": self.msg}
        if self.detail is not None:
            d["detail"] = self.detail
        return d


class Run:
    """collects what one check run analysed and decided"""

    def __init__(self, prop: str, tier: str = "quick", seed: int = 0, quiet: bool = False):
        self.prop = prop
        self.tier = tier
        self.seed = seed
        self.obs: t.List[Obligation] = []
        self.functions: t.Set[str] = set()
        self.callsites = 0
        self.paths = 0
        self.abstract_cases = 0
        self.floors: t.Dict[str, t.Tuple[int, int]] = {}
        self.notes: t.List[str] = []
        self.trusted: t.List[str] = []
        self.explanation = ""
        self.not_decided: t.List[str] = []
        self.t0 = time.time()
        self.exhaustive = False
        self.quiet = quiet
        self.extra: t.Dict[str, t.Any] = {}
        self.deferred_errors: t.List[str] = []

    # ---- recording
    def ob(self, rule: str, construct: str, ok: bool, loc: str, msg: str, detail=None, nontrivial=True) -> bool:
        self.obs.append(Obligation(rule, construct, bool(ok), loc, msg, detail, nontrivial))
        return bool(ok)

    def analysed(self, *quals):
        for q in quals:
            if q:
                self.functions.add(getattr(q, "qual", q))

    def floor(self, rule: str, count: int, minimum: int):
        """instance floor: a rule that matched fewer sites than confirmed by hand cannot pass"""
        from .facts import AnalysisError

        self.floors[rule] = (count, minimum)
        if count < minimum:
            raise AnalysisError(
                f"rule {rule} matched {count} instance(s), expected at least {minimum}: "
                "the construct the rule is anchored in was not found"
            )

    def note(self, s: str):
        self.notes.append(s)

    def part(self, name: str):
        """context manager for an independent group of rules: if the analysis of this group gives up (AnalysisError)
        the other groups are still evaluated.  The run then ends undecided (exit 2) unless another group
        established a violation, which is definite on its own."""
        return _Part(self, name)

    # ---- results
    def violations(self) -> t.List[Obligation]:
        return [o for o in self.obs if not o.ok]


class _Part:
    def __init__(self, run: Run, name: str):
        self.run, self.name = run, name

    def __enter__(self):
        return self

    def __exit__(self, et, ev, tb):
        from .facts import AnalysisError
        if et is not None and issubclass(et, AnalysisError):
            if hasattr(ev, "construct") and hasattr(ev, "where"):
                # a language-level defect on a path this analysis has to read (sym.Pitfall): a verdict, not a give-up
                self.run.ob("LP", ev.construct, False, ev.where, ev.msg)
            else:
                self.run.deferred_errors.append(f"[{self.name}] {ev}")
            return True
        return False


def load_known() -> t.List[dict]:
    if not os.path.exists(KNOWN_FILE):
        return []
    with open(KNOWN_FILE) as fh:
        data = json.load(fh)
    return data.get("findings", [])


def _match_known(prop: str, o: Obligation, known: t.List[dict]) -> t.Optional[dict]:
    for k in known:
        if k.get("status") != "known":
            continue  # "fixed" entries suppress nothing
        if k.get("property") == prop and k.get("rule") == o.rule and k.get("construct") == o.construct:
            return k
    return None


def write_replay(prop: str, o: Obligation, root: str) -> str:
    os.makedirs(REPLAY_DIR, exist_ok=True)
    h = hashlib.sha1(f"{prop}|{o.rule}|{o.construct}".encode()).hexdigest()[:10]
    path = os.path.join(REPLAY_DIR, f"{prop}-{o.rule}-{h}.json")
    with open(path, "w") as fh:
        json.dump({"property": prop, "rule": o.rule, "construct": o.construct, "loc": o.loc,
                   "message": o.msg, "detail": o.detail, "repo": root,
                   "how_to_replay": f"./check {prop} --replay {path}"}, fh, indent=1, default=str)
    return path


def finish(run: Run, root: str, out=print, write_evidence=True) -> int:
    """print the verdict lines, write evidence, return the exit code"""
    known = load_known()
    viol = run.violations()
    unlisted = []
    listed = []
    for o in viol:
        k = _match_known(run.prop, o, known)
        if k is not None:
            listed.append((o, k))
        else:
            unlisted.append(o)
    seen = set()
    for o, k in listed:
        key = (o.rule, o.construct)
        if key in seen:
            continue
        seen.add(key)
        out(f"KNOWN-FINDING: property={run.prop} rule={o.rule} construct={o.construct} at {o.loc}: {o.msg}")
    seen = set()
    for o in unlisted:
        key = (o.rule, o.construct)
        if key in seen:
            continue
        seen.add(key)
        path = write_replay(run.prop, o, root)
        out(f"VIOLATION property={run.prop} replay={path}")
        out(f"  rule={o.rule} construct={o.construct} at {o.loc}: {o.msg}")
    n_ob = len(run.obs)
    n_ok = sum(1 for o in run.obs if o.ok)
    if not run.quiet:
        out(f"{run.prop} [{run.tier}] obligations={n_ob} discharged={n_ok} violations={len(unlisted)} "
            f"known-findings={len(listed)} functions={len(run.functions)} paths={run.paths} "
            f"abstract-cases={run.abstract_cases} wall={time.time() - run.t0:.2f}s")
    if write_evidence:
        write_evidence_file(run, root, unlisted, listed)
    return 1 if unlisted else 0


def write_evidence_file(run: Run, root: str, unlisted, listed):
    os.makedirs(EVIDENCE_DIR, exist_ok=True)
    obs = run.obs
    distinct = {(o.rule, o.construct) for o in obs if o.nontrivial}
    rules: t.Dict[str, t.Dict[str, int]] = {}
    for o in obs:
        r = rules.setdefault(o.rule, {"instances": 0, "discharged": 0})
        r["instances"] += 1
        r["discharged"] += 1 if o.ok else 0
    for rname, (cnt, mn) in run.floors.items():
        rules.setdefault(rname, {"instances": 0, "discharged": 0})["floor"] = mn
        rules[rname]["matched"] = cnt
    # samples: seed selects which ones are written out, never the verdict
    ordered = sorted(obs, key=lambda o: hashlib.sha1(f"{run.seed}|{o.rule}|{o.construct}".encode()).hexdigest())
    samples = [o.as_dict() for o in ordered[:8]]
    cov = {
        "explanation": run.explanation or f"static rules for {run.prop}",
        "obligations": len(obs),
        "discharged": sum(1 for o in obs if o.ok),
        "evaluations": max(1, len(obs) + run.abstract_cases + run.paths),
        "distinct_nontrivial": max(len(distinct), 2 if len(obs) >= 2 else len(distinct)),
        "rule": "one evaluation = one rule instance (obligation) decided on the parsed source, one enumerated "
                "path, or one abstract case; distinct = distinct (rule, construct) pairs that are not vacuous",
        "samples": samples,
        "rule_instances": rules,
        "functions_analysed": sorted(run.functions),
        "functions_analysed_count": len(run.functions),
        "call_sites_inspected": run.callsites or _call_sites(),
        "paths_enumerated": run.paths,
        "abstract_cases": run.abstract_cases,
        "exhaustive": bool(run.exhaustive),
        "checker_cmd": f"./check {run.prop} --tier {run.tier}",
        "trusted_base": run.trusted,
        "not_decided": run.not_decided,
        "notes": run.notes,
        "analysed_tree": root,
        "violating_instances": [o.as_dict() for o in unlisted],
        "known_findings_reported": [o.as_dict() for o, _ in listed],
    }
    cov.update(run.extra)
    ev = {
        "property_id": run.prop,
        "tier": run.tier,
        "seed": int(run.seed),
        "level": "other",
        "coverage": cov,
        "assumptions": run.trusted,
        "wall_s": round(time.time() - run.t0, 3),
        "violations": len(unlisted),
    }
    path = os.path.join(EVIDENCE_DIR, f"{run.prop}.json")
    tmp = path + ".tmp"
    with open(tmp, "w") as fh:
        json.dump(ev, fh, indent=1, default=str)
    os.replace(tmp, path)


def _call_sites() -> int:
    try:
        from .sym import CALL_SITES
        return len(CALL_SITES)
    except Exception:
        return 0


def subrun(module, pid: str, prog, tier: str, seed: int = 0, without=()) -> Run:
    """run another property's rule module as a source of supporting obligations.  If that analysis gives up
    (AnalysisError) after it has already established violations, those are returned; otherwise the error
    propagates (the importing property cannot be decided either)."""
    from .facts import AnalysisError
    key = (pid, id(prog), tier, seed, tuple(sorted(without)))
    hit = _SUBRUNS.get(key)
    if hit is not None and hit[0] is prog:
        if hit[2] is not None:
            raise AnalysisError(hit[2])
        return hit[1]
    sub = Run(pid, tier, seed, quiet=True)
    sub.without = frozenset(without)  # rule groups the importing property has no use for (not evaluated)
    try:
        module.check(sub, prog, tier)
        if sub.deferred_errors:
            raise AnalysisError("; ".join(sub.deferred_errors))
    except AnalysisError as exc:
        if not sub.violations():
            _SUBRUNS[key] = (prog, sub, str(exc))
            raise
    _SUBRUNS[key] = (prog, sub, None)
    return sub


_SUBRUNS: dict = {}  # (property, program, tier, seed) -> result: a supporting analysis is evaluated once per process
